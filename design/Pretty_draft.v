(* DRAFT for a model M15 of nilaway.go PrettyPrintErrorMessage (the pretty-printing half of C13), not yet part of the build
   (design/ is not compiled by coq/mk.sh).  Messages are byte lists (N).  Each of the three regexp.ReplaceAllString passes is a
   structurally recursive state machine; strip is the ANSI remover \x1b\[[0-9;]*m of the oracle.  To do: nilabilityPattern
   pass, the theorem strip (pretty m) = "error: " ++ m for ESC-free m (invariant: well-formed escaped text, the escape bytes are
   neither a delimiter nor a newline), and the tie (evaluate inside Coq on the messages given to bin/harness pretty). *)
From Coq Require Import List NArith Bool.
Import ListNotations.
Open Scope N_scope.
Definition ESC := 27. Definition LBR := 91. Definition CM := 109. Definition NL := 10. Definition SEMI := 59.
Definition BQ := 96. Definition DQ := 34.
Definition is_param (c : N) : bool := ((48 <=? c) && (c <=? 57)) || (c =? SEMI).

(* one delimiter pass: `d(.*?)d` -> open d ${1} d close, `.` not matching newline *)
Inductive dstate := Outside | Inside (buf : list N).
Fixpoint dpass (d : N) (op cl : list N) (st : dstate) (l : list N) : list N :=
  match l, st with
  | [], Outside => []
  | [], Inside buf => d :: buf
  | c :: r, Outside => if c =? d then dpass d op cl (Inside []) r else c :: dpass d op cl Outside r
  | c :: r, Inside buf =>
      if c =? d then op ++ d :: buf ++ d :: cl ++ dpass d op cl Outside r
      else if c =? NL then d :: buf ++ c :: dpass d op cl Outside r
      else dpass d op cl (Inside (buf ++ [c])) r
  end.

Definition esc (code : list N) : list N := ESC :: LBR :: code ++ [CM].
Definition code_pass := dpass BQ (esc [57; 53]) (esc [48]) Outside.   (* 95 *)
Definition path_pass := dpass DQ (esc [51; 54]) (esc [48]) Outside.   (* 36 *)

(* the oracle's strip *)
Inductive sstate := SNormal | SEsc | SCsi (buf : list N).
Definition flush (st : sstate) : list N := match st with SNormal => [] | SEsc => [ESC] | SCsi b => ESC :: LBR :: b end.
Fixpoint strip (st : sstate) (l : list N) : list N :=
  match l with
  | [] => flush st
  | c :: r =>
      match st with
      | SNormal => if c =? ESC then strip SEsc r else c :: strip SNormal r
      | SEsc => if c =? LBR then strip (SCsi []) r
                else flush st ++ (if c =? ESC then strip SEsc r else c :: strip SNormal r)
      | SCsi b => if is_param c then strip (SCsi (b ++ [c])) r
                  else if c =? CM then strip SNormal r
                  else flush st ++ (if c =? ESC then strip SEsc r else c :: strip SNormal r)
      end
  end.

Example ex1 : strip SNormal (path_pass (code_pass [BQ; 120; BQ; 32; DQ; 97; DQ; 32; BQ; 10; BQ])) = [BQ; 120; BQ; 32; DQ; 97; DQ; 32; BQ; 10; BQ].
Proof. vm_compute. reflexivity. Qed.
