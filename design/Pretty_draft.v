(* DRAFT for a model M15 of nilaway.go PrettyPrintErrorMessage (the pretty-printing half of C13), not yet part of the build
   (design/ is not compiled by coq/mk.sh).  Messages are byte lists (N).  Each of the three regexp.ReplaceAllString passes is a
   structurally recursive state machine; strip is the ANSI remover \x1b\[[0-9;]*m of the oracle.  To do: nilabilityPattern
   pass, the theorem strip (pretty m) = "error: " ++ m for ESC-free m (invariant: well-formed escaped text, the escape bytes are
   neither a delimiter nor a newline), and the tie (evaluate inside Coq on the messages given to bin/harness pretty). *)
From Coq Require Import List NArith Bool.
Import ListNotations.
Open Scope N_scope.
Definition ESC := 27. Definition LBR := 91. Definition CM := 109. Definition NL := 10. Definition SEMI := 59.
Definition BQ := 96. Definition DQ := 34.
Definition is_param (c : N) : bool := ((48 <=? c) && (c <=? 57)) || (c =? SEMI).

(* one delimiter pass: `d(.*?)d` -> open d ${1} d close, `.` not matching newline *)
Inductive dstate := Outside | Inside (buf : list N).
Fixpoint dpass (d : N) (op cl : list N) (st : dstate) (l : list N) : list N :=
  match l, st with
  | [], Outside => []
  | [], Inside buf => d :: buf
  | c :: r, Outside => if c =? d then dpass d op cl (Inside []) r else c :: dpass d op cl Outside r
  | c :: r, Inside buf =>
      if c =? d then op ++ d :: buf ++ d :: cl ++ dpass d op cl Outside r
      else if c =? NL then d :: buf ++ c :: dpass d op cl Outside r
      else dpass d op cl (Inside (buf ++ [c])) r
  end.

Definition esc (code : list N) : list N := ESC :: LBR :: code ++ [CM].
Definition code_pass := dpass BQ (esc [57; 53]) (esc [48]) Outside.   (* 95 *)
Definition path_pass := dpass DQ (esc [51; 54]) (esc [48]) Outside.   (* 36 *)

(* the oracle's strip *)
Inductive sstate := SNormal | SEsc | SCsi (buf : list N).
Definition flush (st : sstate) : list N := match st with SNormal => [] | SEsc => [ESC] | SCsi b => ESC :: LBR :: b end.
Fixpoint strip (st : sstate) (l : list N) : list N :=
  match l with
  | [] => flush st
  | c :: r =>
      match st with
      | SNormal => if c =? ESC then strip SEsc r else c :: strip SNormal r
      | SEsc => if c =? LBR then strip (SCsi []) r
                else flush st ++ (if c =? ESC then strip SEsc r else c :: strip SNormal r)
      | SCsi b => if is_param c then strip (SCsi (b ++ [c])) r
                  else if c =? CM then strip SNormal r
                  else flush st ++ (if c =? ESC then strip SEsc r else c :: strip SNormal r)
      end
  end.

Example ex1 : strip SNormal (path_pass (code_pass [BQ; 120; BQ; 32; DQ; 97; DQ; 32; BQ; 10; BQ])) = [BQ; 120; BQ; 32; DQ; 97; DQ; 32; BQ; 10; BQ].
Proof. vm_compute. reflexivity. Qed.

(* ---------- first lemmas: one delimiter pass over an ESC-free message is undone by strip ---------- *)
Definition escfree (l : list N) : Prop := forall c, In c l -> c <> ESC.

Lemma strip_escfree_app : forall a b, escfree a -> strip SNormal (a ++ b) = a ++ strip SNormal b.
Proof.
  induction a as [|c a IH]; intros b H; [reflexivity|].
  cbn [app strip]. destruct (N.eqb_spec c ESC) as [E|E]; [exfalso; apply (H c); [left; reflexivity|exact E]|].
  f_equal. apply IH. intros x Hx. apply H. right. exact Hx.
Qed.

Lemma strip_csi : forall code acc b, forallb is_param code = true -> strip (SCsi acc) (code ++ CM :: b) = strip SNormal b.
Proof.
  induction code as [|c code IH]; intros acc b H.
  - cbn [app strip]. change (is_param CM) with false. cbn iota. rewrite N.eqb_refl. reflexivity.
  - cbn [forallb] in H. apply andb_true_iff in H. destruct H as [Hc H]. cbn [app strip]. rewrite Hc. apply IH. exact H.
Qed.

Lemma strip_esc : forall code b, forallb is_param code = true -> strip SNormal (esc code ++ b) = strip SNormal b.
Proof.
  intros code b H. unfold esc. cbn [app strip]. rewrite N.eqb_refl. cbn [strip]. rewrite N.eqb_refl.
  rewrite <- app_assoc. cbn [app]. apply strip_csi. exact H.
Qed.

Lemma dpass_strip : forall d co cc, d <> ESC -> forallb is_param co = true -> forallb is_param cc = true ->
  forall l, escfree l ->
  strip SNormal (dpass d (esc co) (esc cc) Outside l) = l /\
  forall buf, escfree buf -> strip SNormal (dpass d (esc co) (esc cc) (Inside buf) l) = d :: buf ++ l.
Proof.
  intros d co cc Hd Hco Hcc. induction l as [|c r IH]; intros Hl.
  - split; [reflexivity|]. intros buf Hb. cbn [dpass]. rewrite app_nil_r.
    replace (d :: buf) with ((d :: buf) ++ []) by apply app_nil_r.
    rewrite strip_escfree_app; [reflexivity|]. intros x [<-|Hx]; [exact Hd|apply Hb; exact Hx].
  - assert (Hr : escfree r) by (intros x Hx; apply Hl; right; exact Hx).
    assert (Hc : c <> ESC) by (apply Hl; left; reflexivity).
    destruct (IH Hr) as [IHo IHi]. split.
    + cbn [dpass]. destruct (N.eqb_spec c d) as [E|E].
      * subst c. rewrite (IHi [] (fun x (H : In x []) => match H with end)). reflexivity.
      * cbn [strip]. destruct (N.eqb_spec c ESC) as [E'|_]; [contradiction|]. rewrite IHo. reflexivity.
    + intros buf Hb. cbn [dpass]. destruct (N.eqb_spec c d) as [E|E].
      * subst c. rewrite strip_esc by exact Hco.
        change (d :: buf ++ d :: esc cc ++ dpass d (esc co) (esc cc) Outside r)
          with ((d :: buf) ++ d :: esc cc ++ dpass d (esc co) (esc cc) Outside r).
        replace ((d :: buf) ++ d :: esc cc ++ dpass d (esc co) (esc cc) Outside r)
          with (((d :: buf) ++ [d]) ++ esc cc ++ dpass d (esc co) (esc cc) Outside r) by (rewrite <- app_assoc; reflexivity).
        rewrite strip_escfree_app.
        -- rewrite strip_esc by exact Hcc. rewrite IHo. rewrite <- app_assoc. reflexivity.
        -- intros x Hx. apply in_app_or in Hx. destruct Hx as [[<-|Hx]|[<-|[]]]; [exact Hd|apply Hb; exact Hx|exact Hd].
      * destruct (N.eqb_spec c NL) as [E'|E'].
        -- replace (d :: buf ++ c :: dpass d (esc co) (esc cc) Outside r)
             with ((d :: buf ++ [c]) ++ dpass d (esc co) (esc cc) Outside r) by (cbn [app]; rewrite <- app_assoc; reflexivity).
           rewrite strip_escfree_app.
           ++ rewrite IHo. cbn [app]. rewrite <- app_assoc. reflexivity.
           ++ intros x [<-|Hx]; [exact Hd|]. apply in_app_or in Hx. destruct Hx as [Hx|[<-|[]]]; [apply Hb; exact Hx|exact Hc].
        -- rewrite IHi.
           ++ rewrite <- app_assoc. reflexivity.
           ++ intros x Hx. apply in_app_or in Hx. destruct Hx as [Hx|[<-|[]]]; [apply Hb; exact Hx|exact Hc].
Qed.

Theorem code_pass_strip : forall m, escfree m -> strip SNormal (code_pass m) = m.
Proof. intros m H. apply (dpass_strip BQ [57; 53] [48]); [discriminate|reflexivity|reflexivity|exact H]. Qed.

(* ---------- stronger: a delimiter pass is invisible to strip on EVERY byte string, from every state ---------- *)
(* no well-formedness of the input is needed: the opening escape is inserted right before a delimiter, the closing one right
   after a delimiter, and a delimiter (backtick, double quote) is none of ESC, `[`, a parameter byte, `m` -- reading it always
   leaves the strip automaton in SNormal, and an escape sequence in front of it is dropped from whatever state *)
Definition safe (c : N) : Prop := c <> ESC /\ c <> LBR /\ is_param c = false /\ c <> CM.

Lemma strip_safe : forall s d r, safe d -> strip s (d :: r) = flush s ++ d :: strip SNormal r.
Proof.
  intros s d r [H1 [H2 [H3 H4]]]. destruct s as [| |b]; cbn [strip flush app].
  - destruct (N.eqb_spec d ESC); [contradiction|reflexivity].
  - destruct (N.eqb_spec d LBR); [contradiction|]. destruct (N.eqb_spec d ESC); [contradiction|reflexivity].
  - rewrite H3. destruct (N.eqb_spec d CM); [contradiction|]. destruct (N.eqb_spec d ESC); [contradiction|reflexivity].
Qed.

Lemma strip_esc_any : forall s code b, forallb is_param code = true -> strip s (esc code ++ b) = flush s ++ strip SNormal b.
Proof.
  intros s code b H. unfold esc. destruct s as [| |buf]; cbn [app strip flush].
  - rewrite N.eqb_refl. cbn [strip]. rewrite N.eqb_refl. rewrite <- app_assoc. cbn [app]. apply strip_csi. exact H.
  - change (ESC =? LBR) with false. cbn iota. rewrite N.eqb_refl. cbn [strip]. rewrite N.eqb_refl.
    rewrite <- app_assoc. cbn [app]. rewrite strip_csi by exact H. reflexivity.
  - change (is_param ESC) with false. cbn iota. change (ESC =? CM) with false. cbn iota. rewrite N.eqb_refl.
    cbn [strip]. rewrite N.eqb_refl. rewrite <- app_assoc. cbn [app]. rewrite strip_csi by exact H. reflexivity.
Qed.

Lemma strip_cong : forall buf Y Y', (forall s, strip s Y = strip s Y') -> forall s, strip s (buf ++ Y) = strip s (buf ++ Y').
Proof.
  induction buf as [|c buf IH]; intros Y Y' H s; [apply H|].
  cbn [app]. destruct s as [| |b]; cbn [strip]; repeat match goal with |- context [if ?x then _ else _] => destruct x end;
    rewrite ?(IH Y Y' H); reflexivity.
Qed.

Lemma dpass_invisible : forall d co cc, safe d -> forallb is_param co = true -> forallb is_param cc = true ->
  forall l,
  (forall s, strip s (dpass d (esc co) (esc cc) Outside l) = strip s l) /\
  (forall buf s, strip s (dpass d (esc co) (esc cc) (Inside buf) l) = strip s (d :: buf ++ l)).
Proof.
  intros d co cc Hd Hco Hcc. induction l as [|c r [IHo IHi]]; split.
  - reflexivity.
  - intros buf s. cbn [dpass]. rewrite app_nil_r. reflexivity.
  - intros s. cbn [dpass]. destruct (N.eqb_spec c d) as [E|E].
    + subst c. rewrite IHi. reflexivity.
    + change (c :: dpass d (esc co) (esc cc) Outside r) with ([c] ++ dpass d (esc co) (esc cc) Outside r).
      change (c :: r) with ([c] ++ r). apply strip_cong. exact IHo.
  - intros buf s. cbn [dpass]. destruct (N.eqb_spec c d) as [E|E].
    + subst c. rewrite strip_esc_any by exact Hco.
      rewrite (strip_safe s d (buf ++ d :: r) Hd).
      rewrite (strip_safe SNormal d _ Hd). cbn [flush app]. f_equal. f_equal.
      apply strip_cong. intros s'. rewrite !(strip_safe s' d) by exact Hd. f_equal. f_equal.
      rewrite strip_esc_any by exact Hcc. cbn [flush app]. apply IHo.
    + destruct (N.eqb_spec c NL) as [E'|E'].
      * change (d :: buf ++ c :: dpass d (esc co) (esc cc) Outside r) with ((d :: buf) ++ [c] ++ dpass d (esc co) (esc cc) Outside r).
        change (d :: buf ++ c :: r) with ((d :: buf) ++ [c] ++ r).
        apply strip_cong. intros s'. apply strip_cong. exact IHo.
      * rewrite IHi. rewrite <- app_assoc. reflexivity.
Qed.

Lemma strip_escfree : forall m, escfree m -> strip SNormal m = m.
Proof. intros m H. rewrite <- (app_nil_r m) at 1. rewrite strip_escfree_app by exact H. cbn [strip flush]. apply app_nil_r. Qed.

Lemma safe_BQ : safe BQ. Proof. repeat split; discriminate. Qed.
Lemma safe_DQ : safe DQ. Proof. repeat split; discriminate. Qed.

(* the two delimiter passes of PrettyPrintErrorMessage composed: stripping gives back the plain message *)
Theorem code_then_path_strip : forall m, escfree m -> strip SNormal (path_pass (code_pass m)) = m.
Proof.
  intros m H. unfold path_pass, code_pass.
  rewrite (proj1 (dpass_invisible DQ [51; 54] [48] safe_DQ eq_refl eq_refl _)).
  rewrite (proj1 (dpass_invisible BQ [57; 53] [48] safe_BQ eq_refl eq_refl _)).
  apply strip_escfree. exact H.
Qed.
Print Assumptions code_then_path_strip.

(* ---------- the nilabilityPattern pass: ([\(|^\t](?i)(found\s|must\sbe\s)(nilable|nonnil)[\)]?) -> ESC[1m ${1} ESC[0m ---------- *)
(* definitions only (executable); to do: match_len_spec (first and last byte of a match are safe), npass_invisible *)
Definition lower (c : N) : N := if (65 <=? c) && (c <=? 90) then c + 32 else c.
Definition is_ws (c : N) : bool := (c =? 9) || (c =? 10) || (c =? 12) || (c =? 13) || (c =? 32).
Definition in_class (c : N) : bool := (c =? 40) || (c =? 124) || (c =? 94) || (c =? 9).
(* the rest of l after the word w, compared case-insensitively (w in lower case) *)
Fixpoint after_word (w l : list N) : option (list N) :=
  match w, l with
  | [], _ => Some l
  | x :: w', c :: r => if lower c =? x then after_word w' r else None
  | _ :: _, [] => None
  end.
Definition after_ws (l : list N) : option (list N) := match l with c :: r => if is_ws c then Some r else None | [] => None end.
Definition bind {A B} (o : option A) (f : A -> option B) : option B := match o with Some a => f a | None => None end.
Definition w_found := [102; 111; 117; 110; 100]. Definition w_must := [109; 117; 115; 116]. Definition w_be := [98; 101].
Definition w_nilable := [110; 105; 108; 97; 98; 108; 101]. Definition w_nonnil := [110; 111; 110; 110; 105; 108].
Definition opt_close (r : list N) : nat := match r with c :: _ => if c =? 41 then 1%nat else 0%nat | [] => 0%nat end.
(* length of the leftmost-first match at the head of l *)
Definition match_len (l : list N) : option nat :=
  match l with
  | c :: r =>
      if in_class c then
        bind (match bind (after_word w_found r) after_ws with
              | Some r1 => Some (6%nat, r1)
              | None => bind (bind (bind (bind (after_word w_must r) after_ws) (after_word w_be)) after_ws) (fun r1 => Some (8%nat, r1))
              end)
          (fun '(n1, r1) =>
             bind (match after_word w_nilable r1 with
                   | Some r2 => Some (7%nat, r2)
                   | None => bind (after_word w_nonnil r1) (fun r2 => Some (6%nat, r2))
                   end)
               (fun '(n2, r2) => Some (1 + n1 + n2 + opt_close r2)%nat))
      else None
  | [] => None
  end.
Fixpoint npass (op cl : list N) (k : nat) (l : list N) : list N :=
  match l with
  | [] => []
  | c :: r =>
      match k with
      | S j => c :: (match j with O => cl ++ npass op cl O r | _ => npass op cl j r end)
      | O => match match_len l with
             | Some (S j) => op ++ c :: (match j with O => cl ++ npass op cl O r | _ => npass op cl j r end)
             | _ => c :: npass op cl O r
             end
      end
  end.
Definition nil_pass := npass (esc [49]) (esc [48]) O.
Definition pretty (m : list N) : list N :=
  esc [51; 49] ++ [101; 114; 114; 111; 114; 58; 32] ++ esc [48] ++ path_pass (code_pass (nil_pass m)).

(* "(found NILABLE) x" *)
Example ex_nil : strip SNormal (pretty [40; 102; 111; 117; 110; 100; 32; 78; 73; 76; 65; 66; 76; 69; 41; 32; 120])
  = [101; 114; 114; 111; 114; 58; 32] ++ [40; 102; 111; 117; 110; 100; 32; 78; 73; 76; 65; 66; 76; 69; 41; 32; 120].
Proof. vm_compute. reflexivity. Qed.
Example ex_nil_wrapped : nil_pass [40; 102; 111; 117; 110; 100; 32; 78; 73; 76; 65; 66; 76; 69; 41; 32; 120]
  = esc [49] ++ [40; 102; 111; 117; 110; 100; 32; 78; 73; 76; 65; 66; 76; 69; 41] ++ esc [48] ++ [32; 120].
Proof. vm_compute. reflexivity. Qed.
