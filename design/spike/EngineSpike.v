From Coq Require Import List Bool Arith PeanoNat Lia.
Import ListNotations.

(* ---- Spike of M1: engine without explanations, sites are nat ---- *)
Definition site := nat.
Inductive kind := KAlways | KNever | KCond (s : site).
Record trigger := { prod : kind; cons : kind; ctrl : option site }.

Inductive ival := Det (b : bool) | Undet (ins outs : list site).

Definition smap := list (site * ival).   (* assoc list, newest binding first wins: use update *)

Fixpoint lookup (m : smap) (s : site) : option ival :=
  match m with
  | [] => None
  | (k, v) :: m' => if Nat.eqb k s then Some v else lookup m' s
  end.
Fixpoint update (m : smap) (s : site) (v : ival) : smap :=
  match m with
  | [] => [(s, v)]
  | (k, v') :: m' => if Nat.eqb k s then (k, v) :: m' else (k, v') :: update m' s v
  end.

Record state := { mp : smap; conflicts : nat; ctl : list (site * trigger) }.

Definition add_edge_list (l : list site) (s : site) : list site :=
  if existsb (Nat.eqb s) l then l else l ++ [s].

Definition store_impl (m : smap) (p c : site) : smap :=
  let m1 := match lookup m p with None => update m p (Undet [] []) | Some _ => m end in
  let m2 := match lookup m1 c with None => update m1 c (Undet [] []) | Some _ => m1 end in
  let m3 := match lookup m2 p with
            | Some (Undet i o) => update m2 p (Undet i (add_edge_list o c))
            | _ => m2 end in
  match lookup m3 c with
  | Some (Undet i o) => update m3 c (Undet (add_edge_list i p) o)
  | _ => m3
  end.

(* work-list formulation with fuel: items are "observe site s := b" or "build trigger t" *)
Inductive item := ISite (s : site) (b : bool) | ITrig (t : trigger) | IImpl (p c : site).

Definition controlled_by (st : state) (s : site) : list trigger :=
  map snd (filter (fun p => Nat.eqb (fst p) s) (ctl st)).

(* DFS order is modelled by pushing new items in front of the work list *)
Fixpoint run (fuel : nat) (st : state) (work : list item) : option state :=
  match fuel with
  | O => match work with [] => Some st | _ => None end
  | S fuel' =>
    match work with
    | [] => Some st
    | ISite s b :: rest =>
        match lookup (mp st) s with
        | None =>
            let st' := {| mp := update (mp st) s (Det b); conflicts := conflicts st; ctl := ctl st |} in
            let act := if b then map ITrig (controlled_by st s) else [] in
            run fuel' st' (act ++ rest)
        | Some (Det b') =>
            if Bool.eqb b b' then run fuel' st rest
            else
              let st' := {| mp := mp st; conflicts := S (conflicts st); ctl := ctl st |} in
              let act := if b then map ITrig (controlled_by st s) else [] in
              run fuel' st' (act ++ rest)
        | Some (Undet ins outs) =>
            let st' := {| mp := update (mp st) s (Det b); conflicts := conflicts st; ctl := ctl st |} in
            let act := if b then map ITrig (controlled_by st s) else [] in
            let prop := if b then map (fun o => ISite o true) outs else map (fun i => ISite i false) ins in
            run fuel' st' (act ++ prop ++ rest)
        end
    | IImpl p c :: rest =>
        match lookup (mp st) p with
        | Some (Det bp) => if bp then run fuel' st (ISite c true :: rest) else run fuel' st rest
        | _ =>
          match lookup (mp st) c with
          | Some (Det bc) => if bc then run fuel' st rest else run fuel' st (ISite p false :: rest)
          | _ => run fuel' {| mp := store_impl (mp st) p c; conflicts := conflicts st; ctl := ctl st |} rest
          end
        end
    | ITrig t :: rest =>
        match prod t, cons t with
        | KAlways, KAlways => run fuel' {| mp := mp st; conflicts := S (conflicts st); ctl := ctl st |} rest
        | KAlways, KCond c => run fuel' st (ISite c true :: rest)
        | KCond p, KAlways => run fuel' st (ISite p false :: rest)
        | KCond p, KCond c => run fuel' st (IImpl p c :: rest)
        | _, _ => run fuel' st rest
        end
    end
  end.

Definition build_pkg (fuel : nat) (st : state) (ts : list trigger) : option state :=
  let ctl' := flat_map (fun t => match ctrl t with Some s => [(s, t)] | None => [] end) ts in
  let st0 := {| mp := mp st; conflicts := conflicts st; ctl := ctl' |} in
  run fuel st0 (map ITrig (filter (fun t => match ctrl t with None => true | _ => false end) ts)).

(* ---- specification: reachability over active constraints ---- *)
Definition edge_of (t : trigger) : option (site * site) :=
  match prod t, cons t with KCond p, KCond c => Some (p, c) | _, _ => None end.
Definition src_of (t : trigger) : option site :=
  match prod t, cons t with KAlways, KCond c => Some c | _, _ => None end.
Definition snk_of (t : trigger) : option site :=
  match prod t, cons t with KCond p, KAlways => Some p | _, _ => None end.
Definition direct (t : trigger) : bool :=
  match prod t, cons t with KAlways, KAlways => true | _, _ => false end.

Definition mem (s : site) (l : list site) := existsb (Nat.eqb s) l.

(* forward closure of a set of sites under edges of the active triggers *)
Fixpoint close (fuel : nat) (edges : list (site * site)) (cur : list site) : list site :=
  match fuel with
  | O => cur
  | S f =>
    let nxt := fold_left (fun acc e => if mem (fst e) acc && negb (mem (snd e) acc) then snd e :: acc else acc) edges cur in
    close f edges nxt
  end.

Definition opt_list {A} (o : option A) : list A := match o with Some a => [a] | None => [] end.

(* active triggers: least fixed point: a controlled trigger is active iff its controller is nil-reachable *)
Fixpoint active (fuel : nat) (ts : list trigger) (act : list trigger) : list trigger :=
  match fuel with
  | O => act
  | S f =>
    let srcs := flat_map (fun t => opt_list (src_of t)) act in
    let edges := flat_map (fun t => opt_list (edge_of t)) act in
    let nil_sites := close (length ts + 2) edges srcs in
    let act' := filter (fun t => match ctrl t with None => true | Some s => mem s nil_sites end) ts in
    active f ts act'
  end.

Definition spec_flow (ts : list trigger) : bool :=
  let n := length ts + 2 in
  let act := active n ts (filter (fun t => match ctrl t with None => true | _ => false end) ts) in
  let srcs := flat_map (fun t => opt_list (src_of t)) act in
  let edges := flat_map (fun t => opt_list (edge_of t)) act in
  let nil_sites := close n edges srcs in
  existsb direct act || existsb (fun t => match snk_of t with Some p => mem p nil_sites | None => false end) act.

Definition impl_flow (ts : list trigger) : option bool :=
  match build_pkg 1000 {| mp := []; conflicts := 0; ctl := [] |} ts with
  | Some st => Some (negb (Nat.eqb (conflicts st) 0))
  | None => None
  end.

Definition agree (ts : list trigger) : bool :=
  match impl_flow ts with Some b => Bool.eqb b (spec_flow ts) | None => false end.

(* exhaustive over 3 sites, lists of length <= 3 *)
Definition kinds : list kind := [KAlways; KNever; KCond 1; KCond 2; KCond 3].
Definition ctrls : list (option site) := [None; Some 1; Some 2; Some 3].
Definition wf_t (t : trigger) : bool :=   (* controlled consumers are never controllers; here: controller <> consumer site and consumer is Cond *)
  match ctrl t with
  | None => true
  | Some s => match cons t with KCond c => negb (Nat.eqb c s) | _ => false end
  end.
Definition all_triggers : list trigger :=
  filter wf_t (flat_map (fun p => flat_map (fun c => map (fun k => {| prod := p; cons := c; ctrl := k |}) ctrls) kinds) kinds).
Definition lists2 : list (list trigger) := flat_map (fun a => map (fun b => [a; b]) all_triggers) all_triggers.
Definition lists3 : list (list trigger) := flat_map (fun a => map (fun l => a :: l) lists2) all_triggers.

Eval vm_compute in (length all_triggers, length lists2).
Definition bad2 := filter (fun l => negb (agree l)) lists2.
Eval vm_compute in (length bad2, hd [] bad2).


Definition find3 (f : list trigger -> bool) : option (list trigger) :=
  fold_left (fun acc a => match acc with Some _ => acc | None => find (fun l => negb (f (a :: l))) lists2 end) all_triggers None.
Eval vm_compute in (find3 agree).

(* verdict characterisation when no flow *)
Definition spec_sets (ts : list trigger) : list site * list site :=
  let n := length ts + 2 in
  let act := active n ts (filter (fun t => match ctrl t with None => true | _ => false end) ts) in
  let srcs := flat_map (fun t => opt_list (src_of t)) act in
  let snks := flat_map (fun t => opt_list (snk_of t)) act in
  let edges := flat_map (fun t => opt_list (edge_of t)) act in
  let redges := map (fun e => (snd e, fst e)) edges in
  (close n edges srcs, close n redges snks).

Definition verdict_ok (ts : list trigger) : bool :=
  if spec_flow ts then true else
  match build_pkg 1000 {| mp := []; conflicts := 0; ctl := [] |} ts with
  | None => false
  | Some st =>
    let '(nils, nonnils) := spec_sets ts in
    forallb (fun s =>
      match lookup (mp st) s with
      | Some (Det true) => mem s nils && negb (mem s nonnils)
      | Some (Det false) => mem s nonnils && negb (mem s nils)
      | _ => negb (mem s nils) && negb (mem s nonnils)
      end) [1;2;3]
  end.
Eval vm_compute in (find3 verdict_ok).

(* ---------------- multi-package spike: export / import ---------------- *)
Definition exported (s : site) : bool := Nat.leb s 2.   (* sites 1,2 are visible; 3 is unexported *)

Definition outs_of (m : smap) (s : site) : list site :=
  match lookup m s with Some (Undet _ o) => o | _ => [] end.
Definition ins_of (m : smap) (s : site) : list site :=
  match lookup m s with Some (Undet i _) => i | _ => [] end.
Definition is_undet (m : smap) (s : site) : bool :=
  match lookup m s with Some (Undet _ _) => true | _ => false end.

(* transcription of chooseSitesToExport with explicit marks, fuelled DFS *)
Record marks := { toExp : list site; rfe : list site; re : list site }.

Fixpoint mark_rfe (fuel : nat) (m : smap) (mk : marks) (s : site) : marks :=
  match fuel with O => mk | S f =>
    if is_undet m s && negb (exported s) && negb (mem s (toExp mk)) && negb (mem s (rfe mk)) then
      let mk1 := if mem s (re mk) then {| toExp := s :: toExp mk; rfe := rfe mk; re := re mk |}
                 else {| toExp := toExp mk; rfe := s :: rfe mk; re := re mk |} in
      fold_left (mark_rfe f m) (outs_of m s) mk1
    else mk
  end.
Fixpoint mark_re (fuel : nat) (m : smap) (mk : marks) (s : site) : marks :=
  match fuel with O => mk | S f =>
    if is_undet m s && negb (exported s) && negb (mem s (toExp mk)) && negb (mem s (re mk)) then
      let mk1 := if mem s (rfe mk) then {| toExp := s :: toExp mk; rfe := rfe mk; re := re mk |}
                 else {| toExp := toExp mk; rfe := rfe mk; re := s :: re mk |} in
      fold_left (mark_re f m) (ins_of m s) mk1
    else mk
  end.

Definition choose (m : smap) : list site :=
  toExp (fold_left (fun mk kv =>
      let s := fst kv in
      if exported s then
        let mk0 := {| toExp := s :: toExp mk; rfe := rfe mk; re := re mk |} in
        let mk1 := fold_left (mark_re 20 m) (ins_of m s) mk0 in
        fold_left (mark_rfe 20 m) (outs_of m s) mk1
      else mk) m {| toExp := []; rfe := []; re := [] |}).

(* first package: no upstream, export = chosen sites with their values *)
Definition export1 (m : smap) : smap := filter (fun kv => mem (fst kv) (choose m)) m.

(* import: replay a fact into a fresh engine state (ObserveUpstream) *)
Definition import_items (fact : smap) : list item :=
  flat_map (fun kv =>
    match snd kv with
    | Det b => [ISite (fst kv) b]
    | Undet ins outs => map (fun o => IImpl (fst kv) o) outs ++ map (fun i => IImpl i (fst kv)) ins
    end) fact.

Definition modular (ts1 ts2 : list trigger) : option (state * state) :=
  match build_pkg 1000 {| mp := []; conflicts := 0; ctl := [] |} ts1 with
  | None => None
  | Some st1 =>
    match run 1000 {| mp := []; conflicts := 0; ctl := [] |} (import_items (export1 (mp st1))) with
    | None => None
    | Some st2a =>
      match build_pkg 1000 st2a ts2 with
      | None => None
      | Some st2 => Some (st1, st2)
      end
    end
  end.

(* property: flow somewhere (pkg1 or pkg2 reports) iff spec_flow of the union; visible verdicts agree when no flow *)
Definition c06_ok (ts1 ts2 : list trigger) : bool :=
  match modular ts1 ts2 with
  | None => false
  | Some (st1, st2) =>
    let any := negb (Nat.eqb (conflicts st1) 0) || negb (Nat.eqb (conflicts st2) 0) in
    Bool.eqb any (spec_flow (ts1 ++ ts2)) &&
    (if spec_flow (ts1 ++ ts2) then true else
       let '(nils, nonnils) := spec_sets (ts1 ++ ts2) in
       forallb (fun s =>
         match lookup (mp st2) s with
         | Some (Det true) => mem s nils
         | Some (Det false) => mem s nonnils
         | _ => negb (mem s nils) && negb (mem s nonnils)
         end) [1;2])
  end.

Definition kinds12 : list kind := [KAlways; KNever; KCond 1; KCond 2].
Definition trig12 : list trigger := flat_map (fun p => map (fun c => {| prod := p; cons := c; ctrl := None |}) kinds12) kinds12.
Definition down2 : list (list trigger) := map (fun a => [a]) trig12 ++ flat_map (fun a => map (fun b => [a; b]) trig12) trig12.

Definition find_c06 : option (list trigger * list trigger) :=
  fold_left (fun acc l1 => match acc with Some _ => acc | None =>
      match find (fun l2 => negb (c06_ok l1 l2)) down2 with Some l2 => Some (l1, l2) | None => None end end)
    (filter (forallb (fun t => match ctrl t with Some _ => false | _ => true end)) (map (fun a => [a]) all_triggers ++ lists2)) None.
Eval vm_compute in find_c06.
