module ex.com/m2

go 1.23
