package a

type T struct{ v int }

func src() *T { return nil }

func use1() int {
	return src().v //nolint:nilaway
}

func use2() int {
	return src().v
}

func use3() int {
	return src().v
}
