package a

type T struct{ V int }

func Id(x *T) *T {
	if x == nil {
		return nil
	}
	return x
}

func C(p *T) int {
	a := Id(p) // nilable(param 0)
	return a.V
}

func C2(p *T) int {
	a := Id(p)
	return a.V
}

func D() int { return C2(nil) }
