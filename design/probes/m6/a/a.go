package a

type T struct{ V int }

var Opaque func() bool

func F(x *T) *T {
	if Opaque() {
		return nil
	}
	if x == nil {
		return nil
	}
	return x
}

func UseF() int {
	y := &T{}
	return F(y).V
}

func G(x *T) *T {
	if Opaque() {
		return nil
	}
	return x
}

func UseG() int {
	y := &T{}
	return G(y).V
}
