module ex.com/m6

go 1.23
