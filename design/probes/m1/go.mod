module ex.com/m1

go 1.23
