package a

type T struct{ v int }

var opaque func() bool

// contract unsoundness probe
func f(x *T) *T {
	if opaque() {
		return nil
	}
	if x == nil {
		return nil
	}
	return x
}

func useF() int {
	y := &T{}
	return f(y).v
}

// global probe
var g *T

func setNil() { g = nil }

func useG() int {
	g = &T{}
	setNil()
	return g.v
}

// rotation probe
func rot() int {
	var a, b, c, d, e, f2, h *T
	a, b, c, d, e, f2, h = &T{}, &T{}, &T{}, &T{}, &T{}, &T{}, nil
	for opaque() {
		a, b, c, d, e, f2, h = b, c, d, e, f2, h, a
	}
	return a.v
}
