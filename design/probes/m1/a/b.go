package a

func obvious() int {
	var p *T
	return p.v
}

func rot3() int {
	var a, b, c *T
	a, b, c = &T{}, &T{}, nil
	for opaque() {
		a, b, c = b, c, a
	}
	return a.v
}
