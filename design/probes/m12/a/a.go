package a

type T struct{ V int }

var Opaque func() bool

func src() *T {
	if Opaque() {
		return nil
	}
	return &T{}
}

func g1() int {
	x := src()
	if x != nil {
		return x.V
	}
	return 0
}
func g2() int {
	x := src()
	if nil != x {
		return x.V
	}
	return 0
}
func g3() int {
	x := src()
	if !(x == nil) {
		return x.V
	}
	return 0
}
func g4() int {
	x := src()
	if x == nil {
		return 0
	}
	return x.V
}
func g5() int {
	x := src()
	if x != nil && Opaque() {
		return x.V
	}
	return 0
}
func g6() int {
	x := src()
	if x == nil || Opaque() {
		return 0
	}
	return x.V
}
func g7() int {
	x := src()
	switch x {
	case nil:
		return 0
	}
	return x.V
}
func g8() int {
	x := src()
	if x == nil {
		return 0
	}
	n := 0
	for Opaque() {
		n += x.V
	}
	return n
}
func g9() int {
	x := src()
	if !(x == nil || Opaque()) {
		return x.V
	}
	return 0
}
func g10() int {
	x := src()
	if !(!(x != nil)) && (Opaque() || x != nil) {
		return x.V
	}
	return 0
}
func g11() int {
	x := src()
	switch {
	case x == nil:
		return 0
	default:
		return x.V
	}
}
func g12() int {
	x := src()
	if (x == nil) == false {
		return x.V
	}
	return 0
}
func g13() int {
	x := src()
	if (x != nil) == true {
		return x.V
	}
	return 0
}
func g14() int {
	x := src()
	for x != nil {
		return x.V
	}
	return 0
}
func g15() int {
	x := src()
	ok := x != nil
	if ok {
		return x.V
	}
	return 0
}
