// Package driver runs the real NilAway analyzer in-process (golang.org/x/tools/go/analysis/checker)
// over a module directory and returns diagnostics and exported facts in a canonical form.
package driver

import (
	"bytes"
	"crypto/sha256"
	"encoding/gob"
	"encoding/hex"
	"fmt"
	"go/ast"
	"go/parser"
	"go/token"
	"go/types"
	"os"
	"path/filepath"
	"reflect"
	"sort"
	"strings"

	"go.uber.org/nilaway"
	"go.uber.org/nilaway/annotation"
	"go.uber.org/nilaway/assertion"
	"go.uber.org/nilaway/assertion/function/functioncontracts"
	"go.uber.org/nilaway/config"
	"go.uber.org/nilaway/inference"
	"go.uber.org/nilaway/util/analysishelper"
	"golang.org/x/tools/go/analysis"
	"golang.org/x/tools/go/analysis/checker"
	"golang.org/x/tools/go/packages"
)

// Diag is one reported diagnostic.
type Diag struct {
	Pkg     string `json:"pkg"`  // package being analysed when it was reported
	File    string `json:"file"` // file name relative to the module dir when inside it
	Line    int    `json:"line"`
	Col     int    `json:"col"`
	Valid   bool   `json:"valid"`
	Message string `json:"message"`
}

// Fact is one exported package fact of any analyzer in NilAway's graph.
type Fact struct {
	Pkg      string                    `json:"pkg"`
	Analyzer string                    `json:"analyzer"`
	Type     string                    `json:"type"`
	Sha      string                    `json:"sha"` // sha256 of the gob encoding
	Size     int                       `json:"size"`
	Sites    []inference.VerifSiteInfo `json:"sites,omitempty"`
	// SiteObjs[i] describes the object declared at the position of Sites[i], looked up in the type information of the
	// loaded packages (independently of NilAway): whether it was found and whether Go calls it exported.
	SiteObjs []SiteObj `json:"siteobjs,omitempty"`
}

// SiteObj is what go/types says about the object a site's position points at.
type SiteObj struct {
	Found    bool   `json:"found"`
	Exported bool   `json:"exported"`
	Name     string `json:"name"`
	Kind     string `json:"kind"`
}

// Trigger is one full trigger of the assertion analyzer, rendered abstractly: kinds, site keys, consumer position.
type Trigger struct {
	Pkg      string `json:"pkg"`
	ProdKind string `json:"pk"` // Always / Never / Conditional / DeepConditional
	ProdType string `json:"pt"` // Go type of the producing annotation
	ProdSite string `json:"ps"` // String() of the underlying site key, "" if none
	ConsKind string `json:"ck"`
	ConsType string `json:"ct"`
	ConsSite string `json:"cs"`
	File     string `json:"file"`
	Line     int    `json:"line"`
	Col      int    `json:"col"`
	Ctrl     string `json:"ctrl"` // controller site key, "" if uncontrolled
}

// Contract is one inferred or written function contract.
type Contract struct {
	Pkg  string `json:"pkg"`
	Func string `json:"func"`
	Text string `json:"text"`
}

// Result of one run.
type Result struct {
	Diags     []Diag     `json:"diags"`
	Facts     []Fact     `json:"facts"`
	Errors    []string   `json:"errors"`
	Triggers  []Trigger  `json:"triggers,omitempty"`
	Contracts []Contract `json:"contracts,omitempty"`
}

// Options for Run.
type Options struct {
	Dir         string            // module root (go.mod lives here)
	Patterns    []string          // package patterns, default ./...
	Flags       map[string]string // nilaway_config flags
	Sequential  bool
	SanityCheck bool
	Env         []string
	Tests       bool
	// FileOrder, when "asc" or "desc", forces the order in which the module's own source files are registered in the
	// token.FileSet (by file name, ascending or descending); go/packages parses files concurrently, so this order --
	// and with it the relative order of token.Pos values of different files -- otherwise depends on scheduling.
	FileOrder string
	Sites     bool // include the site identities of InferredMap facts
	Triggers  bool // include the full triggers of the assertion analyzer and the function contracts
}

// SetFlags sets (and resets to defaults first) the config analyzer flags.
func SetFlags(flags map[string]string) error {
	defaults := map[string]string{
		config.PrettyPrintFlag: "false", config.GroupErrorMessagesFlag: "true", config.IncludePkgsFlag: "",
		config.ExcludePkgsFlag: "", config.ExcludeFileDocStringsFlag: "", config.ExperimentalStructInitEnableFlag: "false",
		config.ExperimentalStructInitV2EnableFlag: "false", config.ExperimentalAnonymousFunctionFlag: "false",
		config.PrintFullFilePathFlag: "false", config.ExcludeTestFilesFlag: "false",
	}
	for k, v := range defaults {
		if err := config.Analyzer.Flags.Set(k, v); err != nil {
			return err
		}
	}
	for k, v := range flags {
		if err := config.Analyzer.Flags.Set(k, v); err != nil {
			return err
		}
	}
	return nil
}

// Run loads and analyses.
func Run(o Options) (*Result, error) {
	if err := SetFlags(o.Flags); err != nil {
		return nil, err
	}
	pats := o.Patterns
	if len(pats) == 0 {
		pats = []string{"./..."}
	}
	env := append(os.Environ(), "GOFLAGS=-mod=mod", "GOPROXY=off", "GOWORK=off")
	env = append(env, o.Env...)
	cfg := &packages.Config{Mode: packages.LoadAllSyntax, Dir: o.Dir, Env: env, Tests: o.Tests}
	if o.FileOrder == "asc" || o.FileOrder == "desc" {
		// list the files first, parse the module's own files one by one in the requested order into one FileSet,
		// then load for real with a ParseFile hook that hands out the trees parsed here
		pre, err := packages.Load(&packages.Config{Mode: packages.NeedName | packages.NeedFiles | packages.NeedCompiledGoFiles | packages.NeedImports | packages.NeedDeps, Dir: o.Dir, Env: env, Tests: o.Tests}, pats...)
		if err != nil {
			return nil, err
		}
		absRoot, _ := filepath.Abs(o.Dir)
		seen := map[string]bool{}
		var own []string
		packages.Visit(pre, nil, func(p *packages.Package) {
			for _, f := range p.CompiledGoFiles {
				if strings.HasPrefix(f, absRoot+string(filepath.Separator)) && strings.HasSuffix(f, ".go") && !seen[f] {
					seen[f] = true
					own = append(own, f)
				}
			}
		})
		sort.Strings(own)
		if o.FileOrder == "desc" {
			for i, j := 0, len(own)-1; i < j; i, j = i+1, j-1 {
				own[i], own[j] = own[j], own[i]
			}
		}
		fset := token.NewFileSet()
		parsed := map[string]*ast.File{}
		for _, f := range own {
			if af, err := parser.ParseFile(fset, f, nil, parser.AllErrors|parser.ParseComments); err == nil {
				parsed[f] = af
			}
		}
		cfg.Fset = fset
		cfg.ParseFile = func(fs *token.FileSet, filename string, src []byte) (*ast.File, error) {
			if af, ok := parsed[filename]; ok && fs == fset {
				return af, nil
			}
			return parser.ParseFile(fs, filename, src, parser.AllErrors|parser.ParseComments)
		}
	}
	pkgs, err := packages.Load(cfg, pats...)
	if err != nil {
		return nil, err
	}
	res := &Result{}
	for _, p := range pkgs {
		for _, e := range p.Errors {
			res.Errors = append(res.Errors, "load: "+e.Error())
		}
	}
	roots := []*analysis.Analyzer{nilaway.Analyzer}
	if o.Triggers {
		// results are kept for root actions only
		roots = append(roots, assertion.Analyzer, functioncontracts.Analyzer)
	}
	g, err := checker.Analyze(roots, pkgs, &checker.Options{Sequential: o.Sequential, SanityCheck: o.SanityCheck})
	if err != nil {
		return nil, err
	}
	absDir, _ := filepath.Abs(o.Dir)
	// declared objects of every loaded package by absolute position, for the site oracle
	defs := map[string]types.Object{}
	if o.Sites {
		packages.Visit(pkgs, nil, func(p *packages.Package) {
			if p.TypesInfo == nil || p.Fset == nil {
				return
			}
			for id, obj := range p.TypesInfo.Defs {
				if obj == nil {
					continue
				}
				posn := p.Fset.Position(id.Pos())
				defs[fmt.Sprintf("%s:%d:%d", posn.Filename, posn.Line, posn.Column)] = obj
			}
		})
	}
	for act := range g.All() {
		if act.Err != nil {
			res.Errors = append(res.Errors, fmt.Sprintf("%s@%s: %v", act.Analyzer.Name, act.Package.PkgPath, act.Err))
		}
		if act.Analyzer == nilaway.Analyzer {
			for _, d := range act.Diagnostics {
				posn := act.Package.Fset.Position(d.Pos)
				f := posn.Filename
				if rel, err := filepath.Rel(absDir, f); err == nil && !strings.HasPrefix(rel, "..") {
					f = rel
				}
				res.Diags = append(res.Diags, Diag{Pkg: act.Package.PkgPath, File: f, Line: posn.Line, Col: posn.Column, Valid: d.Pos.IsValid(), Message: d.Message})
			}
		}
		if o.Triggers && act.Analyzer == assertion.Analyzer && act.Err == nil {
			if r, ok := act.Result.(*analysishelper.Result[[]annotation.FullTrigger]); ok && r != nil {
				for _, t := range r.Res {
					res.Triggers = append(res.Triggers, renderTrigger(act.Package.PkgPath, act.Package.Fset, absDir, t))
				}
			}
		}
		if o.Triggers && act.Analyzer == functioncontracts.Analyzer && act.Err == nil {
			if r, ok := act.Result.(*analysishelper.Result[functioncontracts.Map]); ok && r != nil {
				for fn, cs := range r.Res {
					if fn.Pkg() != act.Package.Types {
						continue
					}
					res.Contracts = append(res.Contracts, Contract{Pkg: act.Package.PkgPath, Func: fn.FullName(), Text: fmt.Sprintf("%v", cs)})
				}
			}
		}
		for _, pf := range act.AllPackageFacts() {
			if pf.Package != act.Package.Types {
				continue
			}
			var buf bytes.Buffer
			sha, size := "", 0
			if err := gob.NewEncoder(&buf).Encode(pf.Fact); err == nil {
				h := sha256.Sum256(buf.Bytes())
				sha, size = hex.EncodeToString(h[:]), buf.Len()
			} else {
				sha = "ENCODE-ERROR: " + err.Error()
			}
			fct := Fact{Pkg: act.Package.PkgPath, Analyzer: act.Analyzer.Name, Type: fmt.Sprintf("%T", pf.Fact), Sha: sha, Size: size, Sites: sitesIf(o.Sites, pf.Fact)}
			for _, si := range fct.Sites {
				so := SiteObj{}
				if abs, err := filepath.Abs(si.File); err == nil {
					if obj, ok := defs[fmt.Sprintf("%s:%d:%d", abs, si.Line, si.Col)]; ok {
						// externally visible = exported, or a package-level type name (values of an unexported named type
						// reach other packages through exported functions, variables and fields; its deep site is the type's)
						vis := obj.Exported()
						if _, isTN := obj.(*types.TypeName); isTN && obj.Pkg() != nil && obj.Pkg().Scope().Lookup(obj.Name()) == obj {
							vis = true
						}
						// ... or an unexported method that takes part in dynamic dispatch: a method of an interface, or one named
						// like an unexported method of a package-level interface of its package (a value converted to that interface
						// in ANOTHER package links the two methods' sites)
						if fn, isFn := obj.(*types.Func); isFn && !vis && fn.Pkg() != nil {
							if sig, _ := fn.Type().(*types.Signature); sig != nil && sig.Recv() != nil {
								if types.IsInterface(sig.Recv().Type()) {
									vis = true
								} else {
									sc := fn.Pkg().Scope()
									for _, nm := range sc.Names() {
										tn, isTN := sc.Lookup(nm).(*types.TypeName)
										if !isTN {
											continue
										}
										if it, isI := tn.Type().Underlying().(*types.Interface); isI {
											for k := 0; k < it.NumMethods(); k++ {
												if m := it.Method(k); m.Name() == fn.Name() && m.Pkg() == fn.Pkg() {
													vis = true
												}
											}
										}
									}
								}
							}
						}
						so = SiteObj{Found: true, Exported: vis, Name: obj.Name(), Kind: fmt.Sprintf("%T", obj)}
					}
				}
				fct.SiteObjs = append(fct.SiteObjs, so)
			}
			res.Facts = append(res.Facts, fct)
		}
	}
	// g.All() order is not specified: canonicalise by package, keeping per-package report order
	sort.SliceStable(res.Diags, func(i, j int) bool { return res.Diags[i].Pkg < res.Diags[j].Pkg })
	sort.SliceStable(res.Triggers, func(i, j int) bool { return res.Triggers[i].Pkg < res.Triggers[j].Pkg })
	sort.SliceStable(res.Contracts, func(i, j int) bool {
		if res.Contracts[i].Pkg != res.Contracts[j].Pkg {
			return res.Contracts[i].Pkg < res.Contracts[j].Pkg
		}
		return res.Contracts[i].Func < res.Contracts[j].Func
	})
	sort.SliceStable(res.Facts, func(i, j int) bool {
		a, b := res.Facts[i], res.Facts[j]
		if a.Pkg != b.Pkg {
			return a.Pkg < b.Pkg
		}
		if a.Analyzer != b.Analyzer {
			return a.Analyzer < b.Analyzer
		}
		return a.Type < b.Type
	})
	return res, nil
}

func siteString(k annotation.Key) string {
	if k == nil || reflect.ValueOf(k).IsNil() {
		return ""
	}
	// keys of functions print the bare function name: append the receiver-qualified name so that a method of an
	// interface and the methods implementing it can be told apart
	var fn *types.Func
	switch kk := k.(type) {
	case *annotation.ParamAnnotationKey:
		fn = kk.FuncDecl
	case *annotation.RetAnnotationKey:
		fn = kk.FuncDecl
	case *annotation.RecvAnnotationKey:
		fn = kk.FuncDecl
	case *annotation.CallSiteParamAnnotationKey:
		fn = kk.FuncDecl
	case *annotation.CallSiteRetAnnotationKey:
		fn = kk.FuncDecl
	}
	if fn != nil {
		return fmt.Sprintf("%T:%s|%s", k, k.String(), fn.FullName())
	}
	return fmt.Sprintf("%T:%s", k, k.String())
}

func renderTrigger(pkg string, fset *token.FileSet, absDir string, t annotation.FullTrigger) Trigger {
	out := Trigger{Pkg: pkg}
	if t.Producer != nil && t.Producer.Annotation != nil {
		out.ProdKind = fmt.Sprint(t.Producer.Annotation.Kind())
		out.ProdType = fmt.Sprintf("%T", t.Producer.Annotation)
		out.ProdSite = siteString(t.Producer.Annotation.UnderlyingSite())
	}
	if t.Consumer != nil && t.Consumer.Annotation != nil {
		out.ConsKind = fmt.Sprint(t.Consumer.Annotation.Kind())
		out.ConsType = fmt.Sprintf("%T", t.Consumer.Annotation)
		out.ConsSite = siteString(t.Consumer.Annotation.UnderlyingSite())
		posn := fset.Position(t.Consumer.Pos())
		f := posn.Filename
		if rel, err := filepath.Rel(absDir, f); err == nil && !strings.HasPrefix(rel, "..") {
			f = rel
		}
		out.File, out.Line, out.Col = f, posn.Line, posn.Column
	}
	if t.Controller != nil {
		out.Ctrl = siteString(t.Controller)
	}
	return out
}

func sitesIf(on bool, f analysis.Fact) []inference.VerifSiteInfo {
	if !on {
		return nil
	}
	return inference.VerifFactSites(f)
}
