// Package driver runs the real NilAway analyzer in-process (golang.org/x/tools/go/analysis/checker)
// over a module directory and returns diagnostics and exported facts in a canonical form.
package driver

import (
	"bytes"
	"crypto/sha256"
	"encoding/gob"
	"encoding/hex"
	"fmt"
	"os"
	"path/filepath"
	"sort"
	"strings"

	"go.uber.org/nilaway"
	"go.uber.org/nilaway/config"
	"go.uber.org/nilaway/inference"
	"golang.org/x/tools/go/analysis"
	"golang.org/x/tools/go/analysis/checker"
	"golang.org/x/tools/go/packages"
)

// Diag is one reported diagnostic.
type Diag struct {
	Pkg     string `json:"pkg"`  // package being analysed when it was reported
	File    string `json:"file"` // file name relative to the module dir when inside it
	Line    int    `json:"line"`
	Col     int    `json:"col"`
	Valid   bool   `json:"valid"`
	Message string `json:"message"`
}

// Fact is one exported package fact of any analyzer in NilAway's graph.
type Fact struct {
	Pkg      string                    `json:"pkg"`
	Analyzer string                    `json:"analyzer"`
	Type     string                    `json:"type"`
	Sha      string                    `json:"sha"` // sha256 of the gob encoding
	Size     int                       `json:"size"`
	Sites    []inference.VerifSiteInfo `json:"sites,omitempty"`
}

// Result of one run.
type Result struct {
	Diags  []Diag   `json:"diags"`
	Facts  []Fact   `json:"facts"`
	Errors []string `json:"errors"`
}

// Options for Run.
type Options struct {
	Dir         string            // module root (go.mod lives here)
	Patterns    []string          // package patterns, default ./...
	Flags       map[string]string // nilaway_config flags
	Sequential  bool
	SanityCheck bool
	Env         []string
	Tests       bool
	Sites       bool // include the site identities of InferredMap facts
}

// SetFlags sets (and resets to defaults first) the config analyzer flags.
func SetFlags(flags map[string]string) error {
	defaults := map[string]string{
		config.PrettyPrintFlag: "false", config.GroupErrorMessagesFlag: "true", config.IncludePkgsFlag: "",
		config.ExcludePkgsFlag: "", config.ExcludeFileDocStringsFlag: "", config.ExperimentalStructInitEnableFlag: "false",
		config.ExperimentalStructInitV2EnableFlag: "false", config.ExperimentalAnonymousFunctionFlag: "false",
		config.PrintFullFilePathFlag: "false", config.ExcludeTestFilesFlag: "false",
	}
	for k, v := range defaults {
		if err := config.Analyzer.Flags.Set(k, v); err != nil {
			return err
		}
	}
	for k, v := range flags {
		if err := config.Analyzer.Flags.Set(k, v); err != nil {
			return err
		}
	}
	return nil
}

// Run loads and analyses.
func Run(o Options) (*Result, error) {
	if err := SetFlags(o.Flags); err != nil {
		return nil, err
	}
	pats := o.Patterns
	if len(pats) == 0 {
		pats = []string{"./..."}
	}
	env := append(os.Environ(), "GOFLAGS=-mod=mod", "GOPROXY=off", "GOWORK=off")
	env = append(env, o.Env...)
	cfg := &packages.Config{Mode: packages.LoadAllSyntax, Dir: o.Dir, Env: env, Tests: o.Tests}
	pkgs, err := packages.Load(cfg, pats...)
	if err != nil {
		return nil, err
	}
	res := &Result{}
	for _, p := range pkgs {
		for _, e := range p.Errors {
			res.Errors = append(res.Errors, "load: "+e.Error())
		}
	}
	g, err := checker.Analyze([]*analysis.Analyzer{nilaway.Analyzer}, pkgs, &checker.Options{Sequential: o.Sequential, SanityCheck: o.SanityCheck})
	if err != nil {
		return nil, err
	}
	absDir, _ := filepath.Abs(o.Dir)
	for act := range g.All() {
		if act.Err != nil {
			res.Errors = append(res.Errors, fmt.Sprintf("%s@%s: %v", act.Analyzer.Name, act.Package.PkgPath, act.Err))
		}
		if act.Analyzer == nilaway.Analyzer {
			for _, d := range act.Diagnostics {
				posn := act.Package.Fset.Position(d.Pos)
				f := posn.Filename
				if rel, err := filepath.Rel(absDir, f); err == nil && !strings.HasPrefix(rel, "..") {
					f = rel
				}
				res.Diags = append(res.Diags, Diag{Pkg: act.Package.PkgPath, File: f, Line: posn.Line, Col: posn.Column, Valid: d.Pos.IsValid(), Message: d.Message})
			}
		}
		for _, pf := range act.AllPackageFacts() {
			if pf.Package != act.Package.Types {
				continue
			}
			var buf bytes.Buffer
			sha, size := "", 0
			if err := gob.NewEncoder(&buf).Encode(pf.Fact); err == nil {
				h := sha256.Sum256(buf.Bytes())
				sha, size = hex.EncodeToString(h[:]), buf.Len()
			} else {
				sha = "ENCODE-ERROR: " + err.Error()
			}
			res.Facts = append(res.Facts, Fact{Pkg: act.Package.PkgPath, Analyzer: act.Analyzer.Name, Type: fmt.Sprintf("%T", pf.Fact), Sha: sha, Size: size, Sites: sitesIf(o.Sites, pf.Fact)})
		}
	}
	// g.All() order is not specified: canonicalise by package, keeping per-package report order
	sort.SliceStable(res.Diags, func(i, j int) bool { return res.Diags[i].Pkg < res.Diags[j].Pkg })
	sort.SliceStable(res.Facts, func(i, j int) bool {
		a, b := res.Facts[i], res.Facts[j]
		if a.Pkg != b.Pkg {
			return a.Pkg < b.Pkg
		}
		if a.Analyzer != b.Analyzer {
			return a.Analyzer < b.Analyzer
		}
		return a.Type < b.Type
	})
	return res, nil
}

func sitesIf(on bool, f analysis.Fact) []inference.VerifSiteInfo {
	if !on {
		return nil
	}
	return inference.VerifFactSites(f)
}
