package main

import (
	"bufio"
	"fmt"
	"os"
	"strconv"
	"strings"

	"go.uber.org/nilaway/util/tokenhelper"
)

func init() { subcommands["relcwd"] = relcwdCmd }

// relcwd: for every input line `name TAB occ` prints `RelToCwd(name) TAB PortionAfterSep(name, "/", occ)`.
// RelToCwd uses the working directory captured at process start, so the caller starts one process per cwd.
func relcwdCmd(args []string) int {
	sc := bufio.NewScanner(os.Stdin)
	w := bufio.NewWriter(os.Stdout)
	defer w.Flush()
	for sc.Scan() {
		parts := strings.Split(sc.Text(), "\t")
		occ := 1
		if len(parts) > 1 {
			occ, _ = strconv.Atoi(parts[1])
		}
		fmt.Fprintf(w, "%s\t%s\n", tokenhelper.RelToCwd(parts[0]), tokenhelper.PortionAfterSep(parts[0], "/", occ))
	}
	return 0
}
