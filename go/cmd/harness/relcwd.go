package main

import (
	"bufio"
	"fmt"
	"os"
	"strconv"
	"strings"

	"go.uber.org/nilaway/util/tokenhelper"
)

func init() { subcommands["relcwd"] = relcwdCmd }

// relcwd: for every input line `name TAB occ` prints `RelToCwd(name) TAB PortionAfterSep(name, "/", occ) TAB AbsFromCwd(RelToCwd(name))`.
// RelToCwd uses the working directory captured at process start, so the caller starts one process per cwd.
func relcwdCmd(args []string) int {
	sc := bufio.NewScanner(os.Stdin)
	w := bufio.NewWriter(os.Stdout)
	defer w.Flush()
	for sc.Scan() {
		parts := strings.Split(sc.Text(), "\t")
		occ := 1
		if len(parts) > 1 {
			occ, _ = strconv.Atoi(parts[1])
		}
		// third field: the key diagnostics are ordered by, AbsFromCwd of the cwd-relative name (absolute names only)
		key := ""
		if strings.HasPrefix(parts[0], "/") {
			key = tokenhelper.AbsFromCwd(tokenhelper.RelToCwd(parts[0]))
		}
		fmt.Fprintf(w, "%s\t%s\t%s\n", tokenhelper.RelToCwd(parts[0]), tokenhelper.PortionAfterSep(parts[0], "/", occ), key)
	}
	return 0
}
