package main

import (
	"encoding/json"
	"flag"
	"fmt"
	"go/ast"
	"go/parser"
	"go/token"
	"math/rand"
	"os"
	"path/filepath"
	"sort"
	"strings"

	"go.uber.org/nilaway/assertion/function"
	"verif/internal/driver"
)

func init() { subcommands["sched"] = schedCmd }

// sched -dir D -pkg sub -orders K -seed S: analyses the single package D/sub of module D several times, forcing
// the order in which the concurrent per-function analyses hand over their results (identity, reverse, K random
// permutations, and unforced), and reports whether diagnostics and fact bytes are identical in all runs.
func schedCmd(args []string) int {
	fs := flag.NewFlagSet("sched", flag.ExitOnError)
	dir := fs.String("dir", ".", "module dir")
	pkg := fs.String("pkg", ".", "package directory inside the module (must not import other packages of the module)")
	k := fs.Int("orders", 4, "number of random orders")
	seed := fs.Int64("seed", 1, "seed")
	_ = fs.Parse(args)
	// number of analysed functions: FuncDecls with a body, files in name order
	fset := token.NewFileSet()
	pkgs, err := parser.ParseDir(fset, filepath.Join(*dir, *pkg), func(fi os.FileInfo) bool { return !strings.HasSuffix(fi.Name(), "_test.go") }, 0)
	if err != nil {
		fmt.Fprintln(os.Stderr, err)
		return 2
	}
	n := 0
	for _, p := range pkgs {
		var names []string
		for name := range p.Files {
			names = append(names, name)
		}
		sort.Strings(names)
		for _, name := range names {
			for _, d := range p.Files[name].Decls {
				if fd, ok := d.(*ast.FuncDecl); ok && fd.Body != nil {
					n++
				}
			}
		}
	}
	rng := rand.New(rand.NewSource(*seed))
	orders := [][]int{nil}
	id := make([]int, n)
	rev := make([]int, n)
	for i := range id {
		id[i], rev[i] = i, n-1-i
	}
	orders = append(orders, id, rev)
	for i := 0; i < *k; i++ {
		orders = append(orders, rng.Perm(n))
	}
	type runRes struct {
		Order []int  `json:"order"`
		Key   string `json:"key"`
	}
	var out struct {
		Functions int      `json:"functions"`
		Runs      []runRes `json:"runs"`
		Equal     bool     `json:"equal"`
		Diags     int      `json:"diags"`
		Errors    []string `json:"errors"`
	}
	out.Functions = n
	out.Equal = true
	for _, o := range orders {
		function.VerifSetSendOrder(o)
		res, err := driver.Run(driver.Options{Dir: *dir, Patterns: []string{"./" + *pkg}, Sequential: true})
		function.VerifSetSendOrder(nil)
		if err != nil {
			out.Errors = append(out.Errors, err.Error())
			continue
		}
		for i := range res.Facts {
			res.Facts[i].Sites = nil
		}
		b, _ := json.Marshal(res)
		out.Runs = append(out.Runs, runRes{Order: o, Key: string(b)})
		out.Diags = len(res.Diags)
		out.Errors = append(out.Errors, res.Errors...)
	}
	for i := 1; i < len(out.Runs); i++ {
		if out.Runs[i].Key != out.Runs[0].Key {
			out.Equal = false
		}
	}
	if out.Equal {
		for i := range out.Runs {
			if i > 0 {
				out.Runs[i].Key = "(same)"
			}
		}
	}
	b, _ := json.Marshal(out)
	fmt.Println(string(b))
	return 0
}
