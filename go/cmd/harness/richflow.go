package main

import (
	"bufio"
	"fmt"
	"os"
	"sort"
	"strconv"
	"strings"

	"go.uber.org/nilaway/assertion/function/assertiontree"
)

func init() { subcommands["richflow"] = richflowCmd }

// richflow: correspondence of the forward propagation of rich check effects (model M13, coq/model/RichFlow.v) with
// the real propagateRichChecks.  One case per line: n {nsuccs succs* live ngen gen* nkill kill*}^n ; prints the
// effects at the end of every block, sorted, blocks separated by " ; ".
func richflowCase(a []int) (out string) {
	pos := 0
	next := func() int { v := a[pos]; pos++; return v }
	lst := func() []int {
		k := next()
		r := make([]int, k)
		for i := range r {
			r[i] = next()
		}
		return r
	}
	n := next()
	succs, gen, kill := make([][]int, n), make([][]int, n), make([][]int, n)
	live := make([]bool, n)
	for b := 0; b < n; b++ {
		succs[b] = lst()
		live[b] = next() == 1
		gen[b] = lst()
		kill[b] = lst()
	}
	res, panicked := assertiontree.VerifPropagateRichChecks(succs, live, gen, kill)
	if panicked != "" {
		return "PANIC " + strings.ReplaceAll(panicked, "\n", " ")
	}
	var parts []string
	for _, es := range res {
		sort.Ints(es)
		var ss []string
		for _, e := range es {
			ss = append(ss, strconv.Itoa(e))
		}
		parts = append(parts, strings.Join(ss, ","))
	}
	return strings.Join(parts, " ; ")
}

func richflowCmd(args []string) int {
	sc := bufio.NewScanner(os.Stdin)
	sc.Buffer(make([]byte, 1<<20), 1<<26)
	w := bufio.NewWriter(os.Stdout)
	defer w.Flush()
	for sc.Scan() {
		line := strings.TrimSpace(sc.Text())
		if line == "" {
			continue
		}
		var a []int
		for _, f := range strings.Fields(line) {
			v, _ := strconv.Atoi(f)
			a = append(a, v)
		}
		fmt.Fprintln(w, richflowCase(a))
	}
	return 0
}
