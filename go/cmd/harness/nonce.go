package main

import (
	"bufio"
	"fmt"
	"os"
	"sort"
	"strconv"
	"strings"

	"go.uber.org/nilaway/guard"
)

func init() { subcommands["nonce"] = nonceCmd }

// nonce: correspondence of the guard-nonce set operations (model M11, coq/model/Nonce.v) with package guard.
// One case per line: nregs nops {op a b n xs...}* (see ocaml/modelrun.ml nonce_line); prints the query answers and
// every register, sorted.  Nonces come from the real NonceGenerator (the n-th nonce it hands out stands for n).
func nonceCase(a []int) (out string) {
	defer func() {
		if r := recover(); r != nil {
			out = "PANIC " + strings.ReplaceAll(fmt.Sprint(r), "\n", " ")
		}
	}()
	pos := 0
	next := func() int { v := a[pos]; pos++; return v }
	gen := guard.NewNonceGenerator()
	var nonces []guard.Nonce
	index := map[guard.Nonce]int{}
	nonce := func(i int) guard.Nonce {
		for len(nonces) <= i {
			n := gen.Next(nil)
			index[n] = len(nonces)
			nonces = append(nonces, n)
		}
		return nonces[i]
	}
	regs := make([]guard.NonceSet, next())
	for i := range regs {
		regs[i] = guard.NoGuards()
	}
	reg := func(i int) guard.NonceSet {
		if i < len(regs) {
			return regs[i]
		}
		return guard.NoGuards()
	}
	set := func(i int, s guard.NonceSet) {
		if i < len(regs) {
			regs[i] = s
		}
	}
	var answers strings.Builder
	ans := func(b bool) {
		if b {
			answers.WriteByte('1')
		} else {
			answers.WriteByte('0')
		}
	}
	for nops := next(); nops > 0; nops-- {
		op, x, y, n := next(), next(), next(), next()
		xs := make([]int, n)
		for i := range xs {
			xs[i] = next()
		}
		ns := func() []guard.Nonce {
			var r []guard.Nonce
			for _, v := range xs {
				r = append(r, nonce(v))
			}
			return r
		}
		others := func() []guard.NonceSet {
			var r []guard.NonceSet
			for _, v := range xs {
				r = append(r, reg(v))
			}
			return r
		}
		switch op {
		case 0:
			// Add / Remove update the receiver in place; a register never shares its map with another one
			// (Union, Intersection and Copy return fresh maps)
			set(x, reg(x).Add(ns()...))
		case 1:
			set(x, reg(x).Remove(ns()...))
		case 2:
			set(x, reg(y).Union(others()...))
		case 3:
			set(x, reg(y).Intersection(others()...))
		case 4:
			set(x, reg(y).Copy())
		case 5:
			ans(reg(x).Contains(nonce(y)))
		case 6:
			ans(reg(x).SubsetOf(reg(y)))
		case 7:
			ans(reg(x).Eq(reg(y)))
		default:
			ans(reg(x).IsEmpty())
		}
	}
	var rs []string
	for _, r := range regs {
		var is []int
		for n, in := range r {
			if in {
				is = append(is, index[n])
			}
		}
		sort.Ints(is)
		var ss []string
		for _, i := range is {
			ss = append(ss, strconv.Itoa(i))
		}
		rs = append(rs, strings.Join(ss, ","))
	}
	return answers.String() + " | " + strings.Join(rs, " ; ")
}

func nonceCmd(args []string) int {
	sc := bufio.NewScanner(os.Stdin)
	sc.Buffer(make([]byte, 1<<20), 1<<26)
	w := bufio.NewWriter(os.Stdout)
	defer w.Flush()
	for sc.Scan() {
		line := strings.TrimSpace(sc.Text())
		if line == "" {
			continue
		}
		var a []int
		for _, f := range strings.Fields(line) {
			v, _ := strconv.Atoi(f)
			a = append(a, v)
		}
		fmt.Fprintln(w, nonceCase(a))
	}
	return 0
}
