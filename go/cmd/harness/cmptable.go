package main

import (
	"fmt"
	"go/token"

	"go.uber.org/nilaway/util/tokenhelper"
)

// cmptable prints the real Converse / Inverse functions and Go's own evaluation of each operator on a
// small grid, one line per row, to validate the translator's tables and the model's `eval`.
func cmptableCmd(args []string) int {
	ops := []token.Token{token.EQL, token.NEQ, token.LSS, token.GTR, token.LEQ, token.GEQ}
	name := map[token.Token]string{token.EQL: "EQL", token.NEQ: "NEQ", token.LSS: "LSS", token.GTR: "GTR", token.LEQ: "LEQ", token.GEQ: "GEQ"}
	ev := func(o token.Token, a, b int) bool {
		switch o {
		case token.EQL:
			return a == b
		case token.NEQ:
			return a != b
		case token.LSS:
			return a < b
		case token.GTR:
			return a > b
		case token.LEQ:
			return a <= b
		default:
			return a >= b
		}
	}
	for _, o := range ops {
		fmt.Printf("conv %s %s\n", name[o], name[tokenhelper.Converse(o)])
		fmt.Printf("inv %s %s\n", name[o], name[tokenhelper.Inverse(o)])
		for a := -1; a <= 1; a++ {
			for b := -1; b <= 1; b++ {
				fmt.Printf("eval %s %d %d %v\n", name[o], a, b, ev(o, a, b))
			}
		}
	}
	return 0
}
