package main

import (
	"encoding/json"
	"flag"
	"fmt"
	"os"
	"strings"

	"verif/internal/driver"
)

func init() { subcommands["analyze"] = analyzeCmd; subcommands["cmptable"] = cmptableCmd }

// analyze -dir D [-flag k=v]... [-seq] [-sanity] : run real NilAway in-process, print JSON result
func analyzeCmd(args []string) int {
	fs := flag.NewFlagSet("analyze", flag.ExitOnError)
	dir := fs.String("dir", ".", "module dir")
	seq := fs.Bool("seq", false, "sequential")
	sanity := fs.Bool("sanity", false, "gob round trip of every fact")
	sites := fs.Bool("sites", false, "include site identities of InferredMap facts")
	fileOrder := fs.String("fileorder", "", "asc|desc: force the registration order of the module's files in the FileSet")
	trig := fs.Bool("triggers", false, "include the full triggers of the assertion analyzer and the function contracts")
	var kv multi
	fs.Var(&kv, "flag", "k=v nilaway_config flag")
	_ = fs.Parse(args)
	flags := map[string]string{}
	for _, s := range kv {
		k, v, _ := strings.Cut(s, "=")
		flags[k] = v
	}
	res, err := driver.Run(driver.Options{Dir: *dir, Patterns: fs.Args(), Flags: flags, Sequential: *seq, SanityCheck: *sanity, Sites: *sites, Triggers: *trig, FileOrder: *fileOrder})
	if err != nil {
		fmt.Fprintln(os.Stderr, err)
		return 2
	}
	b, _ := json.Marshal(res)
	fmt.Println(string(b))
	return 0
}

type multi []string

func (m *multi) String() string     { return strings.Join(*m, ",") }
func (m *multi) Set(s string) error { *m = append(*m, s); return nil }
