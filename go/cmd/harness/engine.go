package main

import (
	"bufio"
	"fmt"
	"os"
	"strconv"
	"strings"

	"go.uber.org/nilaway/inference"
)

func init() { subcommands["engine"] = engineCmd }

func strInts(l []int) string {
	s := make([]string, len(l))
	for i, v := range l {
		s[i] = strconv.Itoa(v)
	}
	return strings.Join(s, ",")
}

func strEdges(l []inference.VerifEdge) string {
	s := make([]string, len(l))
	for i, e := range l {
		s[i] = fmt.Sprintf("%d/%d", e.Site, e.Tid)
	}
	return strings.Join(s, ",")
}

func strMap(m []inference.VerifEntry) string {
	s := make([]string, len(m))
	for i, e := range m {
		if e.Det {
			b := 0
			if e.Val {
				b = 1
			}
			s[i] = fmt.Sprintf("%d=D%d(%s)", e.Site, b, strInts(e.Expl))
		} else {
			s[i] = fmt.Sprintf("%d=U(i:%s;o:%s)", e.Site, strEdges(e.Ins), strEdges(e.Outs))
		}
	}
	return strings.Join(s, ";")
}

func strResult(r inference.VerifResult) string {
	cs := make([]string, len(r.Conflicts))
	for i, c := range r.Conflicts {
		if c.Single {
			cs[i] = fmt.Sprintf("S%d", c.Tid)
		} else {
			cs[i] = fmt.Sprintf("O(%s|%s)", strInts(c.NilExpl), strInts(c.NonnilExpl))
		}
	}
	f := "-"
	if r.Panic != "" {
		if strings.Contains(r.Panic, "does not supersede") {
			f = "!"
		} else {
			return "{PANIC " + strings.ReplaceAll(r.Panic, "\n", " ") + "}"
		}
	} else if r.HasFact {
		f = "[" + strMap(r.Fact) + "]"
	}
	return fmt.Sprintf("{C[%s];M[%s];X[%s];F%s}", strings.Join(cs, ";"), strMap(r.Map), strInts(r.ToExport), f)
}

// engine [-gob]: reads scenarios (see ocaml/modelrun.ml for the format) from stdin, runs the REAL
// inference engine on each through inference.VerifRun, prints one canonical result line per scenario.
func engineCmd(args []string) int {
	useGob := len(args) > 0 && args[0] == "-gob"
	sc := bufio.NewScanner(os.Stdin)
	sc.Buffer(make([]byte, 1<<20), 1<<26)
	w := bufio.NewWriter(os.Stdout)
	defer w.Flush()
	for sc.Scan() {
		line := strings.TrimSpace(sc.Text())
		if line == "" {
			continue
		}
		var a []int
		for _, f := range strings.Fields(line) {
			v, err := strconv.Atoi(f)
			if err != nil {
				fmt.Fprintln(os.Stderr, "bad int", f)
				return 2
			}
			a = append(a, v)
		}
		pos := 0
		next := func() int { v := a[pos]; pos++; return v }
		ns := next()
		sites := make([]inference.VerifSite, ns)
		for i := range sites {
			sites[i] = inference.VerifSite{ID: next(), Exported: next() == 1, Param: next() == 1, Pkg: next()}
		}
		np := next()
		pkgs := make([]inference.VerifPkg, np)
		kind := func(k int) byte { return "ANC"[k] }
		for i := range pkgs {
			ni := next()
			for j := 0; j < ni; j++ {
				pkgs[i].Imports = append(pkgs[i].Imports, next())
			}
			na := next()
			for j := 0; j < na; j++ {
				pkgs[i].Annots = append(pkgs[i].Annots, inference.VerifAnnot{Site: next(), Val: next() == 1})
			}
			nt := next()
			for j := 0; j < nt; j++ {
				pkgs[i].Triggers = append(pkgs[i].Triggers, inference.VerifTrigger{ID: next(), PK: kind(next()), CK: kind(next()), P: next(), C: next(), Ctrl: next()})
			}
			pkgs[i].UseGob = useGob
		}
		res := inference.VerifRun(sites, pkgs)
		out := make([]string, len(res))
		for i, r := range res {
			out[i] = strResult(r)
		}
		fmt.Fprintln(w, strings.Join(out, " "))
	}
	return 0
}
