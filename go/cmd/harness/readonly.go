package main

import (
	"crypto/sha256"
	"encoding/hex"
	"encoding/json"
	"flag"
	"fmt"
	"go/ast"
	"go/token"
	"go/types"
	"hash"
	"os"
	"reflect"
	"sort"
	"strings"

	"go.uber.org/nilaway"
	"golang.org/x/tools/go/analysis"
	"golang.org/x/tools/go/analysis/checker"
	"golang.org/x/tools/go/analysis/passes/buildssa"
	"golang.org/x/tools/go/analysis/passes/ctrlflow"
	"golang.org/x/tools/go/analysis/passes/inspect"
	"golang.org/x/tools/go/cfg"
	"golang.org/x/tools/go/packages"
	"verif/internal/driver"
)

func init() { subcommands["readonly"] = readonlyCmd }

type snapshot struct {
	Files, Types, CFGs, SSA string
}

func hashAST(h hash.Hash, fset *token.FileSet, files []*ast.File) {
	for _, f := range files {
		ast.Inspect(f, func(n ast.Node) bool {
			if n == nil {
				return true
			}
			fmt.Fprintf(h, "%T@%p[%d,%d]", n, n, n.Pos(), n.End())
			v := reflect.ValueOf(n).Elem()
			for i := 0; i < v.NumField(); i++ {
				fl := v.Field(i)
				switch fl.Kind() {
				case reflect.String:
					fmt.Fprintf(h, "s:%s;", fl.String())
				case reflect.Int, reflect.Int32, reflect.Int64:
					fmt.Fprintf(h, "i:%d;", fl.Int())
				case reflect.Bool:
					fmt.Fprintf(h, "b:%v;", fl.Bool())
				case reflect.Slice:
					fmt.Fprintf(h, "l:%d@%x;", fl.Len(), fl.Pointer())
				case reflect.Ptr, reflect.Interface:
					if fl.IsNil() {
						fmt.Fprint(h, "nil;")
					} else if fl.Kind() == reflect.Ptr {
						fmt.Fprintf(h, "p:%x;", fl.Pointer())
					} else {
						fmt.Fprintf(h, "if:%T;", fl.Interface())
					}
				}
			}
			return true
		})
	}
}

func hashTypes(h hash.Hash, info *types.Info) {
	var rows []string
	for e, tv := range info.Types {
		rows = append(rows, fmt.Sprintf("T%p:%v:%v", e, tv.Type, tv.Value))
	}
	for id, o := range info.Defs {
		rows = append(rows, fmt.Sprintf("D%p:%p", id, o))
	}
	for id, o := range info.Uses {
		rows = append(rows, fmt.Sprintf("U%p:%p", id, o))
	}
	for n, o := range info.Implicits {
		rows = append(rows, fmt.Sprintf("I%p:%p", n, o))
	}
	for s, sel := range info.Selections {
		rows = append(rows, fmt.Sprintf("S%p:%v", s, sel))
	}
	for n, sc := range info.Scopes {
		rows = append(rows, fmt.Sprintf("C%p:%p:%d", n, sc, len(sc.Names())))
	}
	sort.Strings(rows)
	fmt.Fprint(h, strings.Join(rows, "\n"))
}

func hashCFG(h hash.Hash, g *cfg.CFG) {
	if g == nil {
		fmt.Fprint(h, "nilcfg;")
		return
	}
	fmt.Fprintf(h, "cfg:%d@%p;", len(g.Blocks), g)
	for _, b := range g.Blocks {
		fmt.Fprintf(h, "B%p:%d:%v:%d:%p[", b, b.Index, b.Live, b.Kind, b.Stmt)
		if len(b.Nodes) > 0 {
			fmt.Fprintf(h, "nodes@%p cap%d;", &b.Nodes[0], cap(b.Nodes))
		}
		for _, n := range b.Nodes {
			fmt.Fprintf(h, "%T@%p,", n, n)
		}
		fmt.Fprint(h, "](")
		if len(b.Succs) > 0 {
			fmt.Fprintf(h, "succs@%p cap%d;", &b.Succs[0], cap(b.Succs))
		}
		for _, s := range b.Succs {
			fmt.Fprintf(h, "%p,", s)
		}
		fmt.Fprint(h, ")")
	}
}

func sum(h hash.Hash) string { return hex.EncodeToString(h.Sum(nil))[:16] }

func takeSnapshot(pass *analysis.Pass) snapshot {
	var s snapshot
	h := sha256.New()
	hashAST(h, pass.Fset, pass.Files)
	s.Files = sum(h)
	h = sha256.New()
	hashTypes(h, pass.TypesInfo)
	s.Types = sum(h)
	h = sha256.New()
	cfgs := pass.ResultOf[ctrlflow.Analyzer].(*ctrlflow.CFGs)
	for _, f := range pass.Files {
		ast.Inspect(f, func(n ast.Node) bool {
			switch n := n.(type) {
			case *ast.FuncDecl:
				hashCFG(h, cfgs.FuncDecl(n))
			case *ast.FuncLit:
				hashCFG(h, cfgs.FuncLit(n))
			}
			return true
		})
	}
	s.CFGs = sum(h)
	h = sha256.New()
	ssaRes := pass.ResultOf[buildssa.Analyzer].(*buildssa.SSA)
	for _, fn := range ssaRes.SrcFuncs {
		fmt.Fprintf(h, "F%p:%s:%d;", fn, fn.Name(), len(fn.Blocks))
		for _, b := range fn.Blocks {
			fmt.Fprintf(h, "b%d:%d:%d:%d;", b.Index, len(b.Instrs), len(b.Preds), len(b.Succs))
			for _, in := range b.Instrs {
				fmt.Fprintf(h, "%T@%p:%s;", in, in, in.String())
			}
		}
	}
	s.SSA = sum(h)
	return s
}

// readonly -dir D [-flag k=v]...: runs, per package, a snapshot analyzer BEFORE NilAway and one AFTER it (the
// sequential driver executes an action's requirements in order) over the syntax trees, type information, ctrlflow
// CFGs (including slice headers of Block.Nodes / Block.Succs) and SSA that NilAway shares with them, and reports
// every package whose snapshots differ.
func readonlyCmd(args []string) int {
	fs := flag.NewFlagSet("readonly", flag.ExitOnError)
	dir := fs.String("dir", ".", "module dir")
	var kv multi
	fs.Var(&kv, "flag", "k=v nilaway_config flag")
	_ = fs.Parse(args)
	flags := map[string]string{}
	for _, s := range kv {
		k, v, _ := strings.Cut(s, "=")
		flags[k] = v
	}
	if err := driver.SetFlags(flags); err != nil {
		fmt.Fprintln(os.Stderr, err)
		return 2
	}
	before := &analysis.Analyzer{
		Name: "verif_before", Doc: "snapshot before nilaway",
		Requires:   []*analysis.Analyzer{inspect.Analyzer, ctrlflow.Analyzer, buildssa.Analyzer},
		ResultType: reflect.TypeOf(snapshot{}),
		Run:        func(pass *analysis.Pass) (any, error) { return takeSnapshot(pass), nil },
	}
	type verdict struct {
		Pkg           string
		Before, After snapshot
	}
	var verdicts []verdict
	after := &analysis.Analyzer{
		Name: "verif_after", Doc: "snapshot after nilaway",
		// order matters: with the sequential driver the requirements are executed left to right
		Requires: []*analysis.Analyzer{inspect.Analyzer, ctrlflow.Analyzer, buildssa.Analyzer, before, nilaway.Analyzer},
		Run: func(pass *analysis.Pass) (any, error) {
			verdicts = append(verdicts, verdict{Pkg: pass.Pkg.Path(), Before: pass.ResultOf[before].(snapshot), After: takeSnapshot(pass)})
			return nil, nil
		},
	}
	env := append(os.Environ(), "GOFLAGS=-mod=mod", "GOPROXY=off", "GOWORK=off")
	pkgs, err := packages.Load(&packages.Config{Mode: packages.LoadAllSyntax, Dir: *dir, Env: env}, append([]string{}, fs.Args()...)...)
	if err != nil {
		fmt.Fprintln(os.Stderr, err)
		return 2
	}
	if _, err := checker.Analyze([]*analysis.Analyzer{after}, pkgs, &checker.Options{Sequential: true}); err != nil {
		fmt.Fprintln(os.Stderr, err)
		return 2
	}
	type row struct {
		Pkg     string   `json:"pkg"`
		Changed []string `json:"changed"`
	}
	var out []row
	for _, v := range verdicts {
		r := row{Pkg: v.Pkg}
		if v.Before.Files != v.After.Files {
			r.Changed = append(r.Changed, "syntax trees")
		}
		if v.Before.Types != v.After.Types {
			r.Changed = append(r.Changed, "type information")
		}
		if v.Before.CFGs != v.After.CFGs {
			r.Changed = append(r.Changed, "control-flow graphs")
		}
		if v.Before.SSA != v.After.SSA {
			r.Changed = append(r.Changed, "SSA")
		}
		out = append(out, r)
	}
	sort.Slice(out, func(i, j int) bool { return out[i].Pkg < out[j].Pkg })
	b, _ := json.Marshal(out)
	fmt.Println(string(b))
	return 0
}
