package main

import (
	"bufio"
	"fmt"
	"os"
	"strconv"
	"strings"

	"go.uber.org/nilaway/diagnostic"
)

func init() { subcommands["nolinttext"] = nolintTextCmd }

// nolinttext: one comment text per line as space-separated byte values after a marker number (so that the empty text
// is not an empty line); prints 1 if the real nolintContainsNilAway takes it for a directive that suppresses NilAway.
func nolintTextCmd(args []string) int {
	sc := bufio.NewScanner(os.Stdin)
	sc.Buffer(make([]byte, 1<<20), 1<<26)
	w := bufio.NewWriter(os.Stdout)
	defer w.Flush()
	for sc.Scan() {
		fs := strings.Fields(sc.Text())
		if len(fs) == 0 {
			continue
		}
		b := make([]byte, 0, len(fs))
		for _, f := range fs[1:] {
			v, _ := strconv.Atoi(f)
			b = append(b, byte(v))
		}
		if diagnostic.VerifNolintContains(string(b)) {
			fmt.Fprintln(w, "1")
		} else {
			fmt.Fprintln(w, "0")
		}
	}
	return 0
}
