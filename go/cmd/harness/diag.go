package main

import (
	"bufio"
	"fmt"
	"go/token"
	"os"
	"regexp"
	"strconv"
	"strings"

	"go.uber.org/nilaway/diagnostic"
)

func init() { subcommands["diag"] = diagCmd }

// File ids 1..4 get look-alike names: each is a path suffix of the next (util.go, v/util.go, w/v/util.go,
// x/w/v/util.go), so that anything comparing file names by base name, suffix or prefix instead of equality shows; the
// directory names keep the lexicographic order of the names equal to the order of the ids (the model sorts by id).
var lookAlikeDirs = []string{"", "v/", "w/v/", "x/w/v/"}

func fileName(id int, test bool) string {
	base := "util.go"
	if test {
		base = "util_test.go"
	}
	if id >= 1 && id <= len(lookAlikeDirs) {
		return lookAlikeDirs[id-1] + base
	}
	if test {
		return fmt.Sprintf("f%03d_test.go", id)
	}
	return fmt.Sprintf("f%03d.go", id)
}

var fileRe = regexp.MustCompile(`(x/w/v/|w/v/|v/|)util(?:_test)?\.go|f(\d+)(?:_test)?\.go`)
var flowRe = regexp.MustCompile(`^\t- ((?:(?:x/w/v/|w/v/|v/|)util|f\d+)(?:_test)?\.go:\d+:\d+): `)
var placesRe = regexp.MustCompile(`at (\d+) other place\(s\): (.*)\.\)`)
var quotedRe = regexp.MustCompile(`"([^"]*)"`)

func canonPlace(s string) string {
	if s == "-" {
		return "-"
	}
	m := fileRe.FindStringSubmatch(s)
	if m == nil {
		return "?" + s
	}
	id := 0
	if m[2] != "" {
		id, _ = strconv.Atoi(m[2])
	} else {
		for i, d := range lookAlikeDirs {
			if d == m[1] {
				id = i + 1
			}
		}
	}
	rest := s[strings.Index(s, m[0])+len(m[0]):]
	return strconv.Itoa(id) + rest
}

// diag: reads cases (integers, see ocaml/modelrun.ml `diag_line`) from stdin, runs the REAL diagnostic engine
// through diagnostic.VerifDiagnostics, prints one canonical line per case.
func diagCmd(args []string) int {
	sc := bufio.NewScanner(os.Stdin)
	sc.Buffer(make([]byte, 1<<20), 1<<26)
	w := bufio.NewWriter(os.Stdout)
	defer w.Flush()
	for sc.Scan() {
		line := strings.TrimSpace(sc.Text())
		if line == "" {
			continue
		}
		var a []int
		for _, f := range strings.Fields(line) {
			v, _ := strconv.Atoi(f)
			a = append(a, v)
		}
		pos := 0
		next := func() int { v := a[pos]; pos++; return v }
		grouping, excl := next() == 1, next() == 1
		testFiles := map[int]bool{}
		nt := next()
		for i := 0; i < nt; i++ {
			testFiles[next()] = true
		}
		var ranges []diagnostic.Range
		nr := next()
		for i := 0; i < nr; i++ {
			f, from, to := next(), next(), next()
			ranges = append(ranges, diagnostic.Range{Filename: fileName(f, testFiles[f]), From: from, To: to})
		}
		readPos := func() token.Position {
			valid, f, l, c := next(), next(), next(), next()
			if valid == 0 {
				return token.Position{}
			}
			return token.Position{Filename: fileName(f, testFiles[f]), Line: l, Column: c, Offset: l*100 + c}
		}
		readNodes := func(id int, last bool) []diagnostic.VerifNode {
			n := next()
			out := make([]diagnostic.VerifNode, n)
			for i := range out {
				out[i].PPos = readPos()
				out[i].CPos = readPos()
				out[i].PRepr = fmt.Sprintf("p%d", next())
				out[i].CRepr = fmt.Sprintf("c%d", next())
				out[i].Site = readPos()
			}
			return out
		}
		nc := next()
		idByPos := map[string]int{}
		idsOnLine := map[string][]int{}
		cs := make([]diagnostic.VerifConflict, nc)
		for i := range cs {
			id := next()
			f, l, c, off := next(), next(), next(), next()
			cs[i].Pos = token.Position{Filename: fileName(f, testFiles[f]), Line: l, Column: c, Offset: off}
			idByPos[fmt.Sprintf("%d:%d:%d", f, l, c)] = id
			idsOnLine[fmt.Sprintf("%d:%d", f, l)] = append(idsOnLine[fmt.Sprintf("%d:%d", f, l)], id)
			cs[i].Nil = readNodes(id, false)
			cs[i].Nonnil = readNodes(id, true)
			cs[i].Src = readPos()
		}
		ds, panicked := diagnostic.VerifDiagnostics(cs, ranges, grouping, excl)
		if panicked != "" {
			fmt.Fprintf(w, "PANIC %s\n", strings.ReplaceAll(panicked, "\n", " "))
			continue
		}
		var parts []string
		for _, d := range ds {
			// the last flow step of the message (the dereference point), independent of the reported position
			flow := "-"
			body := d.Message
			if i := strings.Index(body, "\n\n(Same nil source"); i >= 0 {
				body = body[:i]
			}
			for _, ln := range strings.Split(body, "\n") {
				if strings.HasPrefix(ln, "\t- ") {
					flow = "-"
					if m := flowRe.FindStringSubmatch(ln); m != nil {
						flow = canonPlace(m[1])
					}
				}
			}
			// which conflict the diagnostic is: the one on its line; when a line has several (the generator gives each of
			// them a dereference point of its own), the one whose dereference point is the last flow step
			id := -1
			if ids := idsOnLine[fmt.Sprintf("%s:%d", canonPlace(d.Pos.Filename), d.Pos.Line)]; len(ids) == 1 {
				id = ids[0]
			} else if v, ok := idByPos[flow]; ok && len(ids) > 1 {
				id = v
			}
			n, places := 0, []string{}
			if m := placesRe.FindStringSubmatch(d.Message); m != nil {
				n, _ = strconv.Atoi(m[1])
				for _, q := range quotedRe.FindAllStringSubmatch(m[2], -1) {
					places = append(places, canonPlace(q[1]))
				}
			}
			parts = append(parts, fmt.Sprintf("D id=%d pos=%s:%d valid=%v n=%d places=%s flow=%s", id, canonPlace(d.Pos.Filename), d.Pos.Line, d.Valid, n, strings.Join(places, "|"), flow))
		}
		fmt.Fprintln(w, strings.Join(parts, " ; "))
	}
	return 0
}
