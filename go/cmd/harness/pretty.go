package main

import (
	"bufio"
	"encoding/json"
	"fmt"
	"os"

	"go.uber.org/nilaway"
)

func init() { subcommands["pretty"] = prettyCmd }

// pretty: reads one JSON string per line, prints nilaway.PrettyPrintErrorMessage of it as a JSON string.
func prettyCmd(args []string) int {
	sc := bufio.NewScanner(os.Stdin)
	sc.Buffer(make([]byte, 1<<20), 1<<26)
	w := bufio.NewWriter(os.Stdout)
	defer w.Flush()
	for sc.Scan() {
		var s string
		if err := json.Unmarshal(sc.Bytes(), &s); err != nil {
			fmt.Fprintln(os.Stderr, err)
			return 2
		}
		b, _ := json.Marshal(nilaway.PrettyPrintErrorMessage(s))
		fmt.Fprintln(w, string(b))
	}
	return 0
}
