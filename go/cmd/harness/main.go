// Command harness hosts the correspondence suites of the verification framework. It is built with
// `-tags verif` against /repo's current working tree (replace directive in go.mod).
package main

import (
	"fmt"
	"os"
)

var subcommands = map[string]func(args []string) int{}

func main() {
	if len(os.Args) < 2 {
		fmt.Fprintln(os.Stderr, "usage: harness <subcommand> [args]")
		os.Exit(2)
	}
	f, ok := subcommands[os.Args[1]]
	if !ok {
		fmt.Fprintf(os.Stderr, "unknown subcommand %q\n", os.Args[1])
		os.Exit(2)
	}
	os.Exit(f(os.Args[2:]))
}
