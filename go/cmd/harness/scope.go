package main

import (
	"bufio"
	"fmt"
	"go/types"
	"os"
	"strings"

	"go.uber.org/nilaway/config"
	"golang.org/x/tools/go/analysis"
)

func init() { subcommands["scope"] = scopeCmd }

// scope: reads `include-flag TAB exclude-flag TAB package path` lines, sets the REAL flags of the config analyzer,
// runs its Run to build the Config and prints Config.IsPkgInScope for a package with that path.
func scopeCmd(args []string) int {
	sc := bufio.NewScanner(os.Stdin)
	sc.Buffer(make([]byte, 1<<20), 1<<26)
	w := bufio.NewWriter(os.Stdout)
	defer w.Flush()
	for sc.Scan() {
		parts := strings.Split(sc.Text(), "\t")
		if len(parts) != 3 {
			fmt.Fprintln(w, "?")
			continue
		}
		if err := config.Analyzer.Flags.Set(config.IncludePkgsFlag, parts[0]); err != nil {
			fmt.Fprintln(w, "E")
			continue
		}
		if err := config.Analyzer.Flags.Set(config.ExcludePkgsFlag, parts[1]); err != nil {
			fmt.Fprintln(w, "E")
			continue
		}
		res, err := config.Analyzer.Run(&analysis.Pass{Analyzer: config.Analyzer})
		if err != nil {
			fmt.Fprintln(w, "E")
			continue
		}
		if res.(*config.Config).IsPkgInScope(types.NewPackage(parts[2], "p")) {
			fmt.Fprintln(w, "1")
		} else {
			fmt.Fprintln(w, "0")
		}
	}
	return 0
}
