package main

import (
	"encoding/json"
	"flag"
	"fmt"
	"os"
	"reflect"
	"sort"

	"go.uber.org/nilaway/assertion/function/functioncontracts"
	"go.uber.org/nilaway/util/analysishelper"
	"golang.org/x/tools/go/analysis"
	"golang.org/x/tools/go/analysis/checker"
	"golang.org/x/tools/go/analysis/passes/buildssa"
	"golang.org/x/tools/go/packages"
)

func init() { subcommands["infer"] = inferCmd }

// infer -dir D [patterns]: for every function on which NilAway's contract inference runs (hook
// functioncontracts.VerifInferAll), print one JSON object per line: the abstract SSA form and what the REAL
// inferContracts decided.  Input of the contract-inference correspondence (model coq/model/Infer.v).
var inferAnalyzer = &analysis.Analyzer{
	Name:       "verif_infer_dump",
	Doc:        "dump contract inference candidates",
	Requires:   []*analysis.Analyzer{buildssa.Analyzer},
	ResultType: reflect.TypeOf(([]functioncontracts.VerifFunc)(nil)),
	Run: func(p *analysis.Pass) (any, error) {
		return functioncontracts.VerifInferAll(analysishelper.NewEnhancedPass(p)), nil
	},
}

func inferCmd(args []string) int {
	fs := flag.NewFlagSet("infer", flag.ExitOnError)
	dir := fs.String("dir", ".", "module dir")
	_ = fs.Parse(args)
	pats := fs.Args()
	if len(pats) == 0 {
		pats = []string{"./..."}
	}
	env := append(os.Environ(), "GOFLAGS=-mod=mod", "GOPROXY=off", "GOWORK=off")
	cfg := &packages.Config{Mode: packages.LoadAllSyntax, Dir: *dir, Env: env}
	pkgs, err := packages.Load(cfg, pats...)
	if err != nil {
		fmt.Fprintln(os.Stderr, err)
		return 2
	}
	// only the packages matched by the patterns (roots), not their dependencies
	g, err := checker.Analyze([]*analysis.Analyzer{inferAnalyzer}, pkgs, nil)
	if err != nil {
		fmt.Fprintln(os.Stderr, err)
		return 2
	}
	var all []functioncontracts.VerifFunc
	for _, act := range g.Roots {
		if act.Err != nil {
			fmt.Fprintln(os.Stderr, act.Package.PkgPath, act.Err)
			continue
		}
		if r, ok := act.Result.([]functioncontracts.VerifFunc); ok {
			all = append(all, r...)
		}
	}
	sort.SliceStable(all, func(i, j int) bool {
		if all[i].Pkg != all[j].Pkg {
			return all[i].Pkg < all[j].Pkg
		}
		return all[i].Name < all[j].Name
	})
	enc := json.NewEncoder(os.Stdout)
	for _, f := range all {
		_ = enc.Encode(f)
	}
	return 0
}
