package main

import (
	"flag"
	"fmt"
	"go/ast"
	"go/parser"
	"go/token"
	"os"
	"path/filepath"
	"sort"
	"strings"
)

func init() { subcommands["parens"] = parensCmd }

// parens: the meaning-preserving texture "redundant parentheses".  Rewrites every non-test .go file under -dir IN PLACE by
// inserting `(` `)` around expressions in the positions where Go allows any expression and generated or defensive code
// tends to parenthesise: case expressions of expression switches, conditions of if / for, switch tags, results of return
// statements, right-hand sides of assignments and declarations, call arguments, operands of && and ||, operands of
// comparisons and of unary ! * <- , the target of a plain `=` assignment.  Only bytes are inserted, on the lines the
// expressions are on: no line of the file moves, so line-based markers stay attached.
func parensCmd(args []string) int {
	fs := flag.NewFlagSet("parens", flag.ContinueOnError)
	dir := fs.String("dir", "", "module directory (rewritten in place)")
	if err := fs.Parse(args); err != nil {
		return 2
	}
	n := 0
	err := filepath.Walk(*dir, func(path string, info os.FileInfo, err error) error {
		if err != nil || info.IsDir() || !strings.HasSuffix(path, ".go") || strings.HasSuffix(path, "_test.go") {
			return err
		}
		k, err := parenthesizeFile(path)
		n += k
		return err
	})
	fmt.Printf("parenthesised %d expressions\n", n)
	if err != nil {
		fmt.Fprintln(os.Stderr, err)
		return 1
	}
	return 0
}

func parenthesizeFile(path string) (int, error) {
	srcBytes, err := os.ReadFile(path)
	if err != nil {
		return 0, err
	}
	fset := token.NewFileSet()
	f, err := parser.ParseFile(fset, path, srcBytes, parser.SkipObjectResolution)
	if err != nil {
		return 0, err
	}
	type ins struct {
		off  int
		text string
		ord  int
	}
	var inserts []ins
	seen := map[ast.Expr]bool{}
	wrap := func(e ast.Expr) {
		if e == nil || seen[e] {
			return
		}
		switch e.(type) {
		case *ast.ParenExpr, *ast.BasicLit, *ast.CompositeLit, *ast.FuncLit, *ast.KeyValueExpr, *ast.Ellipsis:
			// (a composite literal in an `if` header must already be parenthesised; a literal gains nothing)
			return
		case *ast.TypeAssertExpr:
			if e.(*ast.TypeAssertExpr).Type == nil {
				return // x.(type)
			}
		case *ast.ArrayType, *ast.MapType, *ast.ChanType, *ast.FuncType, *ast.StructType, *ast.InterfaceType:
			return
		}
		seen[e] = true
		inserts = append(inserts, ins{fset.Position(e.Pos()).Offset, "(", len(inserts)}, ins{fset.Position(e.End()).Offset, ")", len(inserts) + 1})
	}
	var typeSwitchBodies = map[*ast.BlockStmt]bool{}
	ast.Inspect(f, func(n ast.Node) bool {
		switch n := n.(type) {
		case *ast.TypeSwitchStmt:
			typeSwitchBodies[n.Body] = true
		}
		return true
	})
	var inTypeSwitch []bool
	var visit func(n ast.Node) bool
	_ = inTypeSwitch
	visit = func(n ast.Node) bool {
		switch n := n.(type) {
		case *ast.TypeSwitchStmt:
			// the clauses list types: descend into the bodies only
			for _, st := range n.Body.List {
				if cc, ok := st.(*ast.CaseClause); ok {
					for _, b := range cc.Body {
						ast.Inspect(b, visit)
					}
				}
			}
			return false
		case *ast.SwitchStmt:
			wrap(n.Tag)
		case *ast.CaseClause:
			for _, e := range n.List {
				wrap(e)
			}
		case *ast.IfStmt:
			wrap(n.Cond)
		case *ast.ForStmt:
			wrap(n.Cond)
		case *ast.ReturnStmt:
			for _, e := range n.Results {
				wrap(e)
			}
		case *ast.AssignStmt:
			for _, e := range n.Rhs {
				wrap(e)
			}
			if n.Tok == token.ASSIGN {
				for _, e := range n.Lhs {
					if id, ok := e.(*ast.Ident); ok && id.Name == "_" {
						continue
					}
					wrap(e)
				}
			}
		case *ast.ValueSpec:
			for _, e := range n.Values {
				wrap(e)
			}
		case *ast.CallExpr:
			if id, ok := n.Fun.(*ast.Ident); ok && (id.Name == "make" || id.Name == "new") {
				return true // the first argument is a type
			}
			if n.Ellipsis.IsValid() {
				return true
			}
			for _, e := range n.Args {
				wrap(e)
			}
		case *ast.BinaryExpr:
			switch n.Op {
			case token.LAND, token.LOR, token.EQL, token.NEQ, token.LSS, token.GTR, token.LEQ, token.GEQ:
				wrap(n.X)
				wrap(n.Y)
			}
		case *ast.UnaryExpr:
			if n.Op == token.NOT || n.Op == token.ARROW {
				wrap(n.X)
			}
		case *ast.StarExpr:
			wrap(n.X)
		case *ast.FuncDecl:
			// never inside signatures: `*T` in a parameter list is a type
			if n.Body != nil {
				ast.Inspect(n.Body, visit)
			}
			return false
		case *ast.FuncLit:
			ast.Inspect(n.Body, visit)
			return false
		case *ast.GenDecl:
			if n.Tok != token.VAR {
				return false
			}
			for _, sp := range n.Specs {
				if vs, ok := sp.(*ast.ValueSpec); ok {
					for _, e := range vs.Values {
						wrap(e)
						ast.Inspect(e, visit)
					}
				}
			}
			return false
		case *ast.CompositeLit:
			// element values only (a key may be a field name; the type is a type)
			for _, el := range n.Elts {
				v := el
				if kv, ok := el.(*ast.KeyValueExpr); ok {
					v = kv.Value
				}
				ast.Inspect(v, visit)
			}
			return false
		case *ast.TypeAssertExpr:
			ast.Inspect(n.X, visit)
			return false
		case *ast.DeclStmt:
			if gd, ok := n.Decl.(*ast.GenDecl); ok && gd.Tok != token.VAR {
				return false
			}
		}
		return true
	}
	for _, d := range f.Decls {
		ast.Inspect(d, visit)
	}
	// `*T` in conversions / composite literal types / var declarations with a type are types: drop every wrap whose
	// expression is (syntactically) used as a type -- found by a second pass over type positions
	typeExprs := map[ast.Expr]bool{}
	markType := func(e ast.Expr) {
		ast.Inspect(e, func(n ast.Node) bool {
			if x, ok := n.(ast.Expr); ok {
				typeExprs[x] = true
			}
			return true
		})
	}
	ast.Inspect(f, func(n ast.Node) bool {
		switch n := n.(type) {
		case *ast.ValueSpec:
			if n.Type != nil {
				markType(n.Type)
			}
		case *ast.CompositeLit:
			if n.Type != nil {
				markType(n.Type)
			}
		case *ast.TypeAssertExpr:
			if n.Type != nil {
				markType(n.Type)
			}
		case *ast.CallExpr:
			// conversion to a pointer / parenthesised type: (*T)(x)
			if p, ok := n.Fun.(*ast.ParenExpr); ok {
				markType(p.X)
			}
			switch n.Fun.(type) {
			case *ast.ArrayType, *ast.MapType, *ast.ChanType, *ast.FuncType, *ast.InterfaceType:
				markType(n.Fun)
			}
		case *ast.Field:
			markType(n.Type)
		case *ast.TypeSpec:
			markType(n.Type)
		case *ast.FuncType:
			markType(n)
		case *ast.IndexExpr:
			// possibly an instantiation F[T]: leave the index alone
			markType(n.Index)
		case *ast.IndexListExpr:
			for _, ix := range n.Indices {
				markType(ix)
			}
		}
		return true
	})
	var kept []ins
	byExpr := map[int]ast.Expr{}
	i := 0
	for e := range seen {
		_ = e
		i++
	}
	// rebuild the insert list from `seen` minus type expressions (order by offset; opening before closing at equal offsets
	// is handled by the stable sort on (offset, closing first))
	inserts = inserts[:0]
	_ = byExpr
	count := 0
	for e := range seen {
		if typeExprs[e] {
			continue
		}
		count++
		inserts = append(inserts, ins{fset.Position(e.Pos()).Offset, "(", 1}, ins{fset.Position(e.End()).Offset, ")", 0})
	}
	kept = inserts
	// at one offset all closing parentheses come before all opening ones
	sort.SliceStable(kept, func(a, b int) bool {
		if kept[a].off != kept[b].off {
			return kept[a].off < kept[b].off
		}
		return kept[a].ord < kept[b].ord
	})
	var out strings.Builder
	last := 0
	for _, in := range kept {
		out.Write(srcBytes[last:in.off])
		out.WriteString(in.text)
		last = in.off
	}
	out.Write(srcBytes[last:])
	return count, os.WriteFile(path, []byte(out.String()), 0o644)
}
