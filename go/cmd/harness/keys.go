package main

import (
	"bufio"
	"fmt"
	"go/token"
	"go/types"
	"os"
	"strconv"
	"strings"

	"go.uber.org/nilaway/annotation"
	"go.uber.org/nilaway/inference"
	"golang.org/x/tools/go/analysis"
	"golang.org/x/tools/go/types/objectpath"
)

func init() { subcommands["keys"] = keysCmd }

// keys: site-identity correspondence (model M3, coq/model/Keys.v).  Reads one case per line (integers, see
// checks/keys_suite.py), builds synthetic go/types universes -- one per analysing view, because a view's belief about
// the source position of a foreign object lives in the object --, real annotation keys of all twelve kinds over them,
// and prints what the REAL Key.String() and the REAL primitivizer.site return, plus (first line item) the object paths
// golang.org/x/tools' objectpath.For gives the objects (the ground truth the model is given as o_path).

const (
	kFunc = iota
	kMethod
	kField
	kGVar
	kLVar
	kTypeName
)

type kType struct{ pkg, name, exp, iface int }
type kObj struct{ kind, pkg, name, exp, owner, nparams, named, nresults, recvnamed, dispatch int }
type kKey struct{ kind, obj, num, fld, lf, ll, lc, track int }

const lineWidth = 50
const fileLines = 1000

func objName(o kObj) string {
	switch o.kind {
	case kFunc, kMethod:
		if o.exp == 1 {
			return fmt.Sprintf("F%d", o.name)
		}
		return fmt.Sprintf("f%d", o.name)
	default:
		if o.exp == 1 {
			return fmt.Sprintf("V%d", o.name)
		}
		return fmt.Sprintf("v%d", o.name)
	}
}

func typeName(t kType) string {
	if t.exp == 1 {
		return fmt.Sprintf("T%d", t.name)
	}
	return fmt.Sprintf("t%d", t.name)
}

// believed position (line, col) of object i (types get index NO+t) in a view analysing package a with perturbation pert
func believed(line, pkg, a, pert int) (int, int) {
	col := 5
	if pkg != a {
		switch pert {
		case 1:
			col = 1
		case 2:
			line += 300
		}
	}
	return line, col
}

type universe struct {
	fset  *token.FileSet
	pkgs  []*types.Package
	objs  []types.Object
	flds  []*types.Var
	named []*types.Named
}

func buildUniverse(np int, ts []kType, os_ []kObj, a, pert int) *universe {
	u := &universe{fset: token.NewFileSet()}
	files := make([]*token.File, np)
	for i := 0; i < np; i++ {
		// all packages share one NAME; only import paths differ
		u.pkgs = append(u.pkgs, types.NewPackage(fmt.Sprintf("ex.com/kp%d/util", i), "util"))
		f := u.fset.AddFile(fmt.Sprintf("kp%d/s.go", i), -1, fileLines*lineWidth)
		lines := make([]int, fileLines)
		for j := range lines {
			lines[j] = j * lineWidth
		}
		f.SetLines(lines)
		files[i] = f
	}
	at := func(pkg, line int) token.Pos {
		l, c := believed(line, pkg, a, pert)
		return files[pkg].LineStart(l) + token.Pos(c-1)
	}
	ptrInt := types.NewPointer(types.Typ[types.Int])
	// named struct types with their fields
	u.objs = make([]types.Object, len(os_))
	u.flds = make([]*types.Var, len(os_))
	for ti, t := range ts {
		tn := types.NewTypeName(at(t.pkg, 200+ti), u.pkgs[t.pkg], typeName(t), nil)
		var fields []*types.Var
		for oi, o := range os_ {
			if o.kind == kField && o.owner == ti {
				v := types.NewField(at(t.pkg, 2+oi), u.pkgs[t.pkg], objName(o), ptrInt, false)
				fields = append(fields, v)
				u.objs[oi], u.flds[oi] = v, v
			}
		}
		var nt *types.Named
		if t.iface == 1 {
			// an interface type: its methods are the method objects it owns (the generator gives it no fields)
			nt = types.NewNamed(tn, nil, nil)
			var methods []*types.Func
			for oi, o := range os_ {
				if o.kind == kMethod && o.owner == ti {
					fn := types.NewFunc(at(o.pkg, 2+oi), u.pkgs[o.pkg], objName(o), u.signature(o, oi, at, types.NewVar(token.NoPos, u.pkgs[o.pkg], "", nt)))
					methods = append(methods, fn)
					u.objs[oi] = fn
				}
			}
			it := types.NewInterfaceType(methods, nil)
			it.Complete()
			nt.SetUnderlying(it)
		} else {
			nt = types.NewNamed(tn, types.NewStruct(fields, nil), nil)
		}
		u.named = append(u.named, nt)
		u.pkgs[t.pkg].Scope().Insert(tn)
	}
	for oi, o := range os_ {
		switch o.kind {
		case kFunc, kMethod:
			if u.objs[oi] != nil {
				continue // a method of an interface type, built with the type
			}
			var recv *types.Var
			if o.kind == kMethod {
				rn := ""
				if o.recvnamed == 1 {
					rn = "r"
				}
				recv = types.NewParam(at(o.pkg, 2+oi)+token.Pos(2), u.pkgs[o.pkg], rn, types.NewPointer(u.named[o.owner]))
			}
			sig := u.signature(o, oi, at, recv)
			fn := types.NewFunc(at(o.pkg, 2+oi), u.pkgs[o.pkg], objName(o), sig)
			if o.kind == kMethod {
				u.named[o.owner].AddMethod(fn)
			} else {
				u.pkgs[o.pkg].Scope().Insert(fn)
			}
			u.objs[oi] = fn
		case kGVar:
			v := types.NewVar(at(o.pkg, 2+oi), u.pkgs[o.pkg], objName(o), ptrInt)
			u.pkgs[o.pkg].Scope().Insert(v)
			u.objs[oi] = v
		case kLVar:
			u.objs[oi] = types.NewVar(at(o.pkg, 2+oi), u.pkgs[o.pkg], objName(o), ptrInt)
		case kTypeName:
			u.objs[oi] = u.named[o.owner].Obj()
		}
	}
	for _, p := range u.pkgs {
		p.MarkComplete()
	}
	return u
}

func (u *universe) signature(o kObj, oi int, at func(pkg, line int) token.Pos, recv *types.Var) *types.Signature {
	ptrInt := types.NewPointer(types.Typ[types.Int])
	var params, results []*types.Var
	for i := 0; i < o.nparams; i++ {
		name := ""
		if o.named&(1<<i) != 0 {
			name = fmt.Sprintf("p%d", i)
		}
		params = append(params, types.NewParam(at(o.pkg, 2+oi)+token.Pos(10+i), u.pkgs[o.pkg], name, ptrInt))
	}
	for i := 0; i < o.nresults; i++ {
		results = append(results, types.NewParam(at(o.pkg, 2+oi)+token.Pos(20+i), u.pkgs[o.pkg], "", ptrInt))
	}
	return types.NewSignatureType(recv, nil, nil, types.NewTuple(params...), types.NewTuple(results...), false)
}

func (u *universe) key(k kKey, np int) annotation.Key {
	loc := token.Position{Filename: fmt.Sprintf("kp%d/c%d.go", k.lf%np, k.lf), Line: k.ll, Column: k.lc, Offset: (k.ll-1)*lineWidth + k.lc - 1}
	fn := func() *types.Func { return u.objs[k.obj].(*types.Func) }
	switch k.kind {
	case 1:
		return &annotation.FieldAnnotationKey{FieldDecl: u.flds[k.obj]}
	case 2:
		return annotation.NewCallSiteParamKey(fn(), k.num, loc)
	case 3:
		return &annotation.ParamAnnotationKey{FuncDecl: fn(), ParamNum: k.num}
	case 4:
		return annotation.NewCallSiteRetKey(fn(), k.num, loc)
	case 5:
		return &annotation.RetAnnotationKey{FuncDecl: fn(), RetNum: k.num}
	case 6:
		return &annotation.TypeNameAnnotationKey{TypeDecl: u.objs[k.obj].(*types.TypeName)}
	case 7:
		return &annotation.GlobalVarAnnotationKey{VarDecl: u.objs[k.obj].(*types.Var)}
	case 8:
		return &annotation.LocalVarAnnotationKey{VarDecl: u.objs[k.obj].(*types.Var)}
	case 9:
		return &annotation.RetFieldAnnotationKey{FuncDecl: fn(), RetNum: k.num, FieldDecl: u.flds[k.fld]}
	case 10:
		return &annotation.EscapeFieldAnnotationKey{FieldDecl: u.flds[k.obj]}
	case 11:
		return &annotation.ParamFieldAnnotationKey{FuncDecl: fn(), ParamNum: k.num, FieldDecl: u.flds[k.fld], IsTrackingSideEffect: k.track == 1}
	default:
		return &annotation.RecvAnnotationKey{FuncDecl: fn()}
	}
}

type kView struct {
	a, pert int
	vis     []int
	u       *universe
}

func keysCase(a []int) (out string) {
	defer func() {
		if r := recover(); r != nil {
			out = "PANIC " + strings.ReplaceAll(fmt.Sprint(r), "\n", " ")
		}
	}()
	pos := 0
	next := func() int { v := a[pos]; pos++; return v }
	np := next()
	ts := make([]kType, next())
	for i := range ts {
		ts[i] = kType{next(), next(), next(), next()}
	}
	os_ := make([]kObj, next())
	for i := range os_ {
		os_[i] = kObj{next(), next(), next(), next(), next(), next(), next(), next(), next(), next()}
	}
	ks := make([]kKey, next())
	for i := range ks {
		ks[i] = kKey{next(), next(), next(), next(), next(), next(), next(), next()}
	}
	// ground truth object paths, from the library, in an unperturbed universe
	home := buildUniverse(np, ts, os_, -1, 0)
	var paths []string
	for i, o := range home.objs {
		p := ""
		_, isTN := o.(*types.TypeName)
		if (o.Exported() || isTN || os_[i].dispatch == 1) && os_[i].kind != kLVar {
			if pp, err := objectpath.For(o); err == nil {
				p = string(pp)
			}
		}
		paths = append(paths, p)
	}
	var views []*kView
	var facts []analysis.PackageFact
	var sb strings.Builder
	sb.WriteString("paths=" + strings.Join(paths, ","))
	queries := func(v *kView) ([]inference.VerifKeyQuery, []annotation.Key) {
		n := next()
		qs := make([]inference.VerifKeyQuery, n)
		keys := make([]annotation.Key, n)
		for i := range qs {
			ki, deep := next(), next()
			keys[i] = v.u.key(ks[ki], np)
			qs[i] = inference.VerifKeyQuery{Key: keys[i], Deep: deep == 1}
		}
		return qs, keys
	}
	visible := func(v *kView) []analysis.PackageFact {
		var fs []analysis.PackageFact
		for _, j := range v.vis {
			fs = append(fs, facts[j])
		}
		return fs
	}
	ns := next()
	for s := 0; s < ns; s++ {
		switch next() {
		case 0:
			v := &kView{a: next(), pert: next()}
			for n := next(); n > 0; n-- {
				v.vis = append(v.vis, next())
			}
			v.u = buildUniverse(np, ts, os_, v.a, v.pert)
			views = append(views, v)
		case 1:
			v := views[next()]
			gob := next() == 1
			qs, _ := queries(v)
			f := inference.VerifFactOf(v.u.fset, v.u.pkgs[v.a], visible(v), qs, gob)
			facts = append(facts, analysis.PackageFact{Package: v.u.pkgs[v.a], Fact: f})
		case 2:
			v := views[next()]
			qs, keys := queries(v)
			sites := inference.VerifSitesOf(v.u.fset, v.u.pkgs[v.a], visible(v), qs)
			for i, si := range sites {
				fmt.Fprintf(&sb, " ;; %s ## %s|%d|%d|%d|%s|%s|%v|%v|%s", keys[i].String(), si.File, si.Offset, si.Line, si.Col, si.PkgPath, si.Repr, si.IsDeep, si.Exported, si.Path)
			}
		}
	}
	return sb.String()
}

func keysCmd(args []string) int {
	sc := bufio.NewScanner(os.Stdin)
	sc.Buffer(make([]byte, 1<<20), 1<<26)
	w := bufio.NewWriter(os.Stdout)
	defer w.Flush()
	for sc.Scan() {
		line := strings.TrimSpace(sc.Text())
		if line == "" {
			continue
		}
		var a []int
		for _, f := range strings.Fields(line) {
			v, _ := strconv.Atoi(f)
			a = append(a, v)
		}
		fmt.Fprintln(w, keysCase(a))
	}
	return 0
}
