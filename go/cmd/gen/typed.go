package main

import (
	"fmt"
	"go/ast"
	"go/types"
	"path/filepath"
	"sort"
	"strings"

	"golang.org/x/tools/go/packages"
)

// typedInventory loads /repo with type information and returns (a) every range statement over a map-typed
// expression and (b) every assignment statement whose left-hand side selects a field of (or indexes into) a value
// whose type is declared in go/ast, go/token, go/types, golang.org/x/tools/go/cfg or .../go/ssa.
func typedInventory() (ranges []string, writes []string, err error) {
	cfg := &packages.Config{Mode: packages.LoadSyntax, Dir: *repo, Env: append([]string{"GOFLAGS=-mod=mod", "GOPROXY=off", "GOWORK=off"}, environ()...)}
	pkgs, err := packages.Load(cfg, "./...")
	if err != nil {
		return nil, nil, err
	}
	shared := func(t types.Type) string {
		for {
			if p, ok := t.(*types.Pointer); ok {
				t = p.Elem()
				continue
			}
			break
		}
		if n, ok := t.(*types.Named); ok && n.Obj().Pkg() != nil {
			switch n.Obj().Pkg().Path() {
			case "go/ast", "go/token", "go/types", "golang.org/x/tools/go/cfg", "golang.org/x/tools/go/ssa", "golang.org/x/tools/go/analysis":
				return n.Obj().Pkg().Name() + "." + n.Obj().Name()
			}
		}
		return ""
	}
	for _, p := range pkgs {
		if strings.Contains(p.PkgPath, "/tools/") || strings.HasSuffix(p.PkgPath, "nilawaytest") {
			continue
		}
		for i, f := range p.Syntax {
			fname := p.CompiledGoFiles[i]
			rel, _ := filepath.Rel(*repo, fname)
			if strings.HasSuffix(rel, "_test.go") || strings.HasSuffix(rel, "verif_hook.go") || strings.HasPrefix(rel, "testdata") {
				continue
			}
			for _, d := range f.Decls {
				fd, ok := d.(*ast.FuncDecl)
				if !ok || fd.Body == nil {
					continue
				}
				fn := fd.Name.Name
				if fd.Recv != nil && len(fd.Recv.List) > 0 {
					fn = strings.TrimPrefix(src(p.Fset, fd.Recv.List[0].Type), "*") + "." + fn
				}
				nr, nw := 0, 0
				ast.Inspect(fd.Body, func(n ast.Node) bool {
					switch n := n.(type) {
					case *ast.RangeStmt:
						if t := p.TypesInfo.TypeOf(n.X); t != nil {
							if _, ok := t.Underlying().(*types.Map); ok {
								nr++
								ranges = append(ranges, fmt.Sprintf("%s:%s:%d:%s", rel, fn, nr, src(p.Fset, n.X)))
							}
						}
					case *ast.AssignStmt:
						for _, lhs := range n.Lhs {
							var base ast.Expr
							switch l := lhs.(type) {
							case *ast.SelectorExpr:
								base = l.X
							case *ast.IndexExpr:
								// x.F[i] = ... or s[i] = ... where s is a field of a shared struct
								if s, ok := l.X.(*ast.SelectorExpr); ok {
									base = s.X
								}
							}
							if base == nil {
								continue
							}
							if t := p.TypesInfo.TypeOf(base); t != nil {
								if sh := shared(t); sh != "" {
									nw++
									writes = append(writes, fmt.Sprintf("%s:%s:%d:%s:%s", rel, fn, nw, sh, src(p.Fset, lhs)))
								}
							}
						}
					case *ast.IncDecStmt:
						if s, ok := n.X.(*ast.SelectorExpr); ok {
							if t := p.TypesInfo.TypeOf(s.X); t != nil {
								if sh := shared(t); sh != "" {
									nw++
									writes = append(writes, fmt.Sprintf("%s:%s:%d:%s:%s", rel, fn, nw, sh, src(p.Fset, n.X)))
								}
							}
						}
					}
					return true
				})
			}
		}
	}
	sort.Strings(ranges)
	sort.Strings(writes)
	return ranges, writes, nil
}
