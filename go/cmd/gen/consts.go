package main

func genConsts() error { return nil }
