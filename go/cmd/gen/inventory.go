package main

func genInventory() error { return nil }
