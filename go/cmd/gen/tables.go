package main

import (
	"bytes"
	"fmt"
	"go/ast"
	"go/parser"
	"go/printer"
	"go/token"
	"path/filepath"
	"strings"
)

// ---------------------------------------------------------------------------------------------
// gen/Tables.v : Converse / Inverse operator tables, the checker list of AddNilCheck and the
// shape of its application loop, all read from the Go source.
// ---------------------------------------------------------------------------------------------

var tokName = map[string]string{"EQL": "EQL", "NEQ": "NEQ", "LSS": "LSS", "GTR": "GTR", "LEQ": "LEQ", "GEQ": "GEQ"}

func src(fset *token.FileSet, n ast.Node) string {
	var b bytes.Buffer
	_ = printer.Fprint(&b, fset, n)
	return strings.Join(strings.Fields(b.String()), " ")
}

// srcNoComments prints a node without the comments inside it (the printer drops free-floating comments when it is given a
// bare node rather than a file)
func srcNoComments(fset *token.FileSet, n ast.Node) string {
	return src(fset, n)
}

func findFunc(f *ast.File, name string) *ast.FuncDecl {
	for _, d := range f.Decls {
		if fd, ok := d.(*ast.FuncDecl); ok && fd.Name.Name == name && fd.Recv == nil {
			return fd
		}
	}
	return nil
}

// tokenSel returns "EQL" for the expression `token.EQL`.
func tokenSel(e ast.Expr) (string, bool) {
	s, ok := e.(*ast.SelectorExpr)
	if !ok {
		return "", false
	}
	x, ok := s.X.(*ast.Ident)
	if !ok || x.Name != "token" {
		return "", false
	}
	return s.Sel.Name, true
}

// switchTable translates `switch t { case token.A: return token.B ... default: panic }` into a
// Coq function tok -> option tok. Tokens other than the six comparisons cannot be expressed and make
// the table "foreign" (reported as an error: the model has no constructor for them).
func switchTable(fset *token.FileSet, fd *ast.FuncDecl, coqName string) (string, error) {
	if fd == nil || fd.Body == nil || len(fd.Body.List) == 0 {
		return "", fmt.Errorf("%s: function not found or empty", coqName)
	}
	sw, ok := fd.Body.List[0].(*ast.SwitchStmt)
	if !ok {
		return "", fmt.Errorf("%s: first statement is not a switch", coqName)
	}
	var b strings.Builder
	fmt.Fprintf(&b, "Definition %s (t : tok) : option tok :=\n  match t with\n", coqName)
	seen := map[string]bool{}
	for _, s := range sw.Body.List {
		cc := s.(*ast.CaseClause)
		if cc.List == nil {
			continue // default: panic => None
		}
		if len(cc.Body) != 1 {
			return "", fmt.Errorf("%s: case body is not a single return", coqName)
		}
		ret, ok := cc.Body[0].(*ast.ReturnStmt)
		if !ok || len(ret.Results) != 1 {
			return "", fmt.Errorf("%s: case body is not a single return", coqName)
		}
		to, ok := tokenSel(ret.Results[0])
		if !ok || tokName[to] == "" {
			return "", fmt.Errorf("%s: returns a non-comparison token %s", coqName, src(fset, ret.Results[0]))
		}
		for _, e := range cc.List {
			from, ok := tokenSel(e)
			if !ok || tokName[from] == "" {
				return "", fmt.Errorf("%s: case on a non-comparison token %s", coqName, src(fset, e))
			}
			if seen[from] {
				continue
			}
			seen[from] = true
			fmt.Fprintf(&b, "  | %s => Some %s\n", from, to)
		}
	}
	if len(seen) < 6 {
		b.WriteString("  | _ => None\n")
	}
	b.WriteString("  end.\n")
	return b.String(), nil
}

// opExpr translates an expression over `check.op`, tokenhelper.Inverse and tokenhelper.Converse into a
// Coq term over (conv inv : tok -> tok) (o : tok).
func opExpr(fset *token.FileSet, e ast.Expr) (string, error) {
	switch e := e.(type) {
	case *ast.SelectorExpr:
		if x, ok := e.X.(*ast.Ident); ok && x.Name == "check" && e.Sel.Name == "op" {
			return "o", nil
		}
	case *ast.CallExpr:
		if s, ok := e.Fun.(*ast.SelectorExpr); ok && len(e.Args) == 1 {
			if x, ok := s.X.(*ast.Ident); ok && x.Name == "tokenhelper" {
				inner, err := opExpr(fset, e.Args[0])
				if err != nil {
					return "", err
				}
				switch s.Sel.Name {
				case "Inverse":
					return "(inv " + inner + ")", nil
				case "Converse":
					return "(conv " + inner + ")", nil
				}
			}
		}
	}
	return "", fmt.Errorf("unsupported operator expression %s", src(fset, e))
}

// binOpEq matches `binExpr.Op == E` and returns the translation of E.
func binOpEq(fset *token.FileSet, e ast.Expr) (string, error) {
	b, ok := e.(*ast.BinaryExpr)
	if !ok || b.Op != token.EQL || src(fset, b.X) != "binExpr.Op" {
		return "", fmt.Errorf("expected `binExpr.Op == E`, got %s", src(fset, e))
	}
	return opExpr(fset, b.Y)
}

var knownClasses = []struct{ cond, cls string }{
	{"!pass.IsNil(x) && isNilComparand(pass, x, y)", "ClsNil"},
	{"lenArgs := extractLenArgs(x, false); len(lenArgs) == 1 && pass.IsZero(y)", "ClsLenZero"},
	{"xLenArgs, yLenArgs := extractLenArgs(x, true), extractLenArgs(y, true); len(xLenArgs) != 0 && len(yLenArgs) != 0", "ClsLenLen"},
	{"lenArgs := extractLenArgs(x, true); len(lenArgs) == 1 && likelyPositiveInt(pass, y)", "ClsLenPos"},
	{"lenArgs := extractLenArgs(x, true); len(lenArgs) == 1 && (pass.IsZero(y) || likelyPositiveInt(pass, y))", "ClsLenNonneg"},
	{"arg, ok := lenMinusPositiveArg(pass, x); ok && pass.IsZero(y)", "ClsLenMinus"},
}

// the one matcher that is not "condition => fixed effects": a comparison of a check with a boolean constant, whose
// effects are those of the check itself (a recursive call), exchanged when the constant is false
const boolConstMatcher = "func(x, y ast.Expr) (RootFunc, RootFunc, bool) { if value, ok := boolConstant(pass, y); ok { trueNilCheck, falseNilCheck, isNoop := AddNilCheck(pass, x) if !value { trueNilCheck, falseNilCheck = falseNilCheck, trueNilCheck } return trueNilCheck, falseNilCheck, isNoop } return noop, noop, true }"

// the prologue of AddNilCheck that the expression layer of the model (Cmp.check) transcribes: parentheses are
// dropped, a negation exchanges the two effects of its operand
const notPrologue = "if e, ok := expr.(*ast.UnaryExpr); ok && e.Op == token.NOT { trueNilCheck, falseNilCheck, isNoop := AddNilCheck(pass, e.X) return falseNilCheck, trueNilCheck, isNoop }"

// helper predicates the classes stand for: what an operand kind of the model means is fixed by their bodies, so a
// change of one of them is a change of shape (the proof obligation breaks and the check searches for a witness)
var pinnedHelpers = map[string]string{
	"isNilComparand": "{ if pass.IsNil(y) { return true } call, ok := ast.Unparen(y).(*ast.CallExpr) if !ok || len(call.Args) != 1 || !pass.IsNil(call.Args[0]) { return false } if tv, ok := pass.TypesInfo.Types[call.Fun]; !ok || !tv.IsType() { return false } xType, yType := pass.TypesInfo.TypeOf(x), pass.TypesInfo.TypeOf(call) return xType != nil && yType != nil && types.Identical(xType, yType) }",
	"boolConstant":   "{ if tv, ok := pass.TypesInfo.Types[expr]; ok { if tv.Value != nil && tv.Value.Kind() == constant.Bool { return constant.BoolVal(tv.Value), true } return false, false } if asthelper.IsLiteral(expr, \"true\", \"false\") { return asthelper.IsLiteral(expr, \"true\"), true } return false, false }",
}

func stripComments(s string) string {
	for {
		i := strings.Index(s, "/*")
		if i < 0 {
			return strings.Join(strings.Fields(s), " ")
		}
		j := strings.Index(s[i:], "*/")
		if j < 0 {
			return s
		}
		s = s[:i] + s[i+j+2:]
	}
}

func genTables() error {
	fset := token.NewFileSet()
	var b strings.Builder
	b.WriteString("(* GENERATED by /verif/go/cmd/gen from /repo's working tree -- do not edit. *)\n")
	b.WriteString("From NM Require Import Cmp.\nRequire Import List. Import ListNotations.\n\n")

	th, err := parser.ParseFile(fset, filepath.Join(*repo, "util/tokenhelper/tokenhelper.go"), nil, 0)
	if err != nil {
		return err
	}
	for _, p := range [][2]string{{"Converse", "converse_gen"}, {"Inverse", "inverse_gen"}} {
		s, err := switchTable(fset, findFunc(th, p[0]), p[1])
		if err != nil {
			// the shape is no longer a switch table: emit an everywhere-undefined table so that
			// the totality theorem (and everything after it) fails instead of silently passing
			s = fmt.Sprintf("(* translator: %v *)\nDefinition %s (t : tok) : option tok := None.\n", err, p[1])
		}
		b.WriteString(s + "\n")
	}

	ut, err := parser.ParseFile(fset, filepath.Join(*repo, "assertion/function/assertiontree/util.go"), nil, 0)
	if err != nil {
		return err
	}
	fd := findFunc(ut, "AddNilCheck")
	if fd == nil {
		return fmt.Errorf("AddNilCheck not found")
	}

	// --- the checker list
	var checkers *ast.CompositeLit
	var loop *ast.RangeStmt
	ast.Inspect(fd.Body, func(n ast.Node) bool {
		switch n := n.(type) {
		case *ast.AssignStmt:
			if len(n.Lhs) == 1 && len(n.Rhs) == 1 {
				if id, ok := n.Lhs[0].(*ast.Ident); ok && id.Name == "checkers" {
					if cl, ok := n.Rhs[0].(*ast.CompositeLit); ok {
						checkers = cl
					}
				}
			}
		case *ast.RangeStmt:
			if id, ok := n.X.(*ast.Ident); ok && id.Name == "checkers" {
				loop = n
			}
		}
		return true
	})
	b.WriteString("Definition checkers_gen : list checker := [\n")
	shapeOK := checkers != nil && loop != nil
	if checkers != nil {
		for i, el := range checkers.Elts {
			cl, ok := el.(*ast.CompositeLit)
			if !ok {
				shapeOK = false
				continue
			}
			op, cls, effT, effF, subj := "EQL", "ClsUnknown", "false", "false", "SubjNone"
			for _, kvE := range cl.Elts {
				kv, ok := kvE.(*ast.KeyValueExpr)
				if !ok {
					shapeOK = false
					continue
				}
				switch kv.Key.(*ast.Ident).Name {
				case "op":
					if t, ok := tokenSel(kv.Value); ok && tokName[t] != "" {
						op = t
					} else {
						shapeOK = false
					}
				case "matcher":
					fl, ok := kv.Value.(*ast.FuncLit)
					if !ok || len(fl.Body.List) < 2 {
						shapeOK = false
						continue
					}
					if stripComments(srcNoComments(fset, fl)) == boolConstMatcher {
						cls = "ClsBoolConst"
						continue
					}
					nst := len(fl.Body.List)
					ifs, ok := fl.Body.List[nst-2].(*ast.IfStmt)
					if !ok || len(ifs.Body.List) != 1 {
						shapeOK = false
						continue
					}
					cond := src(fset, ifs.Cond)
					if ifs.Init != nil {
						cond = src(fset, ifs.Init) + "; " + cond
					}
					for k := nst - 3; k >= 0; k-- {
						cond = src(fset, fl.Body.List[k]) + "; " + cond
					}
					// the len-len checker computes its len args in a statement before the `if`
					cond = stripComments(cond)
					for _, kc := range knownClasses {
						if kc.cond == cond {
							cls = kc.cls
						}
					}
					ret, ok := ifs.Body.List[0].(*ast.ReturnStmt)
					if !ok || len(ret.Results) != 3 || src(fset, ret.Results[2]) != "false" {
						shapeOK = false
						continue
					}
					eff := func(e ast.Expr) (string, string) {
						if id, ok := e.(*ast.Ident); ok && id.Name == "noop" {
							return "false", ""
						}
						if c, ok := e.(*ast.CallExpr); ok && src(fset, c.Fun) == "produceNegativeNilChecks" && len(c.Args) == 1 {
							switch src(fset, c.Args[0]) {
							case "x":
								return "true", "SubjFirst"
							case "lenArgs[0]":
								return "true", "SubjFirstLenArg"
							case "arg":
								return "true", "SubjFirstLenArg"
							case "slices.Concat(xLenArgs, yLenArgs)":
								return "true", "SubjBothLenArgs"
							}
						}
						shapeOK = false
						return "false", ""
					}
					var s1, s2 string
					effT, s1 = eff(ret.Results[0])
					effF, s2 = eff(ret.Results[1])
					if s1 != "" {
						subj = s1
					}
					if s2 != "" {
						subj = s2
					}
					// second statement must be the no-match return
					if r2, ok := fl.Body.List[nst-1].(*ast.ReturnStmt); !ok || src(fset, r2) != "return noop, noop, true" {
						shapeOK = false
					}
				}
			}
			sep := ";"
			if i == len(checkers.Elts)-1 {
				sep = ""
			}
			fmt.Fprintf(&b, "  {| ck_op := %s; ck_true := %s; ck_false := %s; ck_cls := %s; ck_subj := %s |}%s\n", op, effT, effF, cls, subj, sep)
		}
	}
	b.WriteString("].\n\n")

	// --- the application loop: exactly two `if` statements of a fixed shape
	b.WriteString("Definition loop_gen : list loop_if := [\n")
	if loop != nil {
		var ifs []*ast.IfStmt
		for _, s := range loop.Body.List {
			if i, ok := s.(*ast.IfStmt); ok {
				ifs = append(ifs, i)
			} else {
				shapeOK = false
			}
		}
		for i, s := range ifs {
			or, ok := s.Cond.(*ast.BinaryExpr)
			if !ok || or.Op != token.LOR || len(s.Body.List) != 3 {
				shapeOK = false
				continue
			}
			c1, e1 := binOpEq(fset, or.X)
			c2, e2 := binOpEq(fset, or.Y)
			as, ok := s.Body.List[0].(*ast.AssignStmt)
			if e1 != nil || e2 != nil || !ok || src(fset, as.Lhs[0])+","+src(fset, as.Lhs[1])+","+src(fset, as.Lhs[2]) != "trueCheck,falseCheck,isNoop" {
				shapeOK = false
				continue
			}
			swapArgs := ""
			switch src(fset, as.Rhs[0]) {
			case "check.matcher(binExpr.X, binExpr.Y)":
				swapArgs = "false"
			case "check.matcher(binExpr.Y, binExpr.X)":
				swapArgs = "true"
			default:
				shapeOK = false
				continue
			}
			sw, ok := s.Body.List[1].(*ast.IfStmt)
			if !ok || len(sw.Body.List) != 1 || src(fset, sw.Body.List[0]) != "trueCheck, falseCheck = falseCheck, trueCheck" {
				shapeOK = false
				continue
			}
			c3, e3 := binOpEq(fset, sw.Cond)
			if e3 != nil {
				shapeOK = false
				continue
			}
			if r, ok := s.Body.List[2].(*ast.IfStmt); !ok || src(fset, r.Cond) != "!isNoop" || len(r.Body.List) != 1 || src(fset, r.Body.List[0]) != "return" {
				shapeOK = false
			}
			sep := ";"
			if i == len(ifs)-1 {
				sep = ""
			}
			fmt.Fprintf(&b, "  {| li_c1 := fun conv inv o => %s;\n     li_c2 := fun conv inv o => %s;\n     li_swapargs := %s;\n     li_swapwhen := fun conv inv o => %s |}%s\n", c1, c2, swapArgs, c3, sep)
		}
	}
	b.WriteString("].\n\n")

	// --- the prologue: `expr = ast.Unparen(expr)` followed by the negation case
	notSwaps := false
	if len(fd.Body.List) >= 3 {
		if src(fset, fd.Body.List[1]) == "expr = ast.Unparen(expr)" && stripComments(srcNoComments(fset, fd.Body.List[2])) == notPrologue {
			notSwaps = true
		}
	}
	fmt.Fprintf(&b, "(* AddNilCheck drops parentheses and exchanges the effects of a negated operand *)\nDefinition not_swaps_gen : bool := %v.\n\n", notSwaps)
	for name, want := range pinnedHelpers {
		h := findFunc(ut, name)
		if h == nil || stripComments(srcNoComments(fset, h.Body)) != want {
			shapeOK = false
			fmt.Fprintf(&b, "(* translator: the body of %s is not the one the operand kinds of the model stand for *)\n", name)
		}
	}
	fmt.Fprintf(&b, "(* true iff every construct above had exactly the shape the translator understands *)\nDefinition tables_shape_ok : bool := %v.\n", shapeOK)
	return writeIfChanged(filepath.Join(*out, "Tables.v"), []byte(b.String()))
}
