// Command gen is the translator of the verification framework: it reads the *current* working
// tree of /repo (go/parser, go/ast; go/types where needed) and re-emits Coq source files under
// coq/gen/. The Coq proofs are re-checked against these regenerated files on every run, so a
// change to one of the translated tables / shapes / inventories breaks a Qed.
//
// Usage: gen -repo /repo -out /verif/coq/gen [tables|consts|inventory|all]
package main

import (
	"bytes"
	"flag"
	"fmt"
	"os"
	"path/filepath"
)

var (
	repo = flag.String("repo", "/repo", "path of the nilaway working tree")
	out  = flag.String("out", "/verif/coq/gen", "output directory for generated .v files")
)

// writeIfChanged writes content to path unless the file already has exactly that content, so that
// `make` does not rebuild proofs whose generated inputs did not change.
func writeIfChanged(path string, content []byte) error {
	old, err := os.ReadFile(path)
	if err == nil && bytes.Equal(old, content) {
		return nil
	}
	if err := os.MkdirAll(filepath.Dir(path), 0o755); err != nil {
		return err
	}
	return os.WriteFile(path, content, 0o644)
}

func environ() []string { return os.Environ() }

func main() {
	flag.Parse()
	what := "all"
	if flag.NArg() > 0 {
		what = flag.Arg(0)
	}
	steps := map[string]func() error{
		"tables":    genTables,
		"consts":    genConsts,
		"inventory": genInventory,
	}
	order := []string{"tables", "consts", "inventory"}
	failed := false
	for _, name := range order {
		if what != "all" && what != name {
			continue
		}
		if err := steps[name](); err != nil {
			fmt.Fprintf(os.Stderr, "gen %s: %v\n", name, err)
			failed = true
		}
	}
	if failed {
		os.Exit(2)
	}
}
