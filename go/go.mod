module verif

go 1.25.0

require (
	go.uber.org/nilaway v0.0.0
	golang.org/x/tools v0.45.0
)

require (
	github.com/klauspost/compress v1.18.6 // indirect
	golang.org/x/exp/typeparams v0.0.0-20260611194520-c48552f49976 // indirect
	golang.org/x/mod v0.36.0 // indirect
	golang.org/x/sync v0.20.0 // indirect
)

replace go.uber.org/nilaway => /repo
