#!/bin/sh
# Build the framework from files on disk only (offline): translator + harness from /repo's current tree,
# regenerate coq/gen, full .vo build of the Coq development.
set -e
cd "$(dirname "$0")"
export GOFLAGS=-mod=mod GOPROXY=off GOWORK=off CGO_ENABLED=0
unset GOTOOLCHAIN GOSUMDB || true
mkdir -p bin evidence replays
cp /repo/go.sum go/go.sum
(cd go && go build -o ../bin/gen ./cmd/gen && go build -tags verif -o ../bin/harness ./cmd/harness)
./bin/gen -repo /repo -out coq/gen all
timeout 3000 ./coq/mk.sh
[ -d ocaml ] && [ -x ocaml/build.sh ] && ./ocaml/build.sh || true
echo setup done
