#!/bin/bash
# every claimed check at the thorough tier (hours); meant for `vp run -- tools/run_thorough.sh` (builds first)
cd "$(dirname "$0")/.."
[ -x bin/harness ] || ./setup.sh >/dev/null 2>&1
for p in $(python3 -c "import json;print(' '.join(c['property_id'] for c in json.load(open('MANIFEST.json'))['checks']))"); do
  /usr/bin/time -f "$p %es %MKB" ./check $p --tier thorough 2>&1 | grep -v "^KNOWN-FINDING" | tail -4
done
