#!/bin/bash
# usage: try_seed.sh <seed id> <check id>... : apply the seeded change to /repo, run the checks (quick tier), undo.
id=$1; shift
git -C /repo apply /verif/seeded/$id/patch.diff || exit 2
for c in "$@"; do
  echo "== $c on seed $id"; /verif/check $c --tier quick 2>&1 | grep -v "^KNOWN-FINDING" | tail -4
done
git -C /repo checkout -- .
export GOFLAGS=-mod=mod GOPROXY=off
(cd /verif/go && go build -tags verif -o /verif/bin/harness ./cmd/harness && go build -o /verif/bin/nilaway go.uber.org/nilaway/cmd/nilaway)
git -C /repo status --short | head -3
