#!/bin/bash
# usage: verify_seed.sh <id> <demo go test command...>
# Confirms in a scratch worktree of /repo HEAD that the seeded change compiles, passes the whole existing suite,
# and that its demonstration fails with the change and passes without it. Writes seeded/<id>/verified.json.
id=$1; shift
demo="$*"
export GOFLAGS=-mod=mod GOPROXY=off
unset GOTOOLCHAIN GOSUMDB
S=/verif/seeded/$id
W=/tmp/vs-$id
git -C /repo worktree remove --force $W >/dev/null 2>&1
git -C /repo worktree add -q $W HEAD || exit 2
cd $W
res() { python3 - "$@" <<'PY'
import json,sys
p,k,v=sys.argv[1],sys.argv[2],sys.argv[3]
try: d=json.load(open(p))
except Exception: d={}
d[k]=v
json.dump(d,open(p,'w'),indent=1)
PY
}
V=$S/verified.json; rm -f $V
res $V repo_head "$(git -C /repo rev-parse --short HEAD)"
if git apply $S/patch.diff; then res $V patch_applies yes; else res $V patch_applies no; cd /; git -C /repo worktree remove --force $W; exit 1; fi
if go build ./... >/dev/null 2>&1; then res $V builds yes; else res $V builds no; fi
go test -vet=off -count=1 ./... > /tmp/vs-$id.suite.log 2>&1; rc=$?
res $V suite_with_change "exit $rc; $(grep -c '^ok' /tmp/vs-$id.suite.log) packages ok; $(grep -c '^FAIL\|^--- FAIL' /tmp/vs-$id.suite.log) FAIL lines"
# demo files
(cd $S && find . -type f ! -name patch.diff ! -name patch.orig.diff ! -name meta.json ! -name demo.md ! -name verified.json ! -path './alt_*' | while read f; do mkdir -p $W/$(dirname $f); cp $f $W/$f; done)
cp -r $S $W/_seed
$demo > /tmp/vs-$id.demo1.log 2>&1; rc1=$?
res $V demo_with_change "exit $rc1 ($demo)"
git apply -R $S/patch.diff
$demo > /tmp/vs-$id.demo2.log 2>&1; rc2=$?
res $V demo_without_change "exit $rc2"
if [ $rc -eq 0 ] && [ $rc1 -ne 0 ] && [ $rc2 -eq 0 ]; then res $V confirmed yes; else res $V confirmed no; fi
cd /; git -C /repo worktree remove --force $W; rm -f /tmp/vs-$id.*.log
cat $V
