"""usage: mk_markers.py <regression dir> <dest dir>: copy the Go module, adding //REPORT and //SILENT markers to the
lines EXPECT.txt lists under 'MUST be reported' / 'MUST NOT be reported' (sections recognised by those words)."""
import os, re, shutil, sys
src, dst = sys.argv[1], sys.argv[2]
exp = open(os.path.join(src, "EXPECT.txt")).read()
mode = None
rep, sil = set(), set()
for line in exp.splitlines():
    l = line.strip()
    low = l.lower()
    if re.search(r"must not|must be silent|not be reported|must stay silent|no diagnostic", low) and not re.search(r"^\S+\.go:\d+", l):
        mode = "S"
    elif re.search(r"must be reported|must report|expected diagnostics|required diagnostics|must be present", low) and not re.search(r"^\S+\.go:\d+", l):
        mode = "R"
    elif re.search(r"unpatched|before|instead", low) and not re.search(r"^\S+\.go:\d+", l):
        mode = None
    for m in re.finditer(r"([\w./%-]+\.go):(\d+)", l):
        if mode == "R": rep.add((m.group(1), int(m.group(2))))
        elif mode == "S": sil.add((m.group(1), int(m.group(2))))
shutil.rmtree(dst, ignore_errors=True)
shutil.copytree(src, dst)
n = 0
for root, _, files in os.walk(dst):
    for f in files:
        if not f.endswith(".go"): continue
        p = os.path.join(root, f)
        rel = os.path.relpath(p, dst)
        lines = open(p).read().split("\n")
        for i in range(len(lines)):
            for (ff, ln) in rep:
                if ln == i + 1 and (rel == ff or rel.endswith("/" + ff) or os.path.basename(rel) == os.path.basename(ff) and ff.count("/") == 0):
                    lines[i] += " //REPORT"; n += 1
            for (ff, ln) in sil:
                if ln == i + 1 and (rel == ff or rel.endswith("/" + ff) or os.path.basename(rel) == os.path.basename(ff) and ff.count("/") == 0):
                    lines[i] += " //SILENT"; n += 1
        open(p, "w").write("\n".join(lines))
print(dst, "report", len(rep), "silent", len(sil), "marked", n)
