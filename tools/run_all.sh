#!/bin/bash
# run every claimed check (quick tier) on the clean /repo tree, so that committed evidence comes from clean runs
cd /verif
if [ -n "$(git -C /repo status --porcelain)" ]; then echo "/repo is not clean"; exit 2; fi
fail=0
for p in $(python3 -c "import json;print(' '.join(c['property_id'] for c in json.load(open('MANIFEST.json'))['checks']))"); do
  out=$(./check $p --tier quick 2>&1 | tail -1)
  echo "$out"
  case "$out" in *"violations=0"*) ;; *) fail=1;; esac
done
python3-vt - <<'PY'
import json,jsonschema,glob
sch=json.load(open('/root/.vp/EVIDENCE.schema.json'))
for f in sorted(glob.glob('/verif/evidence/*.json')):
    e=json.load(open(f)); jsonschema.validate(e,sch)
    c=e['coverage']
    if c['obligations']!=c['discharged'] or e.get('violations'): print('NOT CLEAN', f, c['obligations'], c['discharged'], e.get('violations'))
print('evidence validated')
PY
exit $fail
