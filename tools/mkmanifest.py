#!/usr/bin/env python3
"""Regenerate /verif/MANIFEST.json from the table below."""
import json
import subprocess

props = [json.loads(l) for l in open('/verif/properties.jsonl')]
base = json.load(open('/root/.vp/BASELINE.json'))
NOTE = "Trusted: Coq 8.16.1 kernel; the hand-written model is tied to /repo by a correspondence run on every check (extracted OCaml model vs the real code through //go:build verif hooks) and by regenerated tables; translator, harness, extraction (ExtrOcamlBasic only), Go toolchain. See DESIGN.md section 6."
claimed = {
 "C15": ("proof", "Coq theorems over the site-identity model M3 (transcription of primitivizer.site and the 13 Key kinds): injectivity of the identity in the declaring package's view (positions injective, representation injective per object), stability of a dependency's identity in any importer view whenever the dependency's facts mention the object (for EVERY position the importer may believe), and the fallback otherwise. Tied by a look-alike corpus through the whole tool (each pair of twins has opposite nilability, cross-package) and by an identity oracle over all site tuples in exported facts (in-memory and gob).", "Coq proof + whole-tool aliasing corpus + identity oracle over real facts"),
 "C18": ("proof", "Partial. Coq theorems over the path model M4b (filepath.Rel on clean absolute paths, PortionAfterSep): relocation invariance, injectivity of relativisation for a fixed cwd, equal names under one cwd iff under any other, printed names depend only on trailing segments. Tied by correspondence with the real RelToCwd/PortionAfterSep (one process per cwd) and by running the real binary on one module at 2 locations x 5 start directories (incl. parent via go.work) with cross-package and nolint flows. Per-package-cwd drivers (go vet) are outside the model (finding F12).", "Coq proof + correspondence + whole-binary relocation suite"),
 "C19": ("proof", "Theorems over the regenerated Converse/Inverse tables, checker list and application loop of AddNilCheck, for all operators and all operand values (unbounded Z); the translator is validated by executing the Go functions.", "regenerated tables + Coq proofs (case split, lia)"),
 "C05": ("proof", "Coq theorems over the engine model M1 (transcription of inference/engine.go): conflict <-> a source reaches a sink, explanations are real paths, verdicts = reachable sets, order independence, termination; for all constraint sets and orders, no bound. The model is tied to the code by running the extracted model and the real Engine on the same scenarios (every observable compared) and by evaluating the statement itself on the real engine's outputs.", "Coq proof (invariants over a work-list semantics) + correspondence with the real engine"),
 "C06": ("proof", "Coq theorems over M1's export (chooseSitesToExport / inferredValDiff / Export): verdicts of exported sites kept, increment omits upstream information, Export never panics; convexity and downstream equivalence are validated by correspondence and by comparing modular with whole-graph analysis on the real engine (known finding F15 outside the claimed domain).", "Coq proof + correspondence (export set, fact, gob round trip) + modular-vs-whole-graph oracle on the real engine"),
 "C12": ("proof", "Coq theorems over the scope model (transcription of config.Config.IsPkgInScope / flag parsing / IsFileInScope): in scope iff some include prefix and no exclude prefix matches, exclude wins, empty include = all, flag pieces; plus an obligation over the REGENERATED inventory of analysis.Analyzer values: every analyzer that can publish facts or findings starts with the package-scope guard. Tied by correspondence with the real flag set + IsPkgInScope and by whole-tool runs of a 3-package module under 8 configurations (no diagnostics, no InferredMap/Contracts/Cache facts out of scope; docstring-excluded file contributes nothing).", "Coq proof + regenerated analyzer inventory + correspondence + whole-tool scope suite"),
 "C11": ("proof", "Coq theorems over the diagnostics model M2 (transcription of diagnostic/engine.go, conflict.go): for both grouping values the conflicts shown (as a position or in exactly one other-places list) are exactly the conflicts not on a suppressed line -- for all conflict lists and ranges. Tied by correspondence with the real diagnostic engine (synthetic conflicts through a verif hook), a ground-truth location oracle, and generated modules with every nolint spelling/placement through the whole tool (incl. cross-package reports).", "Coq proof (permutation/partition lemmas) + correspondence + whole-tool nolint suite"),
 "C13": ("proof", "Coq theorems over M2: grouping partitions the ungrouped output, counts equal list lengths, grouped members share the nil-source key and heads are pairwise distinct. Tied by correspondence and ground-truth oracles on the real engine; the pretty-printing half is decided by an oracle on the real PrettyPrintErrorMessage (known finding F9: matched quotes are dropped).", "Coq proof + correspondence + oracles on real output"),
 "C14": ("proof", "Partial. Coq theorems: reported position = position of the last non-nil step, flows are non-empty and complete, and toPos yields a valid position on the same line for EVERY line number (over the regenerated _fakeFileMaxLines and guards of toPos; finding F16 repaired). File system and drivers are outside any model: decided by a coherence oracle over real diagnostics (both path-printing modes).", "Coq proof over regenerated constants + correspondence + whole-tool coherence oracle"),
 "C10": ("proof", "Coq theorems over M1: an annotated site ends with the annotated verdict and the annotation as explanation for every trigger set and order; nil into nonnil / unguarded nilable are reported (corollaries of C05). Tied by correspondence on annotation-heavy scenarios and by hand-written annotated programs through the real comment parser.", "Coq proof + correspondence + whole-tool annotated corpus"),
}
src_commits = subprocess.run("git -C /repo log --format=%h --grep='^verif hook'", shell=True, capture_output=True, text=True).stdout.split()
m = {
 "version": 1,
 "setup_cmd": "./setup.sh",
 "hooks": {"guard": "verif (Go build tag; hook files are add-only files with //go:build verif)",
           "enable": "go build -tags verif (done by ./check via checks/common.py build_tools, against /repo's current working tree through the replace directive in /verif/go/go.mod)",
           "baseline_off_cmd": base["cmd"],
           "source_commits": src_commits,
           "add_only": True},
 "engines": [{"name": "coq", "path": "/verif/coq", "serves_properties": sorted(claimed), "kind_free_text": "Coq 8.16.1 development: model/ (executable Gallina), gen/ (regenerated from /repo each run), proofs/, props/ (property theorems); extracted to OCaml (bin/modelrun) for the correspondence suites"}],
 "checks": [],
 "notes": "see DESIGN.md; known findings in known_findings.json",
 "not_applicable": []
}
for p in props:
    pid = p['id']
    if pid in claimed:
        lvl, txt, tech = claimed[pid]
        m["checks"].append({"property_id": pid, "quick_cmd": "./check %s --tier quick" % pid, "thorough_cmd": "./check %s --tier thorough" % pid,
                            "evidence_file": "/verif/evidence/%s.json" % pid, "replay_cmd_template": "./check %s --replay {path}" % pid, "engine": "coq",
                            "level_claimed": {"category": lvl, "text": txt, "design_ref": "DESIGN.md section 4, " + pid},
                            "level_note": NOTE, "technique": tech})
    else:
        m["not_applicable"].append({"property_id": pid, "reason": "check not built yet in this revision (work in progress; see DESIGN.md section 8 build order) -- not a claim that the technique cannot apply"})
json.dump(m, open('/verif/MANIFEST.json', 'w'), indent=1)
print("claimed", sorted(claimed))
