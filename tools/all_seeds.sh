#!/bin/bash
# usage: all_seeds.sh : every seeded change against the check(s) of its property (quick tier); prints one summary line per seed.
cd /verif
for id in c01 c02 c03 c04 c05 c06 c07 c08 c09 c10 c11 c12 c13 c14 c15 c16 c17 c18 c19 c20; do
  C=$(echo $id | tr c C)
  out=$(tools/try_seed.sh $id $C 2>&1)
  n=$(echo "$out" | grep -c "^VIOLATION")
  nf=$(echo "$out" | grep "^VIOLATION" | grep -vc "no-failing-input-found")
  echo "$id -> $C: violations=$n concrete=$nf  $(echo "$out" | grep "tier=quick" | tail -1)"
done
git -C /repo status --short | head -3
