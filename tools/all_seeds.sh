#!/bin/bash
# usage: all_seeds.sh [ids...] : every seeded change (default: all of seeded/) against the check of its own property
# (quick tier); one summary line per seed.  /repo is modified while this runs and restored afterwards.
cd /verif
ids="$@"
[ -z "$ids" ] && ids=$(ls seeded)
for id in $ids; do
  C=$(echo $id | sed 's/^c\([0-9][0-9]\).*/C\1/')
  out=$(tools/try_seed.sh $id $C 2>&1)
  n=$(echo "$out" | grep -c "^VIOLATION")
  nf=$(echo "$out" | grep "^VIOLATION" | grep -vc "no-failing-input-found")
  echo "$id -> $C: violations=$n concrete=$nf  $(echo "$out" | grep "tier=quick" | tail -1)"
done
git -C /repo status --short | head -3
