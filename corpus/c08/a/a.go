// Package a: spellings of the error check that the program generator does not produce. A line marked REPORT
// dereferences a guarded result on a path that has not established err == nil; SILENT lines have.
package a

import (
	"errors"
	"os"
)

type T struct{ V int }

type tempErr struct{}

func (tempErr) Error() string   { return "temp" }
func (tempErr) Temporary() bool { return true }

type myErr struct{}

func (*myErr) Error() string { return "mine" }

var errSentinel = errors.New("sentinel")

func c() bool { return len(os.Args) > 5 }

// produce respects the convention: a nil value only together with a non-nil error.
func produce() (*T, error) {
	if c() {
		return nil, errors.New("plain")
	}
	if len(os.Args) > 7 {
		return nil, tempErr{}
	}
	return &T{}, nil
}

func earlyReturn() int {
	v, err := produce()
	if err != nil {
		return 0
	}
	return v.V //SILENT
}

func typeSwitchNilArm() int {
	v, err := produce()
	switch err.(type) {
	case nil:
		return v.V //SILENT
	}
	return 0
}

func typeSwitchInterfaceArmNoMatch() int {
	v, err := produce()
	switch err.(type) {
	case interface{ Temporary() bool }:
		return 0
	}
	return v.V //REPORT
}

func typeSwitchInterfaceArmDefault() int {
	v, err := produce()
	switch e := err.(type) {
	case interface{ Temporary() bool }:
		_ = e
		return 0
	default:
		return v.V //REPORT
	}
}

func typeSwitchConcreteArmNoMatch() int {
	v, err := produce()
	switch err.(type) {
	case *myErr:
		return 0
	}
	return v.V //REPORT
}

func typeSwitchNilThenInterface() int {
	v, err := produce()
	switch err.(type) {
	case nil:
		return v.V //SILENT
	case interface{ Temporary() bool }:
		return 1
	default:
		return 2
	}
}

func valueSwitchNil() int {
	v, err := produce()
	switch err {
	case nil:
		return v.V //SILENT
	}
	return 0
}

func valueSwitchSentinelOnly() int {
	v, err := produce()
	switch err {
	case errSentinel:
		return 0
	}
	return v.V //REPORT
}

func errorsIsOnly() int {
	v, err := produce()
	if errors.Is(err, errSentinel) {
		return 0
	}
	return v.V //REPORT
}

func reversedComparison() int {
	v, err := produce()
	if nil == err {
		return v.V //SILENT
	}
	return 0
}

func negatedComparison() int {
	v, err := produce()
	if !(err == nil) {
		return 0
	}
	return v.V //SILENT
}

func unchecked() int {
	v, _ := produce()
	return v.V //REPORT
}
