module ex.com/c08

go 1.23
