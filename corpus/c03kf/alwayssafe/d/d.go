// Package d is the importer: every function uses a result without checking the error / ok.
package d

import "ex.com/alwayssafe/u"

func UseSafe() int {
	p, _ := u.Safe(false)
	return *p // line 8: must NOT be reported //KNOWNFP:F81
}

func UseUnsafe() int {
	p, _ := u.Unsafe(false)
	return *p // line 13: must be reported //REPORT
}

func UseSafeOk(t u.T) int {
	p, _ := t.SafeOk(1)
	return *p // line 18: must NOT be reported //KNOWNFP:F81
}

func UseUnsafeOk(t u.T) int {
	p, _ := t.UnsafeOk(1)
	return *p // line 23: must be reported //REPORT
}

func UseAnnotated() int {
	p, _ := u.Annotated()
	return *p // line 28: must be reported //REPORT
}

func UseGeneric() int {
	p, _ := u.Generic(1)
	return *p // line 33: must NOT be reported //KNOWNFP:F81
}
