module ex.com/alwayssafe

go 1.23
