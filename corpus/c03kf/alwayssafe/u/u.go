// Package u is the dependency: it declares the error-/ok-returning functions.
package u

import "errors"

var errBad = errors.New("bad")

// Safe never returns a nil pointer, not even together with a non-nil error.
func Safe(fail bool) (*int, error) {
	x := 1
	if fail {
		return &x, errBad
	}
	return &x, nil
}

// Unsafe returns a nil pointer together with the error.
func Unsafe(fail bool) (*int, error) {
	x := 1
	if fail {
		return nil, errBad
	}
	return &x, nil
}

// T has methods of both kinds.
type T struct{}

// SafeOk never returns a nil pointer.
func (T) SafeOk(k int) (*int, bool) {
	if k > 0 {
		return &k, true
	}
	return new(int), false
}

// UnsafeOk returns a nil pointer together with false.
func (T) UnsafeOk(k int) (*int, bool) {
	if k > 0 {
		return &k, true
	}
	return nil, false
}

// Annotated never returns nil today, but its author declares that it may.
//
// nilable(result 0)
func Annotated() (*int, error) {
	return new(int), nil
}

// Generic never returns a nil pointer.
func Generic[V any](v V) (*V, error) {
	return &v, nil
}

// Local is the same-package baseline: no finding here, before and after.
func Local() int {
	p, _ := Safe(false)
	return *p
}
