// Package p: functions for which contract(nonnil -> nonnil) is inferred and whose single result
// implements `error`, so that their return statements are consumed as "error result".
package p

type MyErr struct{ code int }

func (*MyErr) Error() string { return "" }

// W has a pointer result that implements error.
func W(x *int) *MyErr {
	if x == nil {
		return nil
	}
	return &MyErr{}
}

// W2 is W with a second parameter: no contract is inferred (reference).
func W2(x *int, _ int) *MyErr {
	if x == nil {
		return nil
	}
	return &MyErr{}
}

// E has parameter and result of type error.
func E(x error) error {
	if x == nil {
		return nil
	}
	return &MyErr{}
}

// Id returns its parameter: the nilability of the error result is not known inside Id.
func Id(x *MyErr) *MyErr { return x }

func useWLit() int {
	return W(nil).code // line 37: must be reported //REPORT
}

func useWVar() int {
	var p *int
	r := W(p)
	return r.code // line 43: must be reported //REPORT
}

func useW2() int {
	return W2(nil, 0).code // line 47: reported (reference, no contract) //REPORT
}

func useELit() string {
	return E(nil).Error() // line 51: must be reported //REPORT
}

func useIdLit() int {
	return Id(nil).code // line 55: must be reported //REPORT
}

// Non-nil arguments: the contract applies, nothing may be reported below this line.

func okW() int {
	x := 1
	return W(&x).code // line 62: must NOT be reported //SILENT
}

func okWVar(p *int) int {
	if p == nil {
		return 0
	}
	r := W(p)
	return r.code // line 70: must NOT be reported //SILENT
}

func okE() string {
	return E(&MyErr{}).Error() // line 74: must NOT be reported //SILENT
}

func okId() int {
	return Id(&MyErr{}).code // line 78: must NOT be reported //SILENT
}
