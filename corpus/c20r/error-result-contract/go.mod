module ex.com/errresultcontract

go 1.23
