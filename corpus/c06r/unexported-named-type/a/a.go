package a

// list is an unexported named slice type: its deep nilability is one site, keyed by the type
// name. Values of the type are handed to other packages by Get.
type list []*int

// Get hands values of the unexported type to other packages.
func Get() list { return make(list, 1) }

// fill stores nil into an element: a definite nil source for the deep site of list.
func fill(l list) {
	l[0] = nil //REPORT
}

// quiet is never given a nil element anywhere: no diagnostic must mention it.
type quiet []*int

// GetQuiet hands values of quiet to other packages.
func GetQuiet() quiet { i := 0; return quiet{&i} }
