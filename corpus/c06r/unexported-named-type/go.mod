module ex.com/unt

go 1.23
