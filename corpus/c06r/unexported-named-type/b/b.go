package b

import "ex.com/unt/a"

// Use dereferences an element of a value of type a.list: a definite non-nil requirement on the
// deep site of a.list, which has a definite nil source in package a.
func Use() int {
	l := a.Get()
	return *l[0] // must be reported //REPORT
}

// UseQuiet is the control: nothing nil ever reaches the deep site of a.quiet.
func UseQuiet() int {
	q := a.GetQuiet()
	return *q[0] // must not be reported
} //SILENT
