package rb

import "ex.com/unt/ra"

// Poison is a definite nil source for the deep site of ra.list.
func Poison() {
	l := ra.Get()
	l[0] = nil //REPORT
}
