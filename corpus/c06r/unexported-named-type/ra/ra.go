package ra

type list []*int

// Get hands values of the unexported type to other packages.
func Get() list { return make(list, 1) }

// first is a definite non-nil requirement on the deep site of list.
func first(l list) int { return *l[0] } // must be reported (the nil source is in package rb) //REPORT
