module ex.com/errext

go 1.23
