// Package errext is the demonstration input for property C09: an in-scope interface that extends
// the predeclared `error` interface with methods of its own. Nil must flow through dynamic
// dispatch on those methods in both directions, exactly as for any other interface.
package errext

// Info is the structured payload of a Failure.
type Info struct{ Msg string }

// Failure is an error that carries structured details. Its method set, in the order go/types
// keeps it (sorted by name), is: Error (of the universe, no package), Meta, With.
type Failure interface {
	error
	Meta() *Info
	With(extra *Info) string
}

type notFound struct{}

func (*notFound) Error() string { return "not found" }

func (*notFound) Meta() *Info { return nil }

func (*notFound) With(extra *Info) string {
	return extra.Msg //REPORT
}

func lookup() Failure { return &notFound{} }

// describe dereferences the result of an interface method whose only implementation returns nil.
func describe() string {
	f := lookup()
	return f.Meta().Msg //REPORT
}

// annotate passes nil through a parameter of an interface method whose only implementation
// dereferences it.
func annotate() string {
	return lookup().With(nil)
}

// Coded is the control: the same shape, but its own method sorts before "Error". It is reported
// with and without the change.
type Coded interface {
	error
	Code() *int
}

type teapot struct{}

func (*teapot) Error() string { return "teapot" }

func (*teapot) Code() *int { return nil }

func brew() Coded { return &teapot{} }

func status() int {
	return *brew().Code() //REPORT
}
