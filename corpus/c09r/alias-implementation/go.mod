module ex.com/aliasimpl

go 1.23
