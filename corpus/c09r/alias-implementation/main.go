package main

type I1 interface{ Get() *int }
type I2 interface{ Get() *int }
type I3 interface{ Get() *int }

type S struct{}

func (*S) Get() *int { return nil }

type V struct{}

func (V) Get() *int { return nil }

type T = S  // alias below the pointer
type P = *S // alias around the pointer
type W = V  // alias of a value-receiver implementation

func via1(i I1) int { return *i.Get() } // line 19: must be reported //REPORT
func via2(i I2) int { return *i.Get() } // line 20: must be reported //REPORT
func via3(i I3) int { return *i.Get() } // line 21: must be reported //REPORT

func main() {
	var t *T = &T{}
	var p P = &S{}
	var w W
	println(via1(t))
	println(via2(p))
	println(via3(w))
}
