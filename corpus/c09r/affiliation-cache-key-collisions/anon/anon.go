// Package anon: two conversions of *S to two different unnamed interface types.
package anon

type S struct{}

func (*S) Get() *int { return nil }

func F(s *S) int {
	var i interface{ Get() *int } = s // first conversion: harmless
	if i == nil {
		return 0
	}
	return 1
}

func G(s *S) int {
	var j interface{ Get() *int } = s // second conversion, to another unnamed interface type
	return *j.Get()                   // line 18: must be reported //REPORT
}
