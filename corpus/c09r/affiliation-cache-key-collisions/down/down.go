// Package down converts *up.S to another unnamed interface type.
package down

import "ex.com/cachekey/up"

func G(s *up.S) int {
	var j interface{ Get() *int } = s
	return *j.Get() // line 8: must be reported //REPORT
}
