// Package up converts *S to an unnamed interface type; the pair is exported to downstream packages.
package up

type S struct{}

func (*S) Get() *int { return nil }

func F(s *S) int {
	var i interface{ Get() *int } = s
	if i == nil {
		return 0
	}
	return 1
}
