module ex.com/cachekey

go 1.23
