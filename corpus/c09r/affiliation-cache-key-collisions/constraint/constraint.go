// Package constraint: a type parameter whose constraint I embeds J; the first method of I's method
// set is J's.
package constraint

type J interface{ A() *int }

type I interface {
	J
	B() *int
}

type S struct{}

func (*S) A() *int { x := 1; return &x }
func (*S) B() *int { return nil }

func useJ(j J) int { return *j.A() } // line 17: must NOT be reported //SILENT

func F[T I](x T) int { return *x.B() } // line 19: must be reported //REPORT

func Use() int {
	s := &S{}
	return useJ(s) + F(s)
}
