// Package local: two function-local types with the same name embedding different implementations.
package local

type I interface{ Get() *int }

type A struct{}

func (*A) Get() *int { x := 1; return &x }

type B struct{}

func (*B) Get() *int { return nil }

func f() I {
	type L struct{ *A }
	return L{&A{}}
}

func g() I {
	type L struct{ *B }
	return L{&B{}}
}

func Use() int {
	x := *f().Get() // line 25: must NOT be reported //SILENT
	y := *g().Get() // line 26: must be reported //REPORT
	return x + y
}
