package main

import (
	"ex.com/cachekey/anon"
	"ex.com/cachekey/constraint"
	"ex.com/cachekey/down"
	"ex.com/cachekey/local"
	"ex.com/cachekey/up"
)

func main() {
	println(anon.F(&anon.S{}), up.F(&up.S{}))
	println(anon.G(&anon.S{}), local.Use(), down.G(&up.S{}), constraint.Use())
}
