package clean

type I interface{ M() *int }

type S struct{}

var v = 1

func (S) M() *int { return &v }

type T struct{}

func (T) M() *int { return nil }

func use(i I) int { return *i.M() }

var mk = func() I { return S{} }

// Same shapes, but the implementation used as an I never returns nil. T is returned from a function
// literal inside a function whose own result is I, yet T itself is never converted to I.
func F() I {
	f := func() int { return use(S{}) }
	g := func() T { return T{} }
	_ = g
	_ = f() + use(mk())
	return S{}
}
