module ex.com/funclit

go 1.23
