package arg

type I interface{ M() *int }

type S struct{}

func (S) M() *int { return nil }

func use(i I) int { return *i.M() } //REPORT

// The only conversion S -> I is at the argument of a call inside a function literal.
func F() int {
	f := func() int { return use(S{}) }
	return f()
}
