package ret

type I interface{ M() *int }

type S struct{}

func (S) M() *int { return nil }

func use(i I) int { return *i.M() } //REPORT

// The only conversion S -> I is at the return statement of a function literal; the enclosing
// function has results of other types (string, int), which must not be matched against it.
func F() (string, int) {
	mk := func() I { return S{} }
	return "", use(mk())
}
