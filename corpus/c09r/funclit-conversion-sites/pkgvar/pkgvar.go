package pkgvar

type I interface{ M() *int }

type S struct{}

func (S) M() *int { return nil }

func use(i I) int { return *i.M() } //REPORT

// The function literal (with a return statement) is in the initializer of a package-level variable.
var mk = func() I { return S{} }

func F() int { return use(mk()) }
