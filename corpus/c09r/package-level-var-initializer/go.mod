module ex.com/pkgvarinit

go 1.23
