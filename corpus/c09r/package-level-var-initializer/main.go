package main

type I interface{ Get() *int }
type J interface{ Get() *int }
type K interface{ Get() *int }

type S struct{}

func (*S) Get() *int { return nil }

type R struct{}

func (*R) Get() *int { return nil }

type Q struct{}

func (Q) Get() *int { return nil }

// typed declaration: *S -> I
var G I = &S{}

// composite literal in an initializer: *R -> J
var L = []J{&R{}}

// call argument in an initializer: Q -> K
var N = wrap(Q{})

func wrap(k K) []K { return []K{k} }

func useK(k K) int { return *k.Get() } // line 30: must be reported //REPORT

func main() {
	println(*G.Get()) // line 33: must be reported //REPORT
	for _, j := range L {
		println(*j.Get()) // line 35: must be reported //REPORT
	}
	println(useK(N[0]))
}
