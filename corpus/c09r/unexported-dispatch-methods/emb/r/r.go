package r

import "ex.com/unexp/emb/p"

// T implements p.I through the method m promoted from the embedded p.S.
type T struct{ p.S }

func F() int { return p.Use(T{}) }
