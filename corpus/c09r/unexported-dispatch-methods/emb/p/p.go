package p

type I interface{ m() *int }

type S struct{}

func (S) m() *int { return nil }

func Use(i I) int { return *i.m() } //REPORT
