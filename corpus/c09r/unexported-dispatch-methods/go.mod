module ex.com/unexp

go 1.23
