package q

import "ex.com/unexp/res/p"

// The only conversion p.S -> p.I is here, downstream of the package that declares the unexported method.
func F() int { return p.Use(p.S{}) }
