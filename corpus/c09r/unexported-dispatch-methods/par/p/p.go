package p

type I interface{ m(x *int) int }

type S struct{}

func (S) m(x *int) int { return *x } //REPORT

func Use(i I) int { return i.m(nil) } //REPORT
