package q

import "ex.com/unexp/par/p"

// nil is passed through the parameter of p.I.m (in p.Use) and dereferenced in p.S.m.
func F() int { return p.Use(p.S{}) }
