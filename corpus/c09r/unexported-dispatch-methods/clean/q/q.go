package q

import "ex.com/unexp/clean/p"

func F() int { return p.Use(p.S{}) }
