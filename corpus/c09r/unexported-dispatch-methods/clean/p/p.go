package p

type I interface {
	m() *int
	n(x *int) int
}

type S struct{}

var v = 1

func (S) m() *int { return &v }

func (S) n(x *int) int {
	if x == nil {
		return 0
	}
	return *x //SILENT
}

// Bad has a method m that returns nil, but it does not implement I (no method n) and is never
// converted to it.
type Bad struct{}

func (Bad) m() *int { return nil }

func Use(i I) int { return *i.m() + i.n(nil) } //SILENT
