package main

type J interface{ Get() *int }
type I interface{ Get() *int }

type S struct{}

func (*S) Get() *int { return nil }

// *S is converted to J only; the value then flows from J to I through the type assertion.
func f(j J) int {
	i, ok := j.(I)
	if !ok {
		return 0
	}
	return *i.Get() // line 16: must be reported //REPORT
}

type K interface{ Val() *int }
type L interface{ Val() *int }

type U struct{}

func (*U) Val() *int { x := 1; return &x }

type T struct{}

func (*T) Val() *int { return nil }

// *U (never nil) is converted to K only and *T (nil) to L only; the assertion carries values from K to
// L, never from L to K.
func g(k K) int {
	if l, ok := k.(L); ok {
		_ = l
	}
	return *k.Val() // line 36: must NOT be reported //SILENT
}

func h(l L) bool { return l.Val() == nil }

func main() {
	println(g(&U{}), h(&T{}))
	println(f(&S{}))
}
