module ex.com/ifaceassert

go 1.23
