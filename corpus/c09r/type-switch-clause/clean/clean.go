package clean

type J interface{ M() *int }
type I interface{ M() *int }

type S struct{}

var x = 1

func (S) M() *int { return &x }

// Same shape as ifaceclause, but the implementation never returns nil.
func F() int {
	var j J = S{}
	switch v := j.(type) {
	case I:
		return *v.M() //SILENT
	case *S:
		return *v.M() //SILENT
	}
	return 0
}
