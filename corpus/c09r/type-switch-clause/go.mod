module ex.com/typeswitch

go 1.23
