package ifaceclause

type J interface{ M() *int }
type I interface{ M() *int }

type S struct{}

func (S) M() *int { return nil }

// In the clause `case I`, v is of type I: the value flows from J to I, as in `v := j.(I)`.
func F() int {
	var j J = S{}
	switch v := j.(type) {
	case I:
		return *v.M() //REPORT
	}
	return 0
}
