package multiclause

type J interface{ M() *int }
type I interface{ M() *int }
type K interface{ M() *int }

type S struct{}

var x = 1

func (S) M() *int { return &x }

type T struct{}

func (T) M() *int { return nil }

func useI(i I) int { return *i.M() } //SILENT

// In the clause `case I, K`, v keeps the type J, so nothing flows from J to I here: T (whose M
// returns nil) is only ever used as a J, and only S (whose M never returns nil) is used as an I.
func F() int {
	var j J = T{}
	switch v := j.(type) {
	case I, K:
		if p := v.M(); p != nil {
			return *p //SILENT
		}
	}
	return useI(S{})
}
