module ex.com/complit

go 1.23
