package namedslice

type I interface{ M() *int }

type S struct{}

func (S) M() *int { return nil }

type IS []I

func use(i I) int { return *i.M() } //REPORT

// The literal is of a defined slice type: its type is spelled as an identifier.
func F() int {
	is := IS{S{}}
	return use(is[0])
}
