package namedarray

type I interface{ M() *int }

type S struct{}

func (S) M() *int { return nil }

type IA [1]I

func use(i I) int { return *i.M() } //REPORT

// The literal is of a defined array type.
func F() int {
	ia := IA{S{}}
	return use(ia[0])
}
