package clean

type I interface{ M() *int }

type S struct{}

var v = 1

func (S) M() *int { return &v }

type IS []I

type IM map[string]I

type IA [1]I

func use(i I) int { return *i.M() }

// Same literals as in the other packages, but the implementation never returns nil.
func F() int {
	is := IS{S{}}
	im := IM{"a": S{}}
	ia := IA{S{}}
	ix := []I{0: S{}}
	r := use(is[0]) + use(ia[0]) + use(ix[0])
	if v, ok := im["a"]; ok {
		r += use(v)
	}
	return r
}
