package namedmap

type I interface{ M() *int }

type S struct{}

func (S) M() *int { return nil }

type IM map[string]I

func use(i I) int { return *i.M() } //REPORT

// The literal is of a defined map type.
func F() int {
	im := IM{"a": S{}}
	if v, ok := im["a"]; ok {
		return use(v)
	}
	return 0
}
