package indexed

type I interface{ M() *int }

type S struct{}

func (S) M() *int { return nil }

func use(i I) int { return *i.M() } //REPORT

// The element of the slice literal is given with its index.
func F() int {
	is := []I{0: S{}}
	return use(is[0])
}
