module ex.com/variadicarg

go 1.23
