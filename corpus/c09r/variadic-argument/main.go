package main

type I interface{ Get() *int }
type J interface{ Get() *int }

type A struct{}

func (*A) Get() *int { x := 1; return &x }

type S struct{}

func (*S) Get() *int { return nil }

type R struct{}

func (*R) Get() *int { return nil }

func use(is ...I) int {
	n := 0
	for _, i := range is {
		n += *i.Get() // line 21: must be reported (*S -> I at `use(&S{})`) //REPORT
	}
	return n
}

type T struct{}

// a fixed parameter before the variadic one; the nil-returning implementation is the third argument
func (T) useJ(k int, js ...J) int {
	n := k
	for _, j := range js {
		n += *j.Get() // line 32: must be reported (*R -> J at `T{}.useJ(1, &A{}, &R{})`) //REPORT
	}
	return n
}

func main() {
	println(use(&S{}))
	println(T{}.useJ(1, &A{}, &R{}))
}
