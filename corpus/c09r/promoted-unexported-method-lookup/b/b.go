package b

import "ex.com/promotedunexported/a"

// S implements a.I through the unexported method a.Base.get promoted from the embedded struct.
type S struct{ a.Base }

func F() int {
	a.G = nil
	return *a.Use(S{}) // line 10: must be reported //REPORT
}
