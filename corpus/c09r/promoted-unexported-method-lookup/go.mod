module ex.com/promotedunexported

go 1.23
