package a

type I interface{ get() *int }

var G = new(int)

// Base implements I; the nilability of the result of get depends on the exported variable G.
type Base struct{}

func (Base) get() *int { return G }

// Get2 makes the result of Base.get observable through an exported site.
func Get2() *int { return Base{}.get() }

var H = new(int)

// E is another implementation of I, converted to I in this package.
type E struct{}

func (E) get() *int { return H }

func MkE() I { return E{} }

// Use makes the result of I.get observable through an exported site.
func Use(i I) *int { return i.get() }
