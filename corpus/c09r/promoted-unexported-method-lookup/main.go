package main

import "ex.com/promotedunexported/b"

func main() { println(b.F()) }
