module ex.com/returntuple

go 1.23
