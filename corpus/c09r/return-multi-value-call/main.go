package main

type I interface{ Get() *int }
type J interface{ Get() *int }

type A struct{}

func (*A) Get() *int { x := 1; return &x }

type S struct{}

func (*S) Get() *int { return nil }

type R struct{}

func (*R) Get() *int { return nil }

func pair() (*S, int) { return &S{}, 1 }

// the only conversion *S -> I is the forwarded result 0 of pair()
func mk() (I, int) { return pair() }

func triple() (int, *A, *R) { return 1, &A{}, &R{} }

// the only conversion *R -> J is the forwarded result 2 of triple()
func mk3() (n int, a, b J) { return triple() }

func main() {
	i, _ := mk()
	println(*i.Get()) // line 30: must be reported //REPORT
	_, _, k := mk3()
	println(*k.Get()) // line 32: must be reported //REPORT
}
