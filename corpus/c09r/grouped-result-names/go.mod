module ex.com/groupedresults

go 1.23
