package main

type I interface{ Get() *int }
type J interface{ Get() *int }

type A struct{}

func (*A) Get() *int { x := 1; return &x }

type S struct{}

func (*S) Get() *int { return nil }

type R struct{}

func (*R) Get() *int { return nil }

// one field declares both results; result 1 is the conversion *S -> I
func mk() (a, b I) { return &A{}, &S{} }

// the field index and the result index differ: result 2 is the conversion *R -> J
func mk3() (a, b I, c J) { return &A{}, &A{}, &R{} }

func main() {
	_, j := mk()
	println(*j.Get()) // line 26: must be reported //REPORT
	_, _, k := mk3()
	println(*k.Get()) // line 28: must be reported //REPORT
}
