// Package iface declares the interface; it knows neither implementations nor users.
package iface

type Store interface {
	Get() *int
	Put(x *int)
}
