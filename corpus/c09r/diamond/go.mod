module demo/diamond

go 1.23
