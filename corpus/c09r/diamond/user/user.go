// Package user uses the interface only: it dereferences the result of Get and passes nil to Put.
// It does not depend on impl or factory.
package user

import "demo/diamond/iface"

func Use(s iface.Store) int {
	s.Put(nil)
	return *s.Get() //REPORT
}
