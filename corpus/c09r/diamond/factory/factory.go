// Package factory holds the only conversion of impl.Mem to iface.Store.
package factory

import (
	"demo/diamond/iface"
	"demo/diamond/impl"
)

func New() iface.Store { return impl.Mem{} }
