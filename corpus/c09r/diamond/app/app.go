// Package main wires the two independent halves together: this program panics at run time
// (in impl.Mem.Put, and without the Put call in user.Use).
package main

import (
	"demo/diamond/factory"
	"demo/diamond/user"
)

func main() { println(user.Use(factory.New())) }
