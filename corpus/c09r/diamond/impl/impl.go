// Package impl declares an implementation of iface.Store (without mentioning the interface).
package impl

type Mem struct{}

// Get can return nil.
func (Mem) Get() *int { return nil }

// Put dereferences its parameter without a guard.
func (Mem) Put(x *int) { _ = *x } //REPORT
