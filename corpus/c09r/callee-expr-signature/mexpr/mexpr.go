package mexpr

type I interface{ M() *int }

type S struct{}

func (S) M() *int { return nil }

type W struct{}

func (W) Take(i I) int { return *i.M() } //REPORT

// The call is spelled as a method expression: the first argument is the receiver.
func F() int { return W.Take(W{}, S{}) }
