package namedfn

type I interface{ M() *int }

type S struct{}

func (S) M() *int { return nil }

func use(i I) int { return *i.M() } //REPORT

type Fn func(I) int

// The call goes through a value of a named function type.
func F() int {
	var f Fn = use
	return f(S{})
}
