package fval

type I interface{ M() *int }

type S struct{}

func (S) M() *int { return nil }

func use(i I) int { return *i.M() } //REPORT

// The call goes through a function value.
func F() int {
	f := use
	return f(S{})
}
