package clean

type I interface{ M() *int }

type S struct{}

var v = 1

func (S) M() *int { return &v }

type W struct{}

func (W) Take(i I) int { return *i.M() }

func use(i I) int { return *i.M() }

func Id[T any](t T) T { return t }

// Same shapes as in the other packages, but the implementation never returns nil.
func F() int {
	f := use
	i := Id[I](S{})
	return W.Take(W{}, S{}) + f(S{}) + *i.M()
}
