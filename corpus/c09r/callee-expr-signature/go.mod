module ex.com/calleesig

go 1.23
