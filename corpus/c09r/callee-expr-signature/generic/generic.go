package generic

type I interface{ M() *int }

type S struct{}

func (S) M() *int { return nil }

func Id[T any](t T) T { return t }

// The parameter type of the instantiated callee is I (not the type parameter T).
func G() int {
	i := Id[I](S{})
	return *i.M() //REPORT
}
