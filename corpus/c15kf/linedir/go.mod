module ex.com/linedir

go 1.23
