// Package linedir: generated code maps many places to one position of its template with `//line` directives; the calls of
// a contracted function are still call sites of their own, but their identity is the //line-ADJUSTED location (finding
// F111): the verdict of the first call is read back for the second.
package linedir

// contract(nonnil -> nonnil)
func id(p *int) *int {
	if p == nil {
		return nil
	}
	return p
}

func plain() int {
	x := new(int)
	a := id(nil)
	_ = a
	b := id(x)
	return *b //SILENT
}

func generated() int {
	x := new(int)
//line gen.tmpl:7
	a := id(nil)
	_ = a
//line gen.tmpl:7
	b := id(x)
	return *b //KNOWNFP:F111
}

func generatedNil() int {
	x := new(int)
//line gen.tmpl:40
	a := id(x)
	_ = a
//line gen.tmpl:40
	b := id(nil)
	return *b //REPORT
}
