package use

import "ex.com/objpath/dep"

func G(x *dep.Ä) int {
	return *x.P
}
