package dep

// nilable(P)
type Ä struct{ P *int }

type a Ä

func keep(x *a) *int { return x.P }
