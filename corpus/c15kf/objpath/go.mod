module ex.com/objpath

go 1.22
