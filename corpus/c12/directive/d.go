package c12b3

//nilaway:skipfile   (after the package clause: not a leading comment, the file stays in scope)

func derefD() int {
	var p *int
	return *p // line 7: MUST be reported (control) //REPORT
}
