//nilaway:skipfile

package c12b3

func derefA() int {
	var p *int
	return *p // line 7: must NOT be reported (leading comment contains "nilaway:skipfile") //SILENT
}
