// nilaway:skipfile

package c12b3

func derefB() int {
	var p *int
	return *p // line 7: must NOT be reported //SILENT
}
