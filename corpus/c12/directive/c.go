// Package c12b3 has a go:generate line, which is directive-shaped as well.

//go:generate mockgen -source=c.go

package c12b3

func derefC() int {
	var p *int
	return *p // line 9: must NOT be reported with -exclude-file-docstrings=...,go:generate mockgen //SILENT
}
