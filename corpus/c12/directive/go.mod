module ex.com/c12b3

go 1.23
