module ex.com/c12b1

go 1.23
