// Package c12b1 is the regression input of the templ exemption.

package c12b1

func derefPlain() int {
	var p *int
	return *p // line 7 //REPORT
}
