module ex.com/c12b2

go 1.23
