package c12b2

import "ex.com/c12b2/lib"

func callerReadsResult() int {
	b := give()
	return *b.p // line 7 //SILENT
}

func callerPasses() int {
	return use(&box{}) // line 11 //SILENT
}

func callerFilled() int {
	b := &box{p: new(int)}
	fill(b)
	return *b.p // line 17 //SILENT
}

func callerReadsImported() int {
	b := lib.Give()
	return *b.P // line 22 //SILENT
}

// control: a nil source in an in-scope file must still be reported.
func control() int {
	var p *int
	return *p // line 28 //REPORT
}
