// Package iface declares the interface; implementations and conversions live elsewhere.
package iface

type T struct{ V int }

type Store interface {
	Get() *T
	Put(v *T) int
}
