module ex.com/c09

go 1.23
