// Package app2 imports wire (where v1.Impl -> Store was seen) and converts v2.Impl itself.
package app2

import (
	"ex.com/c09/iface"
	v2 "ex.com/c09/v2/store"
	"ex.com/c09/wire"
)

func use2(s iface.Store) int {
	return s.Get().V //REPORT
}

func Run() int {
	return use2(wire.New()) + use2(&v2.Impl{})
}
