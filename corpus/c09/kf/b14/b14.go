// Package b14: a type assertion to a WIDER interface. The static type J of the asserted value does not have the method N,
// so no conversion site links an implementation of N to I.N: which concrete types implement I is only known at run time.
package b14

type J interface{ M() *int }
type I interface {
	M() *int
	N() *int
}
type S struct{}

var v = 1

func (S) M() *int { return &v }
func (S) N() *int { return nil }

func F() int {
	var j J = S{}
	return *j.(I).N() //KNOWN:F103
}

func G() int {
	var a any = S{}
	return *a.(I).N() //KNOWN:F103
}
