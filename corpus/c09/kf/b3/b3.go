// Package b3: conversion at a return statement of a function with grouped results (a, b I).
package b3

type I interface{ M() *int }
type S struct{}

func (S) M() *int { v := 1; return &v }

type T struct{}

func (T) M() *int { return nil }

func mk() (a, b I) {
	return S{}, T{}
}

func F() int {
	_, b := mk()
	return *b.M() //REPORT
}
