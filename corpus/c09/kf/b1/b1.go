// Package b1: type assertion from one interface to another, unrelated one.
package b1

type I interface{ M() *int }
type J interface{ M() *int }
type S struct{}

func (S) M() *int { return nil }

func F() int {
	var i I = S{}
	j := i.(J)
	return *j.M() //REPORT
}
