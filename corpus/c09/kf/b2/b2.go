// Package b2: conversion in a package-level variable declaration.
package b2

type I interface{ M() *int }
type S struct{}

func (S) M() *int { return nil }

var G I = S{}

func F() int {
	return *G.M() //REPORT
}
