// Package b4: two different anonymous interfaces and the same concrete type share the affiliation cache key.
package b4

type S struct{}

func (S) A() *int { v := 1; return &v }
func (S) B() *int { return nil }

func F() int {
	var a interface{ A() *int } = S{}
	var b interface{ B() *int } = S{}
	r := *a.A()
	r += *b.B() //REPORT
	return r
}
