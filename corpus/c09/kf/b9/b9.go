// Package b9: conversion in a slice literal with elided element type.
package b9

type I interface{ M() *int }
type T struct{}

func (*T) M() *int { return nil }

type Holder struct{ F I }

func F() int {
	hs := []Holder{{F: &T{}}}
	return *hs[0].F.M() //REPORT
}
