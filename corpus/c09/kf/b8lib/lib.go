// Package b8lib declares a struct with an interface field.
package b8lib

type I interface{ M() *int }
type T struct{}

func (*T) M() *int { return nil }

type Holder struct{ F I }
