// Package b7: the converted value has an alias type.
package b7

type I interface{ M() *int }
type S struct{}
type A = S

func (S) M() *int { return nil }

func F() int {
	var a A
	var i I = a
	return *i.M() //REPORT
}
