// Package b8: conversion in a field of a composite literal of a struct type of another package.
package b8

import "ex.com/c09/kf/b8lib"

func F() int {
	h := b8lib.Holder{F: &b8lib.T{}}
	return *h.F.M() //REPORT
}
