// Package b5: conversion at a channel send.
package b5

type I interface{ M() *int }
type S struct{}

func (S) M() *int { return nil }

func F() int {
	ch := make(chan I, 1)
	ch <- S{}
	i := <-ch
	return *i.M() //KNOWN:F41-b5
}
