// Package wire witnesses the first conversion (v1) upstream of app2.
package wire

import (
	"ex.com/c09/iface"
	v1 "ex.com/c09/v1/store"
)

func New() iface.Store { return &v1.Impl{} }
