// Package app converts both same-named implementations (same-named packages) to the interface.
package app

import (
	"ex.com/c09/iface"
	v1 "ex.com/c09/v1/store"
	v2 "ex.com/c09/v2/store"
)

func use(s iface.Store) int {
	r := s.Get().V //REPORT
	r += s.Put(nil)
	return r
}

func Run() int {
	a := use(&v1.Impl{})
	b := use(&v2.Impl{})
	return a + b
}
