// Package store (v2): returns nil and dereferences its parameter.
package store

import "ex.com/c09/iface"

type Impl struct{}

func (i *Impl) Get() *iface.T      { return nil }
func (i *Impl) Put(v *iface.T) int { return v.V } //REPORT
