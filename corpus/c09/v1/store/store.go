// Package store (v1): same package name and type name as v2/store; never returns nil, ignores its parameter.
package store

import "ex.com/c09/iface"

type Impl struct{}

func (i *Impl) Get() *iface.T      { return &iface.T{} }
func (i *Impl) Put(v *iface.T) int { return 0 }
