// Package a holds regression programs for repaired findings of property C20 (contracts). A function named Bad* must be
// reported inside its body (each of them panics when run), a function named Ok* must not.
package a

import (
	"errors"
	"os"
)

type S struct{ v int }

var G *S

func g() *S { return G }

func c() bool { return len(os.Args) > 5 }

// contracted: nonnil -> nonnil
func (s *S) clone(x *S) *S {
	if x == nil {
		return nil
	}
	return &S{v: x.v + s.v}
}

// contracted: nonnil -> nonnil
func local(x *S) *S {
	if x == nil {
		return nil
	}
	return &S{v: x.v}
}

// returns a nilable value with an error whose nilness the analysis cannot decide before its second pass
func h() (*S, error) {
	x := g()
	var err error
	if c() {
		err = errors.New("e")
	}
	return x, err
}

// F27: the path around the outer `if` knows nothing about r; no contract may be inferred for e1
func e1(p *S) *S {
	r := g()
	if c() {
		if p != nil {
			r = &S{}
		} else {
			r = nil
		}
	}
	return r
}

// BadF27 dereferences e1(non-nil), which is g() = nil when c() is false.
func BadF27() int {
	x := &S{}
	r := e1(x)
	return r.v
}

// BadF28 passes the possibly-nil result of h to the contracted local: the controlling call-site parameter is decided
// only in the second inference pass.
func BadF28() int {
	v, err := h()
	if err != nil {
		return 0
	}
	r := local(v)
	return r.v
}

// BadF29 calls the contracted method through a method expression: the argument is the last one, not the first.
func BadF29() int {
	s := &S{}
	x := g()
	r := (*S).clone(s, x)
	return r.v
}

// BadMethodCall is the ordinary spelling of BadF29.
func BadMethodCall() int {
	s := &S{}
	x := g()
	r := s.clone(x)
	return r.v
}

// OkNonNilArgs passes non-nil arguments to the contracted functions: nothing to report.
func OkNonNilArgs() int {
	s := &S{}
	r := (*S).clone(s, &S{})
	q := local(&S{})
	t := s.clone(&S{})
	return r.v + q.v + t.v
}

var sentinel S

// F42: differing from a non-nil value does not make p nil; no contract may be inferred for norm
func norm(p *S) *S {
	if p != &sentinel {
		return nil
	}
	return p
}

// BadF42 dereferences norm(non-nil), which is nil.
func BadF42() int {
	r := norm(&S{})
	return r.v
}

// the same with the known non-nil operand written on the LEFT, and with `==` (the branches exchanged): the operand
// order must not matter to what is learnt on either edge
func normLeft(p *S) *S {
	if &sentinel != p {
		return nil
	}
	return p
}

// BadF42Left dereferences normLeft(non-nil), which is nil.
func BadF42Left() int {
	r := normLeft(&S{})
	return r.v
}

func normEqLeft(p *S) *S {
	if &sentinel == p {
		return p
	}
	return nil
}

// BadF42EqLeft dereferences normEqLeft(non-nil), which is nil.
func BadF42EqLeft() int {
	r := normEqLeft(&S{})
	return r.v
}

// F43: append(t, s...) is nil for a nil t and an empty s; no contract may be inferred for dup
func dup(s []*S) []*S {
	if s == nil {
		return nil
	}
	var t []*S
	return append(t, s...)
}

// BadF43 indexes dup(non-nil empty), which is nil.
func BadF43() *S {
	r := dup([]*S{})
	return r[0]
}

// contracted: append with explicit elements is never nil
func withElem(s []*S) []*S {
	if s == nil {
		return nil
	}
	var t []*S
	return append(t, &S{})
}

// OkAppendElems relies on the contract of withElem.
func OkAppendElems() *S {
	r := withElem([]*S{})
	return r[0]
}

func count() int { return len(os.Args) }

// F44 (parallel phis): b receives the OLD a in every iteration; no contract may be inferred for swapIn
func swapIn(p *S) *S {
	if p == nil {
		return nil
	}
	var a *S
	b := p
	for i := 0; i < count(); i++ {
		a, b = p, a
	}
	return b
}

// BadF44Swap dereferences swapIn(non-nil), which is nil after one iteration.
func BadF44Swap() int {
	r := swapIn(&S{})
	return r.v
}

// F44 (stale facts): v is computed again in the second iteration; no contract may be inferred for again
func again(p *S) *S {
	if p == nil {
		return nil
	}
	var s *S
	for {
		v := g()
		if s != nil {
			return v
		}
		if v == nil {
			return p
		}
		s = p
	}
}

// BadF44Stale dereferences again(non-nil), which is g() of the second iteration.
func BadF44Stale() int {
	r := again(&S{})
	return r.v
}

// F45 (not-equal edge of two non-nil operands): a != b is always true here; no contract may be inferred
func distinct(p *S) *S {
	a, b := new(S), new(S)
	if p == nil || a != b {
		return nil
	}
	return p
}

// BadF45 dereferences distinct(non-nil), which is nil.
func BadF45() int {
	r := distinct(&S{})
	return r.v
}

// F80 (known): an interface value made from a nil pointer is not nil; the inference learns "q is non-nil" from
// `i != nil` with i = MakeInterface(q), infers contract(nonnil -> nonnil), and typedNil(non-nil) returns nil
type iface80 interface{ m80() int }

func (s *S) m80() int { return s.v }

func find80() *S {
	if count() == 0 {
		return nil
	}
	return &S{}
}

func typedNil(x *S) *S {
	if x == nil {
		return nil
	}
	q := find80()
	var i iface80 = q
	if i != nil {
		return q
	}
	return &S{}
}

// KnownF80TypedNil dereferences typedNil(non-nil), which is nil whenever find80() is.
func KnownF80TypedNil() int {
	r := typedNil(&S{})
	return r.v
}

// a contracted METHOD called with the literal nil through a selector: the call is trackable, its result site is located at
// the method's identifier (not at the receiver): producer, duplicated triggers and the tracked call must agree on it
func (s *S) pick(p *S) *S {
	if p == nil {
		return nil
	}
	return p
}

// BadMethodLit dereferences s.pick(nil), which is nil.
func BadMethodLit() int {
	s := &S{}
	r := s.pick(nil)
	return r.v
}

// BadMethodChain: the second call of the chain gets the nil.
func BadMethodChain() int {
	s := &S{}
	r := s.pick(s).pick(nil)
	return r.v
}

// OkMethodChain: both calls of the chain get a non-nil argument.
func OkMethodChain() int {
	s := &S{}
	r := s.pick(s).pick(s)
	return r.v
}
