module ex.com/c20
go 1.22
