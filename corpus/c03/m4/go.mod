module ex.com/m4

go 1.23
