package b

import "ex.com/m4/a"

func cross() int {
	var p *a.T
	q := a.Id(p)
	return q.V
}

func cross2() int {
	return a.Id(nil).V
}

func crossOK() int {
	return a.Id(&a.T{}).V
}
