package a

type T struct{ V int }

// Id has an inferred nonnil->nonnil contract.
func Id(x *T) *T {
	if x == nil {
		return nil
	}
	return x
}

func Deref(x *T) *T {
	if x != nil {
		return x
	}
	return nil
}

func local() int {
	var p *T
	q := Id(p)
	return q.V
}

func local2() int {
	return Id(nil).V
}

func localOK() int {
	return Id(&T{}).V
}
