// Package use decides the nilability of lib's sites and dereferences what flows through them.
package use

import "ex.com/m12/lib"

func init() {
	lib.First = nil
	lib.Second = nil
	lib.Third = nil
}

func UseFirst() int  { return lib.GetFirst().V }        //REPORT
func UseSecond() int { return lib.GetSecond().V }       //REPORT
func UseThird() int  { return lib.GetThird().V }        //REPORT
func UseKeep() int   { return lib.Keep(nil, 0).V }      //REPORT
func UseKeepOK() int { return lib.Keep(&lib.T{}, 0).V } //SILENT
