// Package lib leaves its sites undetermined: whether they are nil-able is decided by its importers. Unexported
// helpers sit between the exported sites, so the fact of this package contains sites without an object path in
// front of, between and behind sites with one.
package lib

type T struct{ V int }

var First = &T{}

func first() *T { return First }

// GetFirst reads First through an unexported helper.
func GetFirst() *T { return first() }

var Second = &T{}

// GetSecond reads Second directly.
func GetSecond() *T { return Second }

func pick(a, b *T) *T {
	if a != nil {
		return a
	}
	return b
}

var Third = &T{}

// GetThird reads Third through a helper with two parameters.
func GetThird() *T { return pick(nil, Third) }

// Keep returns its first argument (the second parameter keeps contract inference away).
func Keep(p *T, n int) *T { return p }
