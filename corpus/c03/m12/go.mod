module ex.com/m12

go 1.23
