module ex.com/m11

go 1.23
