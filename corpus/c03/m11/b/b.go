package b

import "ex.com/m11/a"

func U() int { return a.C(nil).V }

func W() int { return a.D(nil).V }
