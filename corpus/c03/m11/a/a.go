package a

type T struct{ V int }

func id(x *T) *T {
	if x == nil {
		return nil
	}
	return x
}

// C forwards through a contracted helper.
func C(p *T) *T { return id(p) }

func plain(x *T) *T { return x }

// D forwards through a helper without a contract (identity is not contracted? it is: x->x)
func D(p *T) *T {
	q := p
	return q
}


