package a

type T struct{ V int }

func Use(x *T) int {
	return x.V
}
