module ex.com/m8

go 1.23
