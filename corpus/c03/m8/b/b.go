package b

import "ex.com/m8/a"

func Call() int {
	return a.Use(nil)
}
