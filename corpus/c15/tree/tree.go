// Package tree is the dependency. The two ends of its list are declared on one line.
package tree

// Node is a list node.
type Node struct {
	Val  int
	Next *Node
}

// Head and Tail are the two ends of the package-level list.
var Head, Tail = &Node{}, &Node{}

// Clear empties the list: Head and Tail are both learned to be nilable in this package, and the
// two verdicts are exported to importers.
func Clear() {
	Head = nil
	Tail = nil
}
