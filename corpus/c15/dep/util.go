package dep

func U() *T { return nil }
