package dep

func U() *T { return nil }

// the twin pair of U with the nilabilities exchanged: whichever of the two same-named, same-path objects an
// importer confuses, one of the marked uses loses its verdict
func W() *T { return &T{} }

// ... and a pair whose members are both nil-able, so that both are recorded in the facts of their packages
func X(b bool) *T {
	if b {
		return nil
	}
	return &T{}
}

// same-named types with same-named methods, fields and package-level variables in the two packages: equal object
// paths (Q.M0 / Q.F / GV) relative to different packages
// nilable(F)
type Q struct{ F *T }

func (Q) Get(b bool) *T {
	if b {
		return nil
	}
	return &T{}
}

func NewQ() *Q {
	q := &Q{}
	q.F = nil
	return q
}

var GV *T = nil
