// Package dep declares pairs of sites that print alike (same names) but differ in nilability.
package dep

type T struct{ V int }

type A struct{}
type B struct{}

// same-named methods on different types
func (A) Get() *T { return nil }
func (B) Get() *T { return &T{} }

// a method and a package-level function with the same name
type Box struct{}

func Value() *T          { return nil }
func (*Box) Value() *T   { return &T{} }
func Peek(p *T) *T       { return &T{} }
func (*Box) Peek() *T    { return nil }
func Both() *T           { return nil }
func (*Box) Both() *T    { return nil }
func Neither() *T        { return &T{} }
func (*Box) Neither() *T { return &T{} }

// same-named fields of different structs
// nilable(F)
type S1 struct{ F *T }
type S2 struct{ F *T }

func NewS1() *S1 {
	s := &S1{}
	s.F = nil
	return s
}
func NewS2() *S2 {
	s := &S2{}
	s.F = &T{}
	return s
}

// same-named parameters of different functions
func P1(x *T) int { return x.V } //REPORT
func P2(x *T) int { return x.V } //SILENT

// two results of one function
func Two() (*T, *T) { return nil, &T{} }

// package-level variables
var G1 *T = nil
var G2 *T = &T{}

// shallow versus deep: the slice itself is non-nil, its elements may be nil
func Elems() []*T { return []*T{nil} }
func Slice() []*T { return nil }
