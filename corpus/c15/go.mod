module ex.com/c15

go 1.23
