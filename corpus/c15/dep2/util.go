package dep2

type T struct{ V int }

func U() *T { return &T{} }
