package dep2

type T struct{ V int }

func U() *T { return &T{} }

func W() *T { return nil }

func X(b bool) *T {
	if b {
		return &T{}
	}
	return nil
}

// nilable(F)
type Q struct{ F *T }

func (Q) Get(b bool) *T {
	if b {
		return &T{}
	}
	return nil
}

func NewQ() *Q {
	q := &Q{}
	q.F = nil
	return q
}

var GV *T = nil
