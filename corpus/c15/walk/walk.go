// Package walk is the importer.
package walk

import "ex.com/c15/tree"

// First dereferences tree.Head, which package tree determined to be nilable: must be reported.
func First() int {
	return tree.Head.Val //REPORT
}

// Last dereferences tree.Tail, which package tree determined to be nilable: must be reported.
func Last() int {
	return tree.Tail.Val //REPORT
}
