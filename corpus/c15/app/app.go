package app

import (
	"ex.com/c15/dep"
	"ex.com/c15/dep2"
)

func MethodsOnDifferentTypes() int {
	a := dep.A{}.Get().V //REPORT
	b := dep.B{}.Get().V //SILENT
	return a + b
}

func MethodVersusFunction() int {
	bx := &dep.Box{}
	r := dep.Value().V //REPORT
	r += bx.Value().V //SILENT
	r += dep.Peek(&dep.T{}).V //SILENT
	r += bx.Peek().V //REPORT
	r += dep.Both().V //REPORT
	r += bx.Both().V //REPORT
	r += dep.Neither().V //SILENT
	r += bx.Neither().V //SILENT
	return r
}

func FieldsOfDifferentStructs() int {
	s1 := dep.NewS1()
	s2 := dep.NewS2()
	return s1.F.V + //REPORT
		s2.F.V //SILENT
}

func ParamsOfDifferentFunctions() int {
	return dep.P1(nil) + dep.P2(&dep.T{})
}

func TwoResults() int {
	x, y := dep.Two()
	r := x.V //REPORT
	r += y.V //SILENT
	return r
}

func Globals() int {
	r := dep.G1.V //REPORT
	r += dep.G2.V //SILENT
	return r
}

func SameNamedFiles() int {
	r := dep.U().V //REPORT
	r += dep2.U().V //SILENT
	return r
}

func SameObjectPathInTwoDependencies() int {
	r := dep.W().V //SILENT
	r += dep2.W().V //REPORT
	r += dep.X(true).V //REPORT
	r += dep2.X(true).V //REPORT
	r += dep.Q{}.Get(true).V //REPORT
	r += dep2.Q{}.Get(true).V //REPORT
	r += dep.NewQ().F.V //REPORT
	r += dep2.NewQ().F.V //REPORT
	r += dep.GV.V //REPORT
	r += dep2.GV.V //REPORT
	return r
}
