// Package a holds hand-written annotated programs for C10. Each function's expectation is in its name:
// funcs named Report* must produce at least one diagnostic located inside them, funcs named Silent* none.
package a

type T struct{ V int }

// nilable(p)
func ReportNilableParamDeref(p *T) int { return p.V }

// nilable(p)
func SilentNilableParamGuarded(p *T) int {
	if p != nil {
		return p.V
	}
	return 0
}

// nonnil(result 0)
func ReportNonnilResultReturnsNil(c bool) *T {
	if c {
		return nil
	}
	return &T{}
}

// nilable(result 0)
func nilableResult() *T { return nil }

func ReportNilableResultDeref() int { return nilableResult().V }

func SilentNilableResultGuarded() int {
	if r := nilableResult(); r != nil {
		return r.V
	}
	return 0
}

// nonnil(p)
func takesNonnil(p *T) int { return p.V }

func ReportNilIntoNonnilParam() int { return takesNonnil(nil) }

// nilable(q, r)
func ReportSecondOfTwoNames(q *T, r *T) int {
	if q == nil {
		return 0
	}
	return q.V + r.V
}

// nilable(G)
var G *T

func ReportNilableGlobalDeref() int { return G.V }

func SilentNilableGlobalGuarded() int {
	if G != nil {
		return G.V
	}
	return 0
}

// nilable(F)
type S struct {
	F *T
}

func ReportNilableFieldDeref(s *S) int {
	if s == nil {
		return 0
	}
	return s.F.V
}

func SilentNilableFieldGuarded(s *S) int {
	if s == nil || s.F == nil {
		return 0
	}
	return s.F.V
}

// nilable(t)
func (t *T) ReportNilableReceiverDeref() int { return t.V }

// the annotation must not be overridden by inference: all callers pass non-nil, yet the deref is reported
// nilable(p)
func reportAnnotatedDespiteNonnilCallers(p *T) int { return p.V }

func callsWithNonnil() int { return reportAnnotatedDespiteNonnilCallers(&T{}) }
