package a

// Annotations on package-level variables in every declaration form: explicit type, type left to the initializer,
// several names in one spec, grouped declarations, deep annotations.

func dial() *T { return &T{} }

func two() (*T, *T) { return &T{}, &T{} }

// nilable(fallback)
var fallback = dial()

func ReportTypelessNilableGlobal() int { return fallback.V }

func SilentTypelessNilableGlobalGuarded() int {
	if fallback != nil {
		return fallback.V
	}
	return 0
}

// nonnil(primary)
var primary = dial()

func ReportNilIntoTypelessNonnilGlobal() { primary = nil }

// nilable(left)
var left, right = two()

func ReportFirstOfTwoTypelessGlobals() int { return left.V + right.V }

var (
	// nilable(grouped)
	grouped = dial()
	// nilable(groupedTyped)
	groupedTyped *T = dial()
)

func ReportGroupedTypelessGlobal() int { return grouped.V }

func ReportGroupedTypedGlobal() int { return groupedTyped.V }

// nilable(table[])
var table = map[string]*T{}

func ReportDeepTypelessGlobal() int { return table["k"].V }
