package a

// Annotations naming identifiers outside [a-zA-Z][a-zA-Z0-9]* (regression programs of the repaired finding F32).

// nilable(my_ptr)
func ReportUnderscoreName(my_ptr *T) int { return my_ptr.V }

// nilable(a, b_2)
func ReportListWithUnderscoreName(a *T, b_2 *T) int {
	if b_2 == nil {
		return 0
	}
	return a.V + b_2.V
}

// nilable(_p)
func ReportLeadingUnderscore(_p *T) int { return _p.V }

// nilable(größe)
func ReportUnicodeName(größe *T) int { return größe.V }

// nilable(my_ptr)
func SilentUnderscoreNameGuarded(my_ptr *T) int {
	if my_ptr == nil {
		return 0
	}
	return my_ptr.V
}

// nonnil(x_1)
func takesNonnilUnderscore(x_1 *T) int { return x_1.V }

func ReportNilIntoNonnilUnderscore() int { return takesNonnilUnderscore(nil) }
