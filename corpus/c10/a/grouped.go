package a

// Grouped declarations, with and without a doc comment on the group itself, annotations on the specs.

// Shapes. (This comment documents the whole group.)
type (
	// nilable(A)
	G1 struct {
		A *T
		B *T
	}

	// nilable(B)
	G2 struct {
		A *T
		B *T
	}
)

type (
	// nilable(A)
	H1 struct {
		A *T
	}
	// nilable(A)
	H2 struct {
		A *T
	}
)

// A parenthesised group with a single spec and a group comment.
type (
	// nilable(A)
	K1 struct {
		A *T
	}
)

func ReportGroupedFirstSpecField(x *G1) int {
	if x == nil {
		return 0
	}
	return x.A.V
}

func ReportGroupedSecondSpecField(x *G2) int {
	if x == nil {
		return 0
	}
	return x.B.V
}

func SilentGroupedUnannotatedFields(x *G1, y *G2) int {
	if x == nil || y == nil || x.B == nil || y.A == nil {
		return 0
	}
	return x.B.V + y.A.V
}

func ReportUndocumentedGroupFirst(x *H1) int {
	if x == nil {
		return 0
	}
	return x.A.V
}

func ReportUndocumentedGroupSecond(x *H2) int {
	if x == nil {
		return 0
	}
	return x.A.V
}

func ReportSingleSpecGroup(x *K1) int {
	if x == nil {
		return 0
	}
	return x.A.V
}

// Package-level state. (This comment documents the whole group.)
var (
	// nilable(cacheG)
	cacheG *T = &T{}

	// nilable(otherG)
	otherG *T = &T{}
)

var (
	// nilable(plainG)
	plainG *T = &T{}
)

func ReportGroupedGlobalFirst() int { return cacheG.V }

func ReportGroupedGlobalSecond() int { return otherG.V }

func ReportUndocumentedGroupGlobal() int { return plainG.V }

func SilentGroupedGlobalGuarded() int {
	if cacheG != nil {
		return cacheG.V
	}
	return 0
}

/* nilable(p) */
func ReportBlockCommentAnnotation(p *T) int { return p.V }

// nilable(q), nonnil(result 0)
func ReportSecondKeywordSameLine(p *T, q *T) *T {
	if q.V > 0 {
		return p
	}
	return p
}

// nilable(a, b)
func ReportSecondNameInList(a *T, b *T) int {
	if a == nil {
		return 0
	}
	return b.V
}
