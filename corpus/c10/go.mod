module ex.com/c10

go 1.23
