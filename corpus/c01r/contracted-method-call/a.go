// Package a: a method for which contract(nonnil -> nonnil) is inferred, called through a selector with the literal nil
// (a trackable call), with a variable, directly dereferenced, and in a chain: the nil it returns must reach the dereference.
package a

type S struct{ v int }

func (s *S) pick(p *S) *S {
	if p == nil {
		return nil
	}
	return p
}

func MethodLit() int {
	s := &S{}
	r := s.pick(nil)
	return r.v //REPORT
}

func MethodVar() int {
	s := &S{}
	var p *S
	r := s.pick(p)
	return r.v //REPORT
}

func MethodDirect() int {
	s := &S{}
	return s.pick(nil).v //REPORT
}

func MethodChain() int {
	s := &S{}
	r := s.pick(s).pick(nil)
	return r.v //REPORT
}

func MethodOk() int {
	s := &S{}
	r := s.pick(s).pick(s)
	return r.v //SILENT
}
