module ex.com/cmc

go 1.23
