package main

type T struct{ f int }

func (t *T) set(p *int) { t.f = *p } //REPORT

func (t *T) ok() {}

func deref(p *int) { _ = *p } //REPORT

func derefOK(p *int) { _ = *p } //SILENT

func cond() bool { return true }

func arg() {
	var p *int
	defer deref(p) // want: nil flows to the dereference at line 9 //REPORT
}

func methodArg(t *T) {
	defer t.set(nil) // want: nil flows to the dereference at line 5 //REPORT
}

func nilReceiver() {
	var t *T
	defer t.set(new(int)) // want: nil receiver, t.f is accessed at line 5 //REPORT
}

// Negative cases.

func assignedLater() { //SILENT
	p := new(int)
	defer derefOK(p) // p is evaluated here, where it is not nil
	p = nil
	_ = p
}

func checked(p *int) { //SILENT
	if p != nil {
		defer derefOK(p)
	}
	t := &T{}
	defer t.ok()
	defer func() {}()
}

func main() {
	arg()
	methodArg(&T{})
	nilReceiver()
	assignedLater()
	if cond() {
		checked(nil)
	}
}
