module ex.com/deferargs

go 1.23
