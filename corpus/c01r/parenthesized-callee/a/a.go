package a

func Deref(p *int) { _ = *p } //REPORT

func Nil() *int { return nil }
