module ex.com/parencallee

go 1.23
