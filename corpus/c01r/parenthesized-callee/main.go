package main

import "ex.com/parencallee/a"

type T struct{ f int }

func (t *T) get() *int { return nil }

func (t *T) use(p *int) { _ = *p } //REPORT

func deref(p *int) { _ = *p } //REPORT

func derefOK(p *int) { _ = *p } //SILENT

func mkNil() *int { return nil }

func mk() *int { return new(int) }

func two() (*int, *int) { return nil, new(int) }

func fwd() (*int, *int) {
	return (two)()
}

func main() {
	(deref)(nil)   // want: nil flows to the dereference at line 11 //REPORT
	_ = *(mkNil)() // want: nil //REPORT
	(a.Deref)(nil) // want: nil flows to the dereference at a/a.go:3 //REPORT
	_ = *(a.Nil)() // want: nil //REPORT
	t := &T{}
	_ = *(t.get)() // want: nil //REPORT
	(t.use)(nil)   // want: nil flows to the dereference at line 9 //REPORT
	x, _ := fwd()
	_ = *x // want: nil //REPORT

	// Negative cases.
	(derefOK)(new(int)) //SILENT
	(derefOK)((mk)()) //SILENT
	_ = *(mk)() //SILENT
}
