package main

func cond() bool { return true }

func deref(p *int) { _ = *p } //REPORT

func derefOK(p *int) { _ = *p } //SILENT

// The only way out of the loop is the panic of the dereference.
func ifInLoop() {
	var p *int
	for {
		if cond() {
			_ = *p // want: nil //REPORT
		}
	}
}

func beforeLoop() {
	var p *int
	_ = *p // want: nil //REPORT
	for {
		if cond() {
			continue
		}
	}
}

func switchInLoop(q *int) {
	for {
		switch {
		case cond():
			q = nil
		default:
			_ = *q // want: nil (q is set to nil in an earlier iteration) //REPORT
		}
	}
}

func nested() {
	var p *int
	for {
		for cond() {
			deref(p) // want: nil flows to the dereference at line 5 //REPORT
		}
	}
}

func gotoLoop() {
	var p *int
L:
	if cond() {
		_ = *p // want: nil //REPORT
	}
	goto L
}

func result() *int {
	var p *int
	for {
		if cond() {
			return p
		}
	}
}

// Negative cases.
 //SILENT
func checked() {
	var p *int
	for {
		if cond() {
			p = new(int)
		}
		if p != nil {
			_ = *p
		}
		derefOK(new(int))
	}
}
 //SILENT
func allocated() {
	p := new(int)
	for {
		if cond() {
			_ = *p
		} else {
			p = new(int)
		}
	}
}

func main() {
	if cond() {
		ifInLoop()
	}
	if cond() {
		beforeLoop()
	}
	if cond() {
		switchInLoop(new(int))
	}
	if cond() {
		nested()
	}
	if cond() {
		gotoLoop()
	}
	if cond() {
		checked()
	}
	if cond() {
		allocated()
	}
	_ = *result() // want: nil //REPORT
}
