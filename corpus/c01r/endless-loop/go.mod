module ex.com/endlessloop

go 1.23
