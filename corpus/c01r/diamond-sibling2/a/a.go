// Package a owns a package-level pointer and a getter for it.
package a

var g = new(int)

func Set(p *int) { g = p }

func Get() *int { return g }
