module demo.example/sibling2

go 1.23
