// Package b imports only a, and passes nil to a.Set.
package b

import "demo.example/sibling2/a"

func Reset() { a.Set(nil) }
