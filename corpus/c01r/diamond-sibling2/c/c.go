// Package c imports only a, and dereferences the result of a.Get without a nil check. This is the
// only dereference of the whole program.
package c

import "demo.example/sibling2/a"

func Use() int { return *a.Get() } //REPORT
