// Package main is the only package that (transitively) sees both b and c.
package main

import (
	"demo.example/sibling2/b"
	"demo.example/sibling2/c"
)

func main() {
	b.Reset()
	_ = c.Use()
}
