module demo.example/sibling1

go 1.23
