// Package c imports only a, and dereferences a.G without a nil check. This is the only
// dereference of the whole program.
package c

import "demo.example/sibling1/a"

func Use() int { return *a.G } //REPORT
