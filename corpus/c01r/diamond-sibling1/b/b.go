// Package b imports only a, and stores nil into a.G.
package b

import "demo.example/sibling1/a"

func Reset() { a.G = nil }
