// Package a owns a package-level pointer that is allocated on initialisation.
package a

var G = new(int)
