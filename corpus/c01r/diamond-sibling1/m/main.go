// Package main is the only package that (transitively) sees both b and c: b.Reset() stores nil
// into a.G, then c.Use() dereferences it. The program panics with a nil pointer dereference.
package main

import (
	"demo.example/sibling1/b"
	"demo.example/sibling1/c"
)

func main() {
	b.Reset()
	_ = c.Use()
}
