package main

type T struct{}

func pair() (*int, *int) { return nil, new(int) }

func (t *T) mpair() (*int, *int) { return new(int), nil }

func good() (*int, *int) { return new(int), new(int) }

// fwd forwards both results of pair through parentheses.
func fwd() (*int, *int) {
	return (pair())
}

// mfwd does the same with a pointer-receiver method.
func mfwd(t *T) (*int, *int) {
	return (t.mpair())
}

// gfwd forwards only non-nil results.
func gfwd() (*int, *int) {
	return (good())
}

func main() {
	a, b := fwd()
	_ = *b // line 28: must NOT be reported //SILENT
	_ = *a // line 29: MUST be reported //REPORT

	c, d := mfwd(&T{})
	_ = *c // line 32: must NOT be reported //SILENT
	_ = *d // line 33: MUST be reported //REPORT

	e, f := gfwd()
	_ = *e // line 36: must NOT be reported //SILENT
	_ = *f // line 37: must NOT be reported //SILENT
}
