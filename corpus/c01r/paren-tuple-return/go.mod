module ex.com/parenret

go 1.23
