package main

import "ex.com/importedglobal/a"

// H and I are initialised from nil package-level variables of another package.
var H *int = a.G

var I = a.N

// J and K are not nil.
var J = a.OK

var K = a.V.F

func main() {
	_ = *H // want: nil //REPORT
	_ = *I // want: nil //REPORT
	_ = *J //SILENT
	_ = *K //SILENT
}
