module ex.com/importedglobal

go 1.23
