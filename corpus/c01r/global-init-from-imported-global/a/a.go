package a

type S struct{ F *int }

var G *int

var N *int = nil

var OK *int = new(int)

var V = S{F: new(int)}
