package b

var H = new(int)

func UseH() int { return *H } // line 5: MUST be reported (nil assigned to H in package main) //REPORT
