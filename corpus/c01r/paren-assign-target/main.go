package main

import "ex.com/parenlhs/b"

var G = new(int)
var K = new(int)
var L = new(int)

func useG() int { return *G } // line 9: MUST be reported //REPORT
func useK() int { return *K } // line 10: MUST be reported //REPORT
func useL() int { return *L } // line 11: must NOT be reported (only non-nil values are assigned) //SILENT

func pair() (*int, *int) { return new(int), nil }

func main() {
	(G) = nil // gofmt keeps these parentheses //REPORT
	_ = useG()

	var x *int
	x, (K) = pair() // parenthesised target of a multi-value assignment //REPORT
	_ = x
	_ = useK()

	(L) = new(int)
	_ = useL()

	(b.H) = nil //REPORT
	_ = b.UseH()
}
