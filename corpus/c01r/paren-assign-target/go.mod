module ex.com/parenlhs

go 1.23
