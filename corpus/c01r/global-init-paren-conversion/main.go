package main

type ptr *int

func mk() *int { return nil }

func ok() *int { return new(int) }

var A *int = (nil)

var B = (*int)(nil)

var C = ptr(nil)

var D *int = ((*int)((nil)))

var E = (mk)()

var A0 *int = nil

var F = (*int)(A0)

// Negative cases: none of these is nil.
var N1 *int = (new(int))

var N2 = (*int)(new(int))

var N3 = (ok)()

var N4 = []byte("abc")

func main() {
	_ = *A // want: nil //REPORT
	_ = *B // want: nil //REPORT
	_ = *C // want: nil //REPORT
	_ = *D // want: nil //REPORT
	_ = *E // want: nil //REPORT
	_ = *F // want: nil //REPORT
	_ = *N1 //SILENT
	_ = *N2 //SILENT
	_ = *N3 //SILENT
	_ = N4[0] //SILENT
}
