module ex.com/globalinit

go 1.23
