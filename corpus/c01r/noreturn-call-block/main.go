package main

import "os"

var n int

func opaque() bool { n++; return n < 3 }

// spin never returns: ctrlflow marks it as a no-return function.
func spin() {
	for {
	}
}

// die never returns either.
func die() { panic("die") }

// f1: the only unguarded dereference of the program sits right before a call to a user function
// that never returns.
func f1() {
	var q *int
	_ = *q // line 22: MUST be reported //REPORT
	spin()
}

// f2: same with the builtin panic.
func f2() {
	var q *int
	_ = *q // line 29: MUST be reported //REPORT
	panic("x")
}

// f3: same with os.Exit in a branch; the rest of the function returns normally.
func f3() int {
	var q *int
	if opaque() {
		_ = *q // line 37: MUST be reported //REPORT
		os.Exit(1)
	}
	return 1
}

// f4: the dereference is in a block that leads only to the block that ends the execution.
func f4() {
	var q *int
	if opaque() {
		_ = *q // line 47: MUST be reported //REPORT
	}
	die()
}

// ok1: the usual "guard by panic" idiom stays silent.
func ok1(p *int) int {
	if p == nil {
		panic("nil p")
	}
	return *p // line 57: must NOT be reported //SILENT
}

// ok2: a dereference that is guarded stays silent in front of a no-return call.
func ok2(p *int) {
	if p != nil {
		_ = *p // line 63: must NOT be reported //SILENT
		die()
	}
}

func main() {
	if opaque() {
		f1()
	}
	if opaque() {
		f2()
	}
	f3()
	f4()
	ok1(nil)
	ok2(nil)
}
