module ex.com/noreturn

go 1.23
