package main

type ptr *int

type ints []int

func deref(p *int) { _ = *p } //REPORT

func derefOK(p *int) { _ = *p }

func cond() bool { return true }

func local() {
	p := (*int)(nil)
	_ = *p // want: nil //REPORT
}

func named() {
	p := ptr(nil)
	_ = *p // want: nil //REPORT
}

func viaVar() {
	var q *int
	p := ptr(q)
	_ = *p // want: nil //REPORT
}

func asArg() {
	deref((*int)(nil)) // want: nil passed to deref, which dereferences it (line 7) //REPORT
}

func result() *int {
	return (*int)(nil)
}

func useResult() {
	_ = *result() // want: nil //REPORT
}

// Negative cases.

func checked() { //SILENT
	var q *int
	if cond() {
		q = new(int)
	}
	if ptr(q) != nil {
		_ = *q //SILENT
	}
	p := ptr(q)
	if p != nil {
		_ = *p
	}
}

func nonnil() {
	p := (*int)(new(int)) //SILENT
	_ = *p
	derefOK(ptr(new(int)))
	b := []byte("abc")
	_ = b[0]
	var s ints
	s = ints([]int{1})
	_ = s[0]
}

func main() {
	local()
	named()
	viaVar()
	asArg()
	useResult()
	checked()
	nonnil()
}
