module ex.com/conversion

go 1.23
