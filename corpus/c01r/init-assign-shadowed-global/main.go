package main

var G *int

var H *int

var I, J *int

var K *int

func init() {
	G := new(int) // a local that shadows the global G
	_ = G
	H = new(int) // really assigns the global H
	I = new(int)
	setJ()
	for K := range []*int{nil} { // another local, named like the global K
		_ = K
	}
}

func setJ() {
	J = new(int)
}

func main() {
	_ = *G // want: nil (G is never assigned) //REPORT
	_ = *H //SILENT
	_ = *I //SILENT
	_ = *J //SILENT
	_ = *K // want: nil (K is never assigned) //REPORT
}
