// Package a: which findings may share a diagnostic when grouping is on. Lines carrying the same //G<n> tag have the
// same nil source and must end up in one diagnostic (one as the position, the others in its "other place(s)" list);
// lines with different tags have different nil sources and must never share one.
package a

type A struct{}
type B struct{}

var src *int

func nilSource() *int { return src }

// same-named methods on different types, same-named locals: two different nil sources
func (A) get() int {
	mp := make(map[int]*int)
	r := *mp[0] //G1
	r += *mp[1] //G1
	return r
}

func (B) get() int {
	mp := make(map[int]*int)
	r := *mp[0] //G2
	r += *mp[1] //G2
	return r
}

func get() int {
	mp := make(map[int]*int)
	return *mp[0] //G3
}

// one nil source dereferenced at several places, interleaved with another one
func interleaved() int {
	x := nilSource()
	var y *int
	r := *x //G4
	r += *y //G5
	r += *x //G4
	r += *y //G5
	r += *x //G4
	return r
}
