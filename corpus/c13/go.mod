module ex.com/c13

go 1.23
