// Package samename: distinct variables that share a name are different nil sources (finding F57, repaired).
package samename

func f(c bool) {
	if c {
		mp := make(map[int]*int)
		_ = *mp[0] //G31
	} else {
		mp := make(map[string]*int) // a different variable that happens to have the same name
		_ = *mp["k"] //G32
	}
}

// one variable read at several places: the same nil source, still grouped
func g(c bool) {
	mp := make(map[int]*int)
	if c {
		_ = *mp[0] //G33
	} else {
		_ = *mp[1] //G33
	}
	for i := 0; i < 2; i++ {
		_ = *mp[i] //G33
	}
}
