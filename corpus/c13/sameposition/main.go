// Package sameposition has two findings that are reported at the very same position (the chain
// `src().mp[0].val` starts with `src()` for both the field access on the result of `src()` and the
// field access on the unguarded map read), one of which is the first of a group (seed c13f).
package sameposition

type N struct {
	mp  map[int]*N
	val int
}

func src() *N { return nil }

func f() int {
	return src().mp[0].val //G41
}

func g() int {
	return src().val //G41
}
