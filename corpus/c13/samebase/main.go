// Package samebase: two different nil sources (x/util.Src and y/util.Src) at the same line:col of two files with the
// same <last dir>/<base> name, plus a second dereference of the first source (finding F56, repaired).
package samebase

import (
	xutil "ex.com/c13/x/util"
	yutil "ex.com/c13/y/util"
)

func use() {
	_ = *xutil.Src() //G21
	_ = *yutil.Src() //G22
	_ = *xutil.Src() //G21
}
