package util

func Src() *int { return nil }
