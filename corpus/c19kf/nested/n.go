// Package nested: a nil check nested inside the LEFT operand of a short-circuit operator of a value expression. The
// conclusion of the inner check is applied to the right operand although the right operand is evaluated on the OTHER
// outcome of the inner check as well (finding F104; nilaway's own testdata documents these forms as known false negatives
// without a `want`, so the precise repair -- treat `X && Y` like a branch -- fails the unedited suite).
package nested

type T struct{ f int }

func orInAnd(p *T, c bool) bool {
	return (p == nil || c) && p.f == 0 //KNOWN:F104
}

func andInOr(p *T, c bool) bool {
	return (p != nil && c) || p.f == 0 //KNOWN:F104
}

// the same with a NEGATED compound left operand: the conclusions of the checks inside it are applied as if it had not been
// negated
func notAndAnd(p *T, c bool) bool {
	return !(p != nil && c) && p.f == 0 //KNOWN:F104
}

func notOrOr(p *T, c bool) bool {
	return !(p == nil || c) || p.f == 0 //KNOWN:F104
}

// (with the other outer operator the negated operand happens to be read the right way round)
func notAndOr(p *T, c bool) bool {
	return !(p != nil && c) || p.f == 0 //SILENT
}

func notOrAnd(p *T, c bool) bool {
	return !(p == nil || c) && p.f == 0 //SILENT
}

// the references: the same dereference behind the un-nested check is protected, and without any check it is reported
func plainAnd(p *T) bool {
	return p != nil && p.f == 0 //SILENT
}

func plainOr(p *T) bool {
	return p == nil || p.f == 0 //SILENT
}

func unchecked(p *T, c bool) bool {
	return c && p.f == 0 //REPORT
}

func callers() {
	orInAnd(nil, true)
	andInOr(nil, false)
	plainAnd(nil)
	plainOr(nil)
	unchecked(nil, true)
	notAndAnd(nil, true)
	notOrOr(nil, true)
	notAndOr(nil, true)
	notOrAnd(nil, true)
}
