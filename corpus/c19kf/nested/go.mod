module ex.com/nested

go 1.23
