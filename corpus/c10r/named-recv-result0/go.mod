module ex.com/namedrecv

go 1.23
