// Package namedrecv: an annotation written for `result 0` of a method says nothing about its (named, unannotated)
// receiver (seed c10c).
package namedrecv

type T struct {
	f *int
	n int
}

// nilable(result 0)
func (t *T) get() *int {
	return t.f //SILENT
}

func useGet() int {
	t := &T{}
	v := t.get()
	if v != nil {
		return *v //SILENT
	}
	return t.n //SILENT
}

func useGetUnchecked() int {
	t := &T{}
	return *t.get() //REPORT
}

// nonnil(result 0)
func (t *T) safe() *int {
	if t == nil {
		return new(int)
	}
	return new(int)
}

func callSafe() int {
	var t *T
	return *t.safe() //SILENT
}
