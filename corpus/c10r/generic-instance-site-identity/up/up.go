package up

// nilable(P)
type Box[E any] struct {
	P *E
	Q *E
}

func useBox(b Box[int]) int {
	return *b.P // line 10: MUST be reported: exported field P is annotated nilable //REPORT
}

func useBoxChecked(b Box[int]) int {
	if b.P != nil {
		return *b.P // line 15: must NOT be reported (nil-checked) //SILENT
	}
	return *b.Q // line 17: must NOT be reported (Q is not annotated) //SILENT
}

// nonnil(x)
func (b *Box[E]) Put(x *E) {} //REPORT

func callPut(b *Box[int]) { b.Put(nil) } // line 23: MUST be reported: nil flows into the nonnil-annotated x (up.go:21) //REPORT

func callPutOK(b *Box[int]) { b.Put(new(int)) } // line 25: must NOT be reported //SILENT

// nilable(result 0)
func (b *Box[E]) Res() *E { return nil }

func callRes(b *Box[int]) int { return *b.Res() } // line 30: MUST be reported: result 0 is annotated nilable //REPORT

// controls: the same with unexported names (reported before and after)

// nilable(p)
type box[E any] struct {
	p *E
}

func useBox2(b box[int]) int { return *b.p } // line 39: MUST be reported (control) //REPORT
