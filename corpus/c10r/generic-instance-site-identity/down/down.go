package down

import "ex.com/genericexp/up"

func useUp(b *up.Box[string]) int {
	b.Put(nil)                       // line 6: MUST be reported: x of Put is annotated nonnil upstream (up/up.go:21) //REPORT
	return len(*b.P) + len(*b.Res()) // line 7: MUST be reported twice: field P and result 0 of Res are annotated nilable upstream //REPORT
}
