module ex.com/genericexp

go 1.23
