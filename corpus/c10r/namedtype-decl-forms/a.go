package namedtypes

type T struct{ x int }

// nilable(<-C)
type C chan *T

func useC(c C) int { return (<-c).x } // line 8: MUST be reported: elements of C are annotated nilable //REPORT

func useCChecked(c C) int {
	if v := <-c; v != nil {
		return v.x // line 12: must NOT be reported (nil-checked) //SILENT
	}
	return 0
}

// nilable(L[])
type L []*T

func useL(a L) int { return a[0].x } // line 20: MUST be reported (control; reported before) //REPORT

// nilable(L2[])
type L2 L

func useL2(a L2) int { return a[0].x } // line 25: MUST be reported: L2 is a defined type with its own annotation //REPORT

// L3 is a defined type without annotation: elements are non-nil by default
type L3 L

func useL3(a L3) int { return a[0].x } // line 30: must NOT be reported //SILENT

// D is an unannotated named channel type
type D chan *T

func useD(d D) int { return (<-d).x } // line 35: must NOT be reported //SILENT
