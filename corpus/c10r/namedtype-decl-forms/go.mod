module ex.com/namedtypes

go 1.23
