package aliasnamed

type T struct{ x int }

// nilable(L[])
type L []*T

func useL(a L) int { return a[0].x } // line 8: MUST be reported (control; reported before)

type A = L

func useA(a A) int { return a[0].x } // line 12: MUST be reported: A is the same type as L, whose elements are annotated nilable //REPORT

func useAChecked(a A) int {
	if v := a[0]; v != nil {
		return v.x // line 16: must NOT be reported (nil-checked) //SILENT
	}
	return 0
}

// nonnil(N[])
type N []*T //REPORT

type NA = N

func writeN(a N) { a[0] = nil }   // line 26: MUST be reported (control; reported before)
func writeNA(a NA) { a[0] = nil } // line 27: MUST be reported: nil flows into the nonnil-annotated elements of N //REPORT

// U is unannotated
type U []*T

type UA = U

func useUA(a UA) int { return a[0].x } // line 34: must NOT be reported //SILENT
