module ex.com/aliasnamed

go 1.23
