module ex.com/okret

go 1.23
