package okret

type T struct{ x int }

// nilable(result 0)
func okf() (*T, bool) {
	return &T{}, true
}

func useOkf() int {
	v, _ := okf()
	return v.x // line 12: MUST be reported: result 0 is annotated nilable and dereferenced without any check //REPORT
}

func useOkfChecked() int {
	v, _ := okf()
	if v == nil {
		return 0
	}
	return v.x // line 20: must NOT be reported (nil-checked) //SILENT
}

// nilable(result 0)
func errf() (*T, error) {
	return &T{}, nil
}

func useErrf() int {
	v, _ := errf()
	return v.x // line 30: MUST be reported //REPORT
}

func useErrfChecked() int {
	v, _ := errf()
	if v != nil {
		return v.x // line 36: must NOT be reported (nil-checked) //SILENT
	}
	return 0
}

// no annotation: the "all returns are non-nil" pre-analysis still applies
func safe() (*T, error) {
	return &T{}, nil
}

func useSafe() int {
	v, _ := safe()
	return v.x // line 48: must NOT be reported (unannotated result, every return is non-nil) //SILENT
}

// control: not an ok/err-returning function
// nilable(result 0)
func plain() (*T, int) { return &T{}, 0 }

func usePlain() int {
	v, _ := plain()
	return v.x // line 57: MUST be reported (was already reported before the patch) //REPORT
}
