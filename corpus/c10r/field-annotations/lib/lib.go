package lib

type E struct{ V int }

// nilable(E, f)
type N struct {
	*E
	In struct {
		f *int
	}
}

func (n *N) F() *int { return n.In.f }
