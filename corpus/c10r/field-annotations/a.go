package fieldann

import "ex.com/fieldann/lib"

type E struct{ v int }

// nilable(E)
type Emb struct {
	*E
}

// nilable(E)
type EmbQualified struct {
	*lib.E
}

// nilable(f, g, h)
type Nest struct {
	in struct {
		f *int
	}
	ptr *struct {
		g *int
	}
	sl []struct {
		h *int
	}
}

// nilable(g)
type Top struct {
	g *int
}

func embedded(n *Emb) int {
	if n == nil {
		return 0
	}
	return n.E.v // line 39: must be reported //REPORT
}

func embeddedQualified(n *EmbQualified) int {
	if n == nil {
		return 0
	}
	return n.E.V // line 46: must be reported //REPORT
}

func nested(n *Nest) int {
	if n == nil {
		return 0
	}
	return *n.in.f // line 53: must be reported //REPORT
}

func nestedPtr(n *Nest) int {
	if n == nil || n.ptr == nil {
		return 0
	}
	return *n.ptr.g // line 60: must be reported //REPORT
}

func nestedSlice(n *Nest) int {
	if n == nil || len(n.sl) == 0 {
		return 0
	}
	return *n.sl[0].h // line 67: must be reported //REPORT
}

func local(p *int) int {
	// nilable(g)
	type L struct {
		g *int
	}
	l := &L{g: p}
	return *l.g // line 76: must be reported //REPORT
}

func localDeep() int {
	// nilable(LS[])
	type LS []*int
	s := LS{new(int)}
	return *s[0] // line 83: must be reported //REPORT
}

func upstream(n *lib.N) int {
	if n == nil {
		return 0
	}
	return n.E.V // line 90: must be reported (annotation read in package lib) //REPORT
}

func control(t *Top) int {
	if t == nil {
		return 0
	}
	return *t.g // line 97: reported before and after //REPORT
}

// negative controls: every dereference is nil-checked, or the type is not annotated

func embeddedGuarded(n *Emb) int { //SILENT
	if n == nil || n.E == nil {
		return 0
	}
	return n.E.v
}

func nestedGuarded(n *Nest) int {
	if n == nil || n.in.f == nil {
		return 0
	}
	return *n.in.f
}

func localGuarded(p *int) int {
	// nilable(g)
	type L struct {
		g *int
	}
	l := &L{g: p}
	if l.g == nil {
		return 0
	}
	return *l.g
}

type Unannotated struct {
	*E
	in struct {
		f *int
	}
}

func unannotated(n *Unannotated) int {
	if n == nil {
		return 0
	}
	return n.E.v + *n.in.f //SILENT
}
