module ex.com/fieldann

go 1.23
