package errwrap

import (
	"errors"

	"ex.com/errwrap/lib"
)

// nilable(result 0)
func wrap(err error) error {
	return nil
}

func use(e error) string {
	return wrap(e).Error() // line 15: must be reported //REPORT
}

// nilable(result 0)
func NewParseError(msg string) error {
	return nil
}

func useNew() string {
	return NewParseError("x").Error() // line 24: must be reported //REPORT
}

// nilable(result 0)
func plain(s string) error {
	return nil
}

func control() string {
	return plain("x").Error() // line 33: reported before and after (control) //REPORT
}

// result 0 of f is guarded by its error result; the error is the annotated-nilable wrapper
func f(e error) (*int, error) {
	return nil, wrap(e) //REPORT
}

func useF(e error) int {
	p, err := f(e)
	if err != nil {
		return 0
	}
	return *p // line 46: must be reported (wrap(e) may be nil, so `nil, wrap(e)` can return nil with a nil error) //REPORT
}

// negative controls

// unannotated wrapper: the heuristic still applies
func wrapPlain(err error) error {
	if err == nil {
		return nil
	}
	return errors.Join(err, errors.New("x"))
}

func usePlain(e error) string {
	return wrapPlain(e).Error() // must NOT be reported //SILENT
}

func useGuarded(e error) string {
	if w := wrap(e); w != nil {
		return w.Error() // must NOT be reported //SILENT
	}
	return ""
}

// residual, not covered by the patch: the annotated wrapper is declared in another package
func useUpstream(e error) string {
	return lib.Wrap(e).Error() // line 72: still silent //SILENT
}
