module ex.com/errwrap

go 1.23
