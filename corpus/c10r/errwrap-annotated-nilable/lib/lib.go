package lib

// nilable(result 0)
func Wrap(err error) error {
	return nil
}
