module ex.com/initshadow

go 1.23
