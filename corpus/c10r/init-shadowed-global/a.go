package initshadow

type T struct{ x int }

// nonnil(g)
var g *T // line 6: MUST be reported: never assigned, its nil zero value flows into the nonnil-annotated g //REPORT

// nonnil(k)
var k *T // line 9: must NOT be reported: really assigned in init //SILENT

// nonnil(viaHelper)
var viaHelper *T // line 12: must NOT be reported: assigned in a function called from init //SILENT

func init() {
	g := &T{} // a local variable that shadows the global g
	_ = g
	k = &T{}
	setup()
}

func setup() {
	viaHelper = &T{}
}

// nonnil(h)
var h *T // line 26: MUST be reported (control; was reported before) //REPORT
