package deepalias

type A = []*int
type M = map[string]*int
type PA = *A
type I = int

// nilable(x[])
func alias(x A) int {
	if len(x) == 0 {
		return 0
	}
	return *x[0] // want //REPORT
}

// nilable(y[])
func control(y []*int) int {
	if len(y) == 0 {
		return 0
	}
	return *y[0] // want //REPORT
}

// nonnil(x[])
func aliasNonnil(x A) { //REPORT
	if len(x) > 0 {
		x[0] = nil // want //REPORT
	}
}

// nonnil(y[])
func controlNonnil(y []*int) { //REPORT
	if len(y) > 0 {
		y[0] = nil // want //REPORT
	}
}

// nilable(result 0[])
func resAlias() A { return make(A, 1) }

func useRes() int {
	return *resAlias()[0] // want //REPORT
}

// nilable(G[])
var G A = make(A, 1)

func useG() int { return *G[0] } // want //REPORT

// nilable(f[])
type S struct{ f A }

func useF(s *S) int { return *s.f[0] } // want //REPORT

// nilable(m[])
func aliasMap(m M) int {
	if v, ok := m["a"]; ok {
		return *v // want //REPORT
	}
	return 0
}

// unannotated: nothing
func plain(x A, p *I) int { //SILENT
	if len(x) == 0 {
		return *p
	}
	return *x[0] + *p
}

// nilable(x[])
func guarded(x A) int { //SILENT
	if len(x) > 0 && x[0] != nil {
		return *x[0]
	}
	return 0
}
