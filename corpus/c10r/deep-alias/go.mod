module ex.com/deepalias

go 1.23
