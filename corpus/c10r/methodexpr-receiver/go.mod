module ex.com/methodexpr

go 1.23
