package methodexpr

type T struct{ x int }

// nonnil(t)
func (t *T) m(i int) int { return i } //REPORT

func viaMethodExprLiteral() {
	(*T).m(nil, 1) // line 9: MUST be reported: nil flows into the nonnil-annotated receiver t (a.go:6) //REPORT
}

func viaMethodExprVar() {
	var p *T
	(*T).m(p, 1) // line 14: MUST be reported //REPORT
}

func viaMethodExprNonNil() {
	(*T).m(&T{}, 1) // line 18: must NOT be reported //SILENT
}

func control() {
	var p *T
	p.m(1) // line 23: MUST be reported (control; reported before)
}

// nilable(t)
func (t *T) n() int {
	if t == nil {
		return 0
	}
	return t.x
}

func nilableRecv() {
	(*T).n(nil) // line 35: must NOT be reported: the receiver of n is annotated nilable and nil-checked //SILENT
}
