// Package litkeys is the demonstration input for property C10: every site below carries an
// explicit nilable(...) annotation, and every line marked `want` dereferences such a site without
// a nil check of *that* value: the only check in scope is for a different key / name / ratio.
package litkeys

var store = map[string]*int{}

// get returns nil if there is no entry for the key.
//
// nilable(result 0)
func get(key string) *int {
	return store[key]
}

// otherKey checks the entry "a" but dereferences the entry "b".
func otherKey() int {
	if get("a") != nil {
		return *get("b") //REPORT
	}
	return 0
}

// sameKey is fine: the dereferenced entry is the checked one.
func sameKey() int {
	if get("a") != nil {
		return *get("a")
	}
	return 0
}

// Entry is a registry entry.
//
// nilable(val)
type Entry struct {
	val *int
}

// Registry hands out entries by name.
type Registry struct {
	entries map[string]*Entry
}

// Find returns nil for unknown names.
//
// nilable(result 0)
func (r *Registry) Find(name string) *Entry {
	return r.entries[name]
}

// otherName checks the entry "x" (and its field) but uses the entry "y".
func otherName(r *Registry) int {
	if r.Find("x") != nil && r.Find("x").val != nil {
		return *r.Find("y").val //REPORT
	}
	return 0
}

// sameName is fine.
func sameName(r *Registry) int {
	if r.Find("x") != nil && r.Find("x").val != nil {
		return *r.Find("x").val
	}
	return 0
}

// quantile returns nil if the quantile has not been computed.
//
// nilable(result 0)
func quantile(q float64) *int {
	return nil
}

// otherRatio checks the median but dereferences the 99th percentile.
func otherRatio() int {
	if quantile(0.5) != nil {
		return *quantile(0.99) //REPORT
	}
	return 0
}
