module ex.com/litkeys

go 1.23
