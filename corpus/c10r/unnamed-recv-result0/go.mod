module ex.com/unnamedrecv

go 1.23
