package unnamedrecv

type T struct{ x int }

// nonnil(result 0)
func (*T) m() *T { return &T{} } //SILENT

func (*T) m2() *T { return &T{} }

func call() {
	var p *T
	p.m()  // line 12: must NOT be reported: only result 0 is annotated, the unnamed receiver is not //SILENT
	p.m2() // line 13: control, never reported //SILENT
}

// nilable(result 0)
func (*T) r() *T { return &T{} }

func useR(p *T) int {
	return p.r().x // line 20: MUST be reported: result 0 is annotated nilable (annotation still binding) //REPORT
}

// nonnil(t)
func (t *T) named() int { return 0 } //REPORT

func callNamed() {
	var p *T
	p.named() // line 28: MUST be reported (flow into the nonnil-annotated named receiver, reported at a.go:24) //REPORT
}
