package parenassign

// nonnil(G)
var G = new(int) //REPORT

// nonnil(D[])
var D = []*int{new(int)} //REPORT

func tuple() (*int, int) { return nil, 0 }

func parenGlobal() {
	(G) = nil // line 12: must be reported //REPORT
}

func parenGlobalTuple() {
	(G), _ = tuple() // line 16: must be reported //REPORT
}

func parenDeep() {
	(D[0]) = nil // line 20: must be reported //REPORT
}

func parenDeepBase() {
	(D)[0] = nil // line 24: must be reported against the annotation of D //REPORT
}

// nilable(m)
func parenMapWrite(m map[string]int) {
	(m["a"]) = 1 // line 29: must be reported (write to a nilable map) //REPORT
}

// controls (reported before and after)

func plainGlobal() {
	G = nil // line 35
}

func plainDeep() {
	D[0] = nil // line 39
}

// nilable(m)
func plainMapWrite(m map[string]int) {
	m["a"] = 1 // line 44
}

// negative controls: nothing to report

func parenGlobalOK() {
	(G) = new(int) //SILENT
}

// nilable(m)
func parenMapWriteOK(m map[string]int) {
	if m != nil {
		(m["a"]) = 1 //SILENT
	}
}
