module ex.com/parenassign

go 1.23
