module ex.com/errsource

go 1.23
