// Package errret demonstrates that explicit annotations stay binding when an error-returning
// function returns nil for a nonnil-annotated result together with an error value that is read
// directly from a site explicitly annotated nilable.
package errret

type T struct{ x int }

// The error comes from a parameter that is annotated nilable.
//
// nonnil(result 0) nilable(e)
func fromParam(e error) (*T, error) { //REPORT
	return nil, e
}

// nilable(result 0)
func mayFail() error { return nil }

// The error comes from the result of a function that is annotated nilable.
//
// nonnil(result 0)
func fromCall() (*T, error) { //REPORT
	return nil, mayFail()
}

// nilable(lastErr)
var lastErr error

// The error comes from a package-level variable that is annotated nilable.
//
// nonnil(result 0)
func fromGlobal() (*T, error) { //REPORT
	return nil, lastErr
}

// Control: the error is nil because of an observed nil flow (no annotation involved on the error).
//
// nonnil(result 0)
func control() (*T, error) { //REPORT
	var e error
	return nil, e
}

// Control: the caller of the functions above dereferences without looking at the error; this is
// reported independently of the annotations above.
func use() int {
	t, _ := fromCall()
	return t.x //REPORT
}
