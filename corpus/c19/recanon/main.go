// `c == true` / `c != false` (and `true == c` / `false != c`) must be the same test as `c`, whatever `c` is:
// a negation, a parenthesized expression or a short-circuit expression has to be canonicalized again after the
// comparison with the boolean literal has been dropped.
package main

func andElse(a *int, c bool) int {
	if a != nil && c {
		return 0
	}
	return *a // unsafe: MUST be reported (plain spelling; control) //REPORT
}

func andTrueElse(a *int, c bool) int {
	if (a != nil && c) == true {
		return 0
	}
	return *a // unsafe: MUST be reported //REPORT
}

func andNotFalseElse(a *int, c bool) int {
	if false != (a != nil && c) {
		return 0
	}
	return *a // unsafe: MUST be reported //REPORT
}

func andTrueThen(a *int, c bool) int {
	if (a != nil && c) == true {
		return *a // safe: must NOT be reported //SILENT
	}
	return 0
}

func orTrueElse(a *int, c bool) int {
	if (a == nil || c) != false {
		return 0
	}
	return *a // safe (a != nil && !c here): must NOT be reported //SILENT
}

func orTrueThen(a *int, c bool) int {
	if (a == nil || c) == true {
		return *a // unsafe: MUST be reported //REPORT
	}
	return 0
}

func okTrue(m map[string]*int) int {
	v, ok := m["k"]
	if !ok == true {
		return 0
	}
	return *v // safe: must NOT be reported //SILENT
}

func okNotFalse(m map[string]*int) int {
	v, ok := m["k"]
	if (!ok) != false {
		return 0
	}
	return *v // safe: must NOT be reported //SILENT
}

func okTrueThen(m map[string]*int) int {
	v, ok := m["k"]
	if !ok == true {
		return *v // unsafe: MUST be reported //REPORT
	}
	return 0
}

func okFalse(m map[string]*int) int {
	v, ok := m["k"]
	if ok == false {
		return 0
	}
	return *v // safe: must NOT be reported (control) //SILENT
}

func main() {
	m := map[string]*int{}
	println(andElse(nil, true), andTrueElse(nil, true), andNotFalseElse(nil, true), andTrueThen(nil, true),
		orTrueElse(nil, true), orTrueThen(nil, true), okTrue(m), okNotFalse(m), okTrueThen(m), okFalse(m))
}
