module ex.com/boolcmp

go 1.23
