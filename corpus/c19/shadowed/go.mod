module ex.com/shadowlit

go 1.23
