// `true` is a user constant here: `true <= len(a)` means `1 <= len(a)`. Exchanging the operands and keeping
// the operator (`len(a) <= true`) is not an equivalent test.
package main

const true = 1 // shadows the predeclared identifier; type-correct Go

func first(a []int) int {
	if true <= len(a) { // 1 <= len(a): a is non-empty here
		return a[0] // safe: must NOT be reported //SILENT
	}
	return 0
}

func firstElse(a []int) int {
	if true <= len(a) {
		return 0
	}
	return a[0] // len(a) < 1: unsafe, MUST be reported //REPORT
}

func main() {
	var s []int
	println(first(s), firstElse(s))
}
