// Control: the genuine predeclared nil / true / false are still canonicalized, in either operand order.
package main

func a(m map[string]*int) int {
	v, ok := m["k"]
	if false == ok {
		return 0
	}
	return *v // safe: must NOT be reported //SILENT
}

func b(m map[string]*int) int {
	v, ok := m["k"]
	if true != ok {
		return 0
	}
	return *v // safe: must NOT be reported //SILENT
}

func c(m map[string]*int) int {
	v, ok := m["k"]
	if true == ok {
		return 0
	}
	return *v // ok is false here, v is nil: MUST be reported //REPORT
}

func d(p *int) int {
	if nil == p {
		return 0
	}
	return *p // safe: must NOT be reported //SILENT
}

func e(p *int) int {
	if nil != p {
		return 0
	}
	return *p // p is nil: MUST be reported //REPORT
}

func main() {
	m := map[string]*int{}
	println(a(m), b(m), c(m), d(nil), e(nil))
}
