// `false` is a user variable holding the value true: `ok == false` means `ok`, not `!ok`.
package main

var false = 1 == 1 // shadows the predeclared identifier

func get(m map[string]*int, k string) int {
	v, ok := m[k]
	if ok == false { // means: if ok
		return 0
	}
	return *v // reached when !ok, v is nil: MUST be reported //REPORT
}

func main() {
	println(get(map[string]*int{}, "a"))
}
