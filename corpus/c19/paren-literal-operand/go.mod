module ex.com/parenlit

go 1.23
