package parenlit

type T struct{ f int }

type myErr struct{}

func (*myErr) Error() string { return "e" }

var flag bool

func get() (*T, error) {
	if flag {
		return nil, &myErr{}
	}
	return &T{}, nil
}

func errCanonical() int {
	v, err := get()
	if err != nil {
		return 0
	}
	return v.f // line 23: silent (reference) //SILENT
}

func errParenNil() int {
	v, err := get()
	if err != (nil) {
		return 0
	}
	return v.f // line 31: must be silent
}

func errParenNilLeft() int {
	v, err := get()
	if (nil) != err {
		return 0
	}
	return v.f // line 39: must be silent
}

func errEqParenNilLeft() int {
	v, err := get()
	if (nil) == err {
		return v.f // line 45: must be silent
	}
	return 0
}

func errEqParenNil() int {
	v, err := get()
	if err == ((nil)) {
		return v.f // line 53: silent (reference: the type checker sees through the parentheses)
	}
	return 0
}

// the conclusion must still land on the right branch: here `v` is used when the error is NOT nil.
func errWrongBranch() int {
	v, err := get()
	if (nil) != err {
		return v.f // line 62: MUST be reported //REPORT
	}
	return 0
}

func errWrongBranchEq() int {
	v, err := get()
	if (nil) == err {
		return 0
	}
	return v.f // line 72: MUST be reported //REPORT
}

var m map[int]*T

func okParenTrue(k int) int {
	v, ok := m[k]
	if ok == (true) {
		return v.f // line 80: must be silent
	}
	return 0
}

func okParenFalseLeft(k int) int {
	v, ok := m[k]
	if (false) == ok {
		return 0
	}
	return v.f // line 90: must be silent
}

func okParenFalseWrongBranch(k int) int {
	v, ok := m[k]
	if (false) == ok {
		return v.f // line 96: MUST be reported //REPORT
	}
	return 0
}
