package shortcircuit

type G struct{ g int }

type T struct {
	f  int
	fg *G
}

// ---- a check that is an operand of `&&` / `||` in a VALUE says nothing about the code after the statement ----

func valuePlain(p *T) int {
	b := p != nil
	_ = b
	return p.f // line 15: reported before and after (reference) //REPORT
}

func valueAnd(p *T, c bool) int {
	b := c && p != nil
	_ = b
	return p.f // line 21: MUST be reported //REPORT
}

func valueAndLeft(p *T, c bool) int {
	b := p != nil && c
	_ = b
	return p.f // line 27: MUST be reported //REPORT
}

func valueOr(p *T, c bool) int {
	b := c || p == nil
	_ = b
	return p.f // line 33: MUST be reported //REPORT
}

func valueOrLen(s []int, c bool) int {
	b := c || len(s) == 0
	_ = b
	return s[0] // line 39: MUST be reported //REPORT
}

func take(bool) {}

func valueArg(p *T, c bool) int {
	take(c && p != nil)
	return p.f // line 46: MUST be reported //REPORT
}

func valueLoop(p *T, c bool) int {
	n := 0
	for i := 0; i < 3; i++ {
		c = c && p != nil
		n += p.f // line 53: MUST be reported //REPORT
	}
	return n
}

// ---- the checks keep guarding the operands that are evaluated after them (all silent, before and after) ----

func guardedChain(x *T) bool {
	return x != nil && x.fg != nil && x.fg.g == 1
}

func guardedChainOr(x *T) bool {
	return x == nil || x.fg == nil || x.fg.g == 1
}

func guardedAssign(x *T, c bool) bool {
	ok := c && x != nil && x.f == 1
	return ok
}

func guardedArg(x *T) {
	take(x != nil && x.f == 1)
}

func guardedThenChecked(x *T) int {
	ok := x != nil && x.f == 1
	if ok || x != nil {
		if x != nil {
			return x.f
		}
	}
	return 0
}

func callers() {
	valuePlain(nil)
	valueAnd(nil, true)
	valueAndLeft(nil, true)
	valueOr(nil, true)
	valueOrLen(nil, true)
	valueArg(nil, true)
	valueLoop(nil, true)
	guardedChain(nil)
	guardedChainOr(nil)
	guardedAssign(nil, true)
	guardedArg(nil)
	guardedThenChecked(nil)
}
