module ex.com/shortcircuit

go 1.23
