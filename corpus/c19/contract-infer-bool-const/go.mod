module ex.com/boolconst

go 1.23
