package boolconst

type T struct{ f int }

// Spellings of the same function: contract(nonnil -> nonnil) holds for each of them.

func canon(p *T) *T {
	if p != nil {
		return &T{}
	}
	return nil
}

func eqFalse(p *T) *T {
	if (p == nil) == false {
		return &T{}
	}
	return nil
}

func neTrue(p *T) *T {
	if (p == nil) != true {
		return &T{}
	}
	return nil
}

func trueEqLeft(p *T) *T {
	if true == (p != nil) {
		return &T{}
	}
	return nil
}

func doubled(p *T) *T {
	if ((p == nil) == false) != false {
		return &T{}
	}
	return nil
}

// The opposite functions: they return nil exactly for a non-nil argument, no contract holds.

func eqTrue(p *T) *T {
	if (p == nil) == true {
		return &T{}
	}
	return nil
}

func neFalseOfNe(p *T) *T {
	if (p != nil) != true {
		return &T{}
	}
	return nil
}

func use() int {
	x := &T{}
	a := canon(x).f       // line 60: silent (reference) //SILENT
	b := eqFalse(x).f     // line 61: must be silent
	c := neTrue(x).f      // line 62: must be silent
	d := trueEqLeft(x).f  // line 63: must be silent
	e := doubled(x).f     // line 64: must be silent
	g := eqTrue(x).f      // line 65: MUST be reported //REPORT
	h := neFalseOfNe(x).f // line 66: MUST be reported //REPORT
	return a + b + c + d + e + g + h
}
