// Package fanout: a loop that descends into one of 8 self-typed fields per iteration. The assertion tree at
// the loop header multiplies its width by 8 in every backpropagation round (7-8 rounds are run).
package fanout

func pick() int { return 0 }

type N struct {
	f0 *N
	f1 *N
	f2 *N
	f3 *N
	f4 *N
	f5 *N
	f6 *N
	f7 *N
}

func walk(n *N) *N {
	for pick() > 0 {
		switch pick() {
		case 0:
			n = n.f0
		case 1:
			n = n.f1
		case 2:
			n = n.f2
		case 3:
			n = n.f3
		case 4:
			n = n.f4
		case 5:
			n = n.f5
		case 6:
			n = n.f6
		case 7:
			n = n.f7
		}
	}
	return n
}
