// Package seq: no loop at all, 24 consecutive two-way switches that each descend into one of 2 self-typed
// fields; the assertion tree doubles at every switch on the way back to the entry (2^24 paths, one round).
package seq

func pick() int { return 0 }

type N struct {
	f0 *N
	f1 *N
}

func walk(n *N) *N {
	switch pick() {
	case 0:
		n = n.f0
	case 1:
		n = n.f1
	}
	switch pick() {
	case 0:
		n = n.f0
	case 1:
		n = n.f1
	}
	switch pick() {
	case 0:
		n = n.f0
	case 1:
		n = n.f1
	}
	switch pick() {
	case 0:
		n = n.f0
	case 1:
		n = n.f1
	}
	switch pick() {
	case 0:
		n = n.f0
	case 1:
		n = n.f1
	}
	switch pick() {
	case 0:
		n = n.f0
	case 1:
		n = n.f1
	}
	switch pick() {
	case 0:
		n = n.f0
	case 1:
		n = n.f1
	}
	switch pick() {
	case 0:
		n = n.f0
	case 1:
		n = n.f1
	}
	switch pick() {
	case 0:
		n = n.f0
	case 1:
		n = n.f1
	}
	switch pick() {
	case 0:
		n = n.f0
	case 1:
		n = n.f1
	}
	switch pick() {
	case 0:
		n = n.f0
	case 1:
		n = n.f1
	}
	switch pick() {
	case 0:
		n = n.f0
	case 1:
		n = n.f1
	}
	switch pick() {
	case 0:
		n = n.f0
	case 1:
		n = n.f1
	}
	switch pick() {
	case 0:
		n = n.f0
	case 1:
		n = n.f1
	}
	switch pick() {
	case 0:
		n = n.f0
	case 1:
		n = n.f1
	}
	switch pick() {
	case 0:
		n = n.f0
	case 1:
		n = n.f1
	}
	switch pick() {
	case 0:
		n = n.f0
	case 1:
		n = n.f1
	}
	switch pick() {
	case 0:
		n = n.f0
	case 1:
		n = n.f1
	}
	switch pick() {
	case 0:
		n = n.f0
	case 1:
		n = n.f1
	}
	switch pick() {
	case 0:
		n = n.f0
	case 1:
		n = n.f1
	}
	switch pick() {
	case 0:
		n = n.f0
	case 1:
		n = n.f1
	}
	switch pick() {
	case 0:
		n = n.f0
	case 1:
		n = n.f1
	}
	switch pick() {
	case 0:
		n = n.f0
	case 1:
		n = n.f1
	}
	switch pick() {
	case 0:
		n = n.f0
	case 1:
		n = n.f1
	}
	return n
}
