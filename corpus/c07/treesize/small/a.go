// Package small: the same shape as package fanout with 3 fields; its trees stay far below the limit (total
// size 59,043), so the package is analysed as before and the ordinary diagnostic below is reported.
package small

func pick() int { return 0 }

type N struct {
	f0 *N
	f1 *N
	f2 *N
}

func walk(n *N) *N {
	for pick() > 0 {
		switch pick() {
		case 0:
			n = n.f0
		case 1:
			n = n.f1
		case 2:
			n = n.f2
		}
	}
	return n
}

func deref() int {
	var p *int
	return *p
}
