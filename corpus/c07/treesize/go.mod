module ex.com/treesize

go 1.23
