# Generates a/a.go: k pointer variables fed from k globals and rotated in a loop (finding F13).
import os, sys
k = int(sys.argv[1]) if len(sys.argv) > 1 else 130
lines = ["package a", "", "type T struct{ V int }", "", "var Opaque func() bool", ""]
lines += [f"var G{i} *T" for i in range(k)]
vs = [f"v{i}" for i in range(k)]
lines += ["", "func rot() int {"] + [f"\t{v} := G{i}" for i, v in enumerate(vs)]
lines += ["\tfor Opaque() {", "\t\t" + ", ".join(vs) + " = " + ", ".join(vs[1:] + [vs[0]]), "\t}", "\treturn v0.V", "}"]
os.makedirs("a", exist_ok=True)
open("a/a.go", "w").write("\n".join(lines) + "\n")
