module ex.com/m7

go 1.23
