package c

type Loader = func() (*int, error)

func mk(g func() (*int, error)) Loader {
	h := Loader(g)
	return h
}
