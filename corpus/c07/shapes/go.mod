module ex.com/shapes

go 1.23
