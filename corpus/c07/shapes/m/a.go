package m

type T struct{ f *T }

func v1(y *int) int {
	g := func(xs ...*int) *int {
		if len(xs) == 0 {
			return y
		}
		return xs[0]
	}
	return *g(nil, y) + *g()
}

func v2(v any, z *T) *T {
	switch x := v.(type) {
	case *T:
		h := func(ps ...*T) *T {
			_ = z.f
			return x.f
		}
		return h(x, z).f
	case nil:
		return func() *T { _ = x; return z }()
	}
	return nil
}

func pair() (*T, error) { return nil, nil }

func v3() *T {
	k := func(a ...*T) *T {
		q, _ := pair()
		_, r := pair()
		_ = r
		return q.f
	}
	return k()
}
