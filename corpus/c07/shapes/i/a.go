package i

type T struct{ f *T }

func f(v any) {
	switch x := v.(type) {
	case *T:
		func() {
			_ = x.f
		}()
	}
}
