package a

func work() {}
func f1(flag, a, c bool) {
	switch flag {
	case !a:
		work()
		if c {
			work()
		}
	}
}
func f2(ok bool, p *int, c bool) {
	switch ok {
	case p != nil:
		work()
		if c {
			work()
		}
	}
}

func f3(flag, a, b, c bool) int {
	switch flag {
	case a && b:
		work()
		if c {
			return 1
		}
	case !b, (a):
		if c {
			return 2
		}
	}
	return 0
}
