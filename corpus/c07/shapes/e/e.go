package e

type H struct{ get func() []*int }

func set1(get func() map[string]*int, v *int) {
	get()["k"] = v
}
func set3(h *H, v *int) {
	h.get()[0] = v
}
