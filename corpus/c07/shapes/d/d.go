package d

type P *[4]byte

func conv(s []byte) P {
	return P(s)
}
