package f

func v(a *int, xs ...*int) *int { return a }

func f(p *int) *int {
	return v(p) // nilable(xs)
}
