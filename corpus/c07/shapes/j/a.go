package j

func f(y int) int {
	g := func(xs ...int) int { return y + len(xs) }
	return g(1, 2)
}
