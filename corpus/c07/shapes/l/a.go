package l

type S struct{ f *S }

func id(p *S) *S { return p }

func use() *S { return id(nil).f }
