package b

func use2() int {
	p := first()
	return *p
}
