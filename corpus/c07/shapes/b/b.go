package b

// contract(nonnil -> nonnil)
func first(xs ...*int) *int {
	if len(xs) == 0 {
		return nil
	}
	return xs[0]
}
func use() int {
	p := first()
	if p == nil {
		return 0
	}
	return *p
}
