package g

func pair() (*int, *int) { return nil, nil }

func two(a, b *int) *int { return a }

func g() *int {
	return two(pair()) // nilable(a)
}
