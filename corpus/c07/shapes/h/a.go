package h

type I interface {
	Get() *int
}

func f(i I) *int {
	return i.Get() // nilable(result 0)
}
