package k

func pair() (*int, error) { return nil, nil }

func f() *int {
	g := func() *int {
		q, _ := pair()
		return q
	}
	return g()
}
