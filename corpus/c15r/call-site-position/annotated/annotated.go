// Package annotated is run with the default flags. A comment at the end of the line of a call of a contracted
// function annotates the argument site and the result site of that call: the sites that the analysis of the
// function body creates for the call and the sites that the annotation reader creates must be the same ones.
// In every function below the argument is nonnil, so without the annotation the contract makes the result nonnil.
package annotated

type B struct{ v *int }

// pick never dereferences its receiver.
// contract(nonnil -> nonnil)
func (b *B) pick(x *int) *int {
	if x != nil {
		return new(int)
	}
	return nil
}

func plainCall(b *B) int {
	a := new(int)
	r := pickFunc(a) // nilable(param 0, result 0)
	return *r        // unsafe: the annotation of the call site is used //REPORT
}

// contract(nonnil -> nonnil)
func pickFunc(x *int) *int {
	if x != nil {
		return new(int)
	}
	return nil
}

func selectorCall(b *B) int {
	a := new(int)
	r := b.pick(a) // nilable(result 0) //REPORT
	return *r      // unsafe: the annotation of the call site is used //REPORT
}

func selectorCallNotAnnotated(b *B) int {
	a := new(int)
	r := b.pick(a)
	return *r // safe //SILENT
}

func parenthesisedCallee(b *B) int {
	a := new(int)
	r := (b.pick)(a) // nilable(result 0)
	return *r        // unsafe //REPORT
}

func methodExpression(b *B) int {
	a := new(int)
	r := (*B).pick(b, a) // nilable(result 0)
	return *r            // unsafe //REPORT
}
