// Package annotatedchain is run with the default flags. The comment at the end of a line annotates the calls of
// contracted functions that start on the line; the two calls of the chain are two call sites.
package annotatedchain

type B struct{ v *int }

// next never dereferences its receiver.
// contract(nonnil -> nonnil)
func (b *B) next(x *int) *B {
	if x != nil {
		return &B{v: x}
	}
	return nil
}

func chain(b *B) int {
	a := new(int)
	r := b.next(a).next(a) // nilable(result 0) //REPORT
	return *r.v            // unsafe: the comment annotates the calls of its line //REPORT
}

func chainNotAnnotated(b *B) int {
	a := new(int)
	r := b.next(a).next(a)
	return *r.v // safe //SILENT
}
