// Package v2chain is run with -experimental-struct-init-v2: the result of Pass is its parameter, so
// every call of Pass has a call-scoped result site, identified by the location of the call.
package v2chain

type B struct{ v *int }

// Pass never dereferences its receiver.
func (b *B) Pass(p *B) *B { return p }

func twoStatements(b *B, x *B) int {
	if x == nil || x.v == nil {
		return 0
	}
	c := b.Pass(nil)
	d := c.Pass(x)
	return *d.v //SILENT
}

func chained(b *B, x *B) int {
	if x == nil || x.v == nil {
		return 0
	}
	d := b.Pass(nil).Pass(x)
	return *d.v
}
