// Package chain is run with the default flags. Every call of the contracted method With has a result site and an
// argument site of its own.
package chain

type B struct{ v *int }

// With never dereferences its receiver.
// contract(nonnil -> nonnil)
func (b *B) With(p *int) *B {
	if p == nil {
		return nil
	}
	return &B{v: p}
}

func twoStatements(b *B) int {
	x := new(int)
	c := b.With(nil)
	d := c.With(x)
	return *d.v // safe: the argument of the second call is nonnil //SILENT
}

func chained(b *B) int {
	x := new(int)
	d := b.With(nil).With(x)
	return *d.v // safe: the same two calls, written as a chain //SILENT
}

func chainedParenthesised(b *B) int {
	x := new(int)
	d := ((b.With)(nil).With)(x)
	return *d.v // safe //SILENT
}

func chainedThrice(b *B) int {
	x := new(int)
	d := b.With(nil).With(nil).With(x)
	return *d.v // safe //SILENT
}

func chainedMultiLine(b *B) int {
	x := new(int)
	d := b.
		With(nil).
		With(x)
	return *d.v // safe //SILENT
}

func chainedOuterNil(b *B) int {
	x := new(int)
	d := b.With(x).With(nil)
	return *d.v // unsafe: the result of the outer call is nil //REPORT
}

func chainedInnerDereferenced(b *B) int {
	x := new(int)
	return *b.With(nil).v + // unsafe: the result of the call is nil //REPORT
		*b.With(x).v // safe //SILENT
}

func methodExpression(b *B) int {
	x := new(int)
	d := (*B).With((*B).With(b, nil), x)
	return *d.v // safe //SILENT
}
