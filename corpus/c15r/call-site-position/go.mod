module ex.com/callsite

go 1.23
