package a

// Get returns nil.
func Get() *int {
	return nil
}

//nolint:nilaway
func Quiet() int {
	var p *int
	_ = p
	return 0
}
