module ex.com/c11kf

go 1.22
