package b

import "ex.com/c11kf/a"

func get() *int {
	return nil
}

// Use uses things.
func Use() int {
	_ = a.Get
	return *get()
}
