// Package paramout: one callee that writes a field and a field below it through its parameter,
// called from many functions of the package.
package paramout

type Inner struct{ c *int }

type A struct {
	b *Inner
}

// fill writes the paths "b" and "b.c" through its parameter 0: the list of its write paths is
// ["b", "b.c"] in lexicographic order and ["b.c", "b"] in the order the call sites want.
func fill(p *A) {
	p.b = &Inner{}
	p.b.c = nil
}

func caller00(x *A) int {
	fill(x)
	return *x.b.c //want "dereferenced"
}

func caller01(x *A) int {
	fill(x)
	return *x.b.c //want "dereferenced"
}

func caller02(x *A) int {
	fill(x)
	return *x.b.c //want "dereferenced"
}

func caller03(x *A) int {
	fill(x)
	return *x.b.c //want "dereferenced"
}

func caller04(x *A) int {
	fill(x)
	return *x.b.c //want "dereferenced"
}

func caller05(x *A) int {
	fill(x)
	return *x.b.c //want "dereferenced"
}

func caller06(x *A) int {
	fill(x)
	return *x.b.c //want "dereferenced"
}

func caller07(x *A) int {
	fill(x)
	return *x.b.c //want "dereferenced"
}

func caller08(x *A) int {
	fill(x)
	return *x.b.c //want "dereferenced"
}

func caller09(x *A) int {
	fill(x)
	return *x.b.c //want "dereferenced"
}

func caller10(x *A) int {
	fill(x)
	return *x.b.c //want "dereferenced"
}

func caller11(x *A) int {
	fill(x)
	return *x.b.c //want "dereferenced"
}

func caller12(x *A) int {
	fill(x)
	return *x.b.c //want "dereferenced"
}

func caller13(x *A) int {
	fill(x)
	return *x.b.c //want "dereferenced"
}

func caller14(x *A) int {
	fill(x)
	return *x.b.c //want "dereferenced"
}

func caller15(x *A) int {
	fill(x)
	return *x.b.c //want "dereferenced"
}

func caller16(x *A) int {
	fill(x)
	return *x.b.c //want "dereferenced"
}

func caller17(x *A) int {
	fill(x)
	return *x.b.c //want "dereferenced"
}

func caller18(x *A) int {
	fill(x)
	return *x.b.c //want "dereferenced"
}

func caller19(x *A) int {
	fill(x)
	return *x.b.c //want "dereferenced"
}

func caller20(x *A) int {
	fill(x)
	return *x.b.c //want "dereferenced"
}

func caller21(x *A) int {
	fill(x)
	return *x.b.c //want "dereferenced"
}

func caller22(x *A) int {
	fill(x)
	return *x.b.c //want "dereferenced"
}

func caller23(x *A) int {
	fill(x)
	return *x.b.c //want "dereferenced"
}
