module ex.com/c16

go 1.23
