package runtime

import (
	"context"
	"io"

	"stubs/github.com/a-h/templ"
)

type GeneratedComponentInput struct {
	Writer  io.Writer
	Context context.Context
}

func GeneratedTemplate(fn func(GeneratedComponentInput) error) templ.Component {
	return templ.ComponentFunc(func(ctx context.Context, w io.Writer) error {
		return fn(GeneratedComponentInput{Context: ctx, Writer: w})
	})
}

type Buffer struct {
	io.Writer
}

func (b Buffer) WriteString(s string) (int, error) {
	return 0, nil
}

func GetBuffer(w io.Writer) (Buffer, bool) {
	return Buffer{w}, true
}

func ReleaseBuffer(buf Buffer) error {
	return nil
}

func WriteString(w io.Writer, lineNumber int, s string) error {
	return nil
}
