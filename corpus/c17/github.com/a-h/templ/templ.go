package templ

import (
	"context"
	"io"
)

type Component interface {
	Render(ctx context.Context, w io.Writer) error
}

type ComponentFunc func(ctx context.Context, w io.Writer) error

// Render the template.
func (cf ComponentFunc) Render(ctx context.Context, w io.Writer) error {
	return cf(ctx, w)
}

type Error struct {
	Err      error
	FileName string
	Line     int
	Col      int
}

func (e Error) Error() string { return "templ-error" }

func InitializeContext(ctx context.Context) context.Context {
	return ctx
}

func GetChildren(ctx context.Context) Component {
	return NopComponent
}

func ClearChildren(ctx context.Context) context.Context {
	return ctx
}

var NopComponent Component

func JoinStringErrs(s string) (string, error) {
	return s, nil
}

func EscapeString(s string) string {
	return s
}
