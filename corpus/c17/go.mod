module stubs

go 1.23
