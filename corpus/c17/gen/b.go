// Package gen: an excluded (generated) file that sorts before an analysed one, and conflicts of every kind in the
// analysed file -- among them single-assertion conflicts without producer position (unguarded deep reads), which
// make the grouping stage look at the files of the package.
package gen

func deepRead(c bool) int {
	mp := make(map[int]*int)
	if c {
		return *mp[0]
	}
	return *mp[1]
}

func src() *int { return nil }

func flow() int { return *src() + *src() }
