package templ

import (
	"stubs/github.com/a-h/templ"
	templruntime "stubs/github.com/a-h/templ/runtime"
)

// Comp: a templ component whose function literal declares and calls a closure with three arguments. The component's
// literal is analysed as part of Comp and, with -experimental-anonymous-function, as a function of its own: two
// goroutines reach the call g(p, q, r), whose argument slice has spare capacity (regression program of finding F34).
func Comp(p, q, r *int) templ.Component {
	return templruntime.GeneratedTemplate(func(in templruntime.GeneratedComponentInput) error {
		y := new(int)
		g := func(a, b, c *int) { _ = *y }
		g(p, q, r)
		h := func(a, b, c *int) { _ = *y }
		h(q, r, p)
		k := func(a, b, c *int) { _ = *y }
		k(r, p, q)
		return nil
	})
}
