package templ


import (
	"context"
	"io"
)


func main() {
	ctx := context.Background()
	writer := io.Discard
    Hello().Render(ctx, writer)
}
