// Package d calls a method of a type from package a without importing a itself.
package d

import "demo.test/c03/split/b"

func Use() int {
	x := 1
	r := b.New().Pass(&x)
	return *r //SILENT
}

func UseNil() int {
	r := b.New().Pass(nil)
	return *r //REPORT
}
