// Package a holds the type and its contracted method.
package a

type T struct{ n int }

// Pass returns nil only when given nil, i.e., the contract "nonnil -> nonnil" is inferred for it.
func (t *T) Pass(p *int) *int {
	if p != nil {
		return new(int)
	}
	return nil
}
