module demo.test/c03/split

go 1.23
