// Package b hands out values of a type declared in its dependency.
package b

import "demo.test/c03/split/a"

func New() *a.T { return &a.T{} }
