module ex.com/c02

go 1.23
