// Package a: nil-checked dereferences next to language constructs the program generator does not produce (channel
// receives in every form, range loops, map lookups, type assertions, closures, select, defer, labelled loops).
// Every SILENT line is a dereference that every path reaches only after a successful nil check of the same variable;
// REPORT lines are unprotected controls.
package a

type T struct{ V int }

var src *T

func get() *T { return src }

func recvFromFuncValue(open func() chan *T, x *T) int {
	v, ok := <-open()
	_ = v
	if !ok {
		return 0
	}
	if x != nil {
		return x.V //SILENT
	}
	return 0
}

func recvFromMake(x *T) int {
	v, ok := <-make(chan *T)
	_, _ = v, ok
	if x == nil {
		return 0
	}
	return x.V //SILENT
}

func recvFromField(s struct{ c func() chan *T }, x *T) int {
	var v *T
	var ok bool
	v, ok = <-s.c()
	_, _ = v, ok
	for nil != x {
		return x.V //SILENT
	}
	return 0
}

func recvPlain(c chan *T, x *T) int {
	v, ok := <-c
	if ok && v != nil {
		return v.V //SILENT
	}
	if x != nil {
		return x.V //SILENT
	}
	return 0
}

func rangeOverLiteral(x *T) int {
	n := 0
	for _, v := range []*T{{}, {}} {
		if v != nil {
			n += v.V //SILENT
		}
	}
	if x != nil {
		n += x.V //SILENT
	}
	return n
}

func mapLookup(m map[string]*T, x *T) int {
	v, ok := m["k"]
	if ok && v != nil {
		return v.V //SILENT
	}
	if x == nil {
		return 0
	}
	return x.V //SILENT
}

func typeAssert(i interface{}, x *T) int {
	v, ok := i.(*T)
	if ok && v != nil {
		return v.V //SILENT
	}
	switch x {
	case nil:
		return 0
	}
	return x.V //SILENT
}

func closureAndDefer(x *T) (n int) {
	defer func() {
		if x != nil {
			n += x.V //SILENT
		}
	}()
	f := func(y *T) int {
		if y == nil {
			return 0
		}
		return y.V //SILENT
	}
	return f(x)
}

func selectRecv(c chan *T, d chan *T, x *T) int {
	select {
	case v, ok := <-c:
		if ok && v != nil {
			return v.V //SILENT
		}
	case v := <-d:
		if v != nil {
			return v.V //SILENT
		}
	}
	if x != nil || false {
		if x != nil {
			return x.V //SILENT
		}
	}
	return 0
}

func labelled(xs []*T) int {
	n := 0
outer:
	for _, x := range xs {
		for i := 0; i < 2; i++ {
			if x == nil {
				continue outer
			}
			n += x.V //SILENT
		}
	}
	return n
}

func unprotected() int {
	x := get()
	return x.V //REPORT
}
