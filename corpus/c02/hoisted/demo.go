// Package c02demo is the demonstration input for property C02 (second half): every function has a
// single call site, no pointer is kept in a package-level variable, and a diagnostic may only
// appear at an unprotected dereference that some execution really reaches with nil.
//
// `wrap` and `pick` return nil only when they are given nil (the nil check of the parameter is
// hoisted above a loop), and their only call sites pass a freshly allocated object. So the
// dereferences in `useWrap` and `usePick` can never panic and must not be reported.
package hoisted

type T struct {
	f int
}

type I interface {
	M() int
}

func (t *T) M() int { return t.f }

var counter int

// wrap returns its (nil-checked) parameter as an interface value; the check is hoisted above a loop.
func wrap(p *T) I {
	if p == nil {
		return nil
	}
	for i := 0; i < 3; i++ {
		counter += i
	}
	return p
}

func useWrap() int {
	v := wrap(&T{f: 1})
	return v.M() // never nil here: wrap(nonnil) is nonnil //SILENT
}

// pick copies its parameter into a local under a nil check, runs a loop, and returns the local.
func pick(p *T) *T {
	var r *T
	if p != nil {
		r = p
	}
	for i := 0; i < 3; i++ {
		counter += i
	}
	return r
}

func usePick() int {
	v := pick(&T{f: 2})
	return v.f // never nil here: pick(nonnil) is nonnil //SILENT
}

// Control (keeps the test from passing vacuously): the same shape called with nil does panic,
// and is reported with and without the change.
func wrapNil(p *T) I {
	if p == nil {
		return nil
	}
	for i := 0; i < 3; i++ {
		counter += i
	}
	return p
}

func useWrapNil() int {
	v := wrapNil(nil)
	return v.M() //REPORT
}

func main() {
	counter += useWrap() + usePick() + useWrapNil()
}
