// Package c02switch is demo input for property C02 (nil-checked dereferences are never reported): every
// dereference below except the one in `control` is reached only after a successful nil check of the same
// variable, where the check is a conjunction / disjunction with another condition, written as a (non-first)
// case of a tagless switch. The only expected diagnostic is the one in `control`.
package switches

type T struct {
	f    int
	next *T
}

var sink int

// guardedInLaterCase: the dereference is protected by the conjunction `x != nil && n > 0` of the second case.
func guardedInLaterCase(x *T, n int) int {
	switch {
	case n < 0:
		return -1
	case x != nil && n > 0:
		return x.f //SILENT
	}
	return 0
}

// earlyReturnInLaterCase: early return on `x == nil` (disjunction with another condition) in the second case.
func earlyReturnInLaterCase(x *T, n int) int {
	switch {
	case n < 0:
		return -1
	case x == nil || n == 0:
		return 0
	}
	return x.f //SILENT
}

// negatedInLaterCase: a negated disjunction in the third case.
func negatedInLaterCase(x *T, n int) int {
	switch {
	case n < 0:
		return -1
	case n > 100:
		return 100
	case !(x == nil || n == 0):
		return x.f //SILENT
	}
	return 0
}

// hoistedAboveLoop: the check is hoisted above a loop.
func hoistedAboveLoop(x *T, n int) {
	switch {
	case n < 0:
		return
	case n == 0 || x == nil:
		return
	}
	for i := 0; i < n; i++ {
		sink += x.f //SILENT
	}
}

// firstCase: the same conjunction as the first case of the switch (and as an if statement) for comparison.
func firstCase(x *T, n int) int {
	switch {
	case x != nil && n > 0:
		return x.f //SILENT
	}
	if x != nil && n > 0 {
		return x.f //SILENT
	}
	return 0
}

// control: an unprotected dereference that really panics (reported with and without the change).
func control(x *T) int {
	return x.f //REPORT
}

func calls() {
	sink = guardedInLaterCase(nil, 1)
	sink = earlyReturnInLaterCase(nil, 1)
	sink = negatedInLaterCase(nil, 1)
	hoistedAboveLoop(nil, 1)
	sink = firstCase(nil, 1)
	sink = control(nil)
}
