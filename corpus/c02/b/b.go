// Package b holds only nil-checked dereferences; it is analysed in the same process as package a (whose functions
// contain channel receives): nothing of a's analysis may leak into it.
package b

type T struct{ V int }

func ne(x *T) int {
	if x != nil {
		return x.V //SILENT
	}
	return 0
}

func early(x *T) int {
	if x == nil {
		return 0
	}
	return x.V //SILENT
}

func or(x *T, c bool) int {
	if x == nil || c {
		return 0
	}
	return x.V //SILENT
}

func loop(x *T) int {
	n := 0
	for x != nil && n < 3 {
		n += x.V //SILENT
	}
	return n
}

func sw(x *T) int {
	switch x {
	case nil:
		return 0
	default:
		return x.V //SILENT
	}
}
