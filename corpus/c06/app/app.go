// Package app uses store's externally visible sites from another package.
package app

import (
	"ex.com/c06/iface"
	"ex.com/c06/store"
)

func viaConstructor() int {
	c := store.New()
	r := c.Lookup(false).V //REPORT
	r += c.Keep().V        //SILENT
	return r
}

func viaEmbedding() int {
	p := store.NewPublic()
	r := p.Lookup(false).V //REPORT
	r += p.Keep().V        //SILENT
	return r
}

func viaVariable() int {
	return store.Shared.Lookup(false).V //REPORT
}

func relayed() int {
	c := store.New()
	r := c.OrDefault(nil, false).V      //REPORT
	r += c.OrDefault(&store.T{}, true).V //REPORT
	return r
}

func paramOfMethod() int {
	c := store.New()
	return c.Use(nil) //REPORT
}

func viaInterface() int {
	var g iface.Getter = store.New()
	r := g.Lookup(false).V //REPORT
	return r
}

func viaExportedType(t *store.Table) int {
	return t.Lookup(false).V //REPORT
}

func throughHelpers() int {
	return store.Through(nil, 0).V //REPORT
}
