// Package store: which of a package's sites are externally visible. Exported methods of an unexported type are: the
// type is handed out by an exported constructor, promoted through an exported struct, stored in an exported variable.
package store

type T struct{ V int }

type cache struct{ val *T }

// Lookup returns nil on a miss.
func (c *cache) Lookup(hit bool) *T {
	if hit {
		return c.val
	}
	return nil
}

// Keep never returns nil.
func (c *cache) Keep() *T { return &T{} }

// OrDefault relays its parameter: nothing in this package decides the nilability of v or of the result.
func (c *cache) OrDefault(v *T, cached bool) *T {
	if cached {
		return &T{}
	}
	return v
}

// Use dereferences its parameter.
func (c *cache) Use(v *T) int { return v.V }

// New is the exported constructor of the unexported type.
func New() *cache { return &cache{val: &T{}} }

// Public promotes the methods of cache.
type Public struct{ cache }

func NewPublic() *Public { return &Public{cache{val: &T{}}} }

// Shared is an exported variable of the unexported type.
var Shared = &cache{val: &T{}}

// Table is an exported type with the same methods: the control.
type Table struct{ val *T }

func (t *Table) Lookup(hit bool) *T {
	if hit {
		return t.val
	}
	return nil
}

// exported function relaying through two nested unexported helpers (a path of unexported sites between exported ones)
func Through(p *T, n int) *T { return outer(p, n) }
func outer(p *T, n int) *T   { return inner(p, n) }
func inner(p *T, n int) *T   { return p }

// exported field of an unexported struct reached through an exported function
type rec struct{ F *T }

func NewRec() *rec { return &rec{} }
