// Package iface declares an interface implemented by store's unexported type.
package iface

import "ex.com/c06/store"

type Getter interface {
	Lookup(hit bool) *store.T
	Keep() *store.T
}
