module ex.com/c06

go 1.23
