module ex.com/m3

go 1.23
