package a

type T struct{ V int }

// nilable(result 0)
func R1() *T { return nil }

// nilable(result 0)
func R2() *T { return nil }

// nilable(x)
func P1(x *T) {}

// nonnil(x)
func P2(x *T) {}

// nilable(G1)
var G1 *T

// nilable(G2)
var G2 *T

func N1() int {
	var p *T
	return p.V //nolint:nilaway
}

func N2() int {
	var p *T
	return p.V //nolint:nilaway
}

func N3() int {
	var p *T
	return p.V //nolint:nilaway
}
