package b

import "ex.com/m3/a"

func U() int { return a.R1().V + a.R2().V }
