package a

type T struct{ V int }

var Opaque func() bool

// Id4 gets a nonnil->nonnil contract and has two nil-returning statements, so the call-site
// parameter site at Id4(p) controls two triggers; their activation order follows Go map order and
// decides the order of the two diagnostics reported at the same position (finding F11a).
func Id4(x *T) *T {
	if x == nil {
		if Opaque() {
			return nil
		}
		return nil
	}
	return x
}

func C(p *T) int {
	a := Id4(p)
	return a.V
}

func D() int {
	return C(nil)
}
