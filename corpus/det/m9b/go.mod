module ex.com/m9b

go 1.23
