module ex.com/m13

go 1.23
