package pos

// FromB: a contracted function declared in b.go.
//
// contract(nonnil -> nonnil)
func FromB(y *int) *int {
	Sink(y)
	if y != nil {
		return y
	}
	return nil
}
