package pos

// FromA: a contracted function declared in a.go.
//
// contract(nonnil -> nonnil)
func FromA(x *int) *int {
	Sink(x)
	if x != nil {
		return x
	}
	return nil
}
