package pos

// Caller calls two contracted functions declared in two other files: nothing observable may depend on the order in
// which the driver happened to register a.go and b.go in the file set.
func Caller() {
	FromB(nil)
	FromA(nil)
}

// Sink dereferences its parameter.
func Sink(p *int) {
	_ = *p
}
