module ex.com/m5

go 1.23
