package a

type T struct{ V int }

type Base interface{ A() *T }

type I1 interface {
	Base
	M1() *T
}

type I2 interface {
	Base
	M2() *T
}

type S struct{}

func (*S) A() *T  { return &T{} }
func (*S) M1() *T { return &T{} }
func (*S) M2() *T { return nil }

func use1(i I1) int { return i.M1().V }
func use2(i I2) int { return i.M2().V }

func zmain1() int {
	var i1 I1 = &S{}
	return use1(i1)
}

func main2() int {
	var i2 I2 = &S{}
	return use2(i2)
}

