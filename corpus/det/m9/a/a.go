package a

type T struct{ V int }

func G(x *T) {}

func Id6(x *T) *T {
	G(x)
	if x == nil {
		return nil
	}
	return x
}

func Id7(x *T) *T {
	G(x)
	if x == nil {
		return nil
	}
	return x
}

func C(p, q *T) (*T, *T) {
	a := Id6(p)
	b := Id7(q)
	return a, b
}
