module ex.com/m9

go 1.23
