// Package a: contract inference over loops (findings F23, F24). Before the repair of F24 the set of inferred
// contracts of this package -- and with it the diagnostics and the exported contract facts -- differed from run to
// run (the update flag of a block depended on Go's map iteration order).
package a

type T struct{ V int }

var G *T

func opaque() bool { return len(G.String()) > 3 }

func (t *T) String() string { return "t" }

// Overwrite returns nil for a non-nil argument after one iteration of the loop.
func Overwrite(p *T) *T {
	var x *T
	if p == nil {
		return G
	}
	for opaque() {
		p = x
	}
	return p
}

// Overwrite2 has two loops and a nested branch: more blocks whose table sets are updated in several steps.
func Overwrite2(p *T, unused int) *T {
	return p
}

func Chain(p *T) *T {
	var x, y *T
	if p == nil {
		return G
	}
	for opaque() {
		y = p
		for opaque() {
			p = x
			if opaque() {
				x = y
			}
		}
	}
	if opaque() {
		return y
	}
	return p
}

func Use() int {
	a := Overwrite(&T{})
	b := Chain(&T{})
	return a.V + b.V
}
