module ex.com/m10

go 1.23
