package nolintparsing

func get() *int { return nil }

// Not nolint directives: MUST be reported.

func r1() int {
	return *get() //nolintlint //REPORT
}

func r2() int {
	return *get() // nolinting this would be wrong //REPORT
}

func r3() int {
	return *get() //nolint:errcheck // nolint:nilaway is not wanted here //REPORT
}

func r4() int {
	return *get() //nolint:errcheck, govet //REPORT
}

// nolint directives that cover nilaway: must NOT be reported.

func s1() int {
	return *get() //nolint:errcheck, nilaway //SILENT
}

func s2() int {
	return *get() //nolint: nilaway , errcheck //SILENT
}

func s3() int {
	return *get() //nolint TODO: remove //SILENT
}

func s4() int {
	return *get() //nolint:errcheck,nilaway //SILENT
}

func s5() int {
	return *get() // nolint     :   nilaway // Explanation //SILENT
}

func s6() int {
	return *get() //nolint //SILENT
}

func s7() int {
	return *get() //nolint // TODO: remove //SILENT
}

func s8() int {
	return *get() //nolint:all // see https://example.com/x //SILENT
}

func s9() int {
	return *get() ////nolint:nilaway //SILENT
}
