module ex.com/nolintparsing

go 1.23
