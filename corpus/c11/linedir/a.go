// Package linedir: nolint comments and findings below //line directives (finding F54, repaired): the line range of
// a nolint comment and the position of every kind of conflict must name the same (physical) lines.
package linedir

func getA() *int { return nil }
func getB() *int { return nil }

func plain() int {
	return *getA() //REPORT
}

//line a.go:100
func shifted() int {
	x := *getA() //REPORT
	y := *getB() //nolint:nilaway //SILENT
	return x + y
}

//line gen.y:500
func other() int {
	x := *getA() //REPORT
	y := *getB() //nolint:nilaway //SILENT
	var p *int
	z := *p //REPORT
	var q *int
	w := *q //nolint:nilaway //SILENT
	return x + y + z + w
}
