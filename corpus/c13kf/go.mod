module ex.com/filefilter

go 1.23
