package filefilter

func src() *int { return nil }
