package filefilter

func useD() {
	_ = *src()
}
