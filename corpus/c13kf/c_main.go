package filefilter

func useC() {
	_ = *src()
}
