package filefilter

func useB() {
	_ = *src()
}
