package blankres

import "errors"

var errSentinel = errors.New("sentinel")

// always returns (nil, nil): named error result that is never assigned
func blankNamedErr() (_ *int, err error) {
	return
}

func CallerBlankNamedErr() int {
	v, err := blankNamedErr()
	if err != nil {
		return 0
	}
	return *v // panics //REPORT
}

// always returns (nil, nil): both results blank
func blankBoth() (_ *int, _ error) {
	return
}

func CallerBlankBoth() int {
	v, err := blankBoth()
	if err != nil {
		return 0
	}
	return *v // panics //REPORT
}

// returns (nil, nil) on the bare return; the other return is non-nil ("always safe" must not be concluded)
func blankMixed(c bool) (_ *int, err error) {
	if c {
		return new(int), nil
	}
	return
}

func CallerBlankMixedUnchecked() int {
	v, _ := blankMixed(false)
	return *v // panics //REPORT
}

// respects the convention: the bare return is reached only with a non-nil error
func blankRespects(c bool) (_ *int, err error) {
	if c {
		return new(int), nil
	}
	err = errSentinel
	return
}

func CallerBlankRespects() int {
	v, err := blankRespects(true)
	if err != nil {
		return 0
	}
	return *v // safe //SILENT
}

// the type of the blank result cannot be nil
func blankInt() (_ int, err error) {
	return
}

func CallerBlankInt() int {
	v, err := blankInt()
	if err != nil {
		return 0
	}
	return v // safe //SILENT
}

// control: the same with a named, non-blank value result (handled before the fix as well)
func named() (v *int, err error) {
	return
}

func CallerNamed() int {
	v, err := named()
	if err != nil {
		return 0
	}
	return *v // panics //REPORT
}
