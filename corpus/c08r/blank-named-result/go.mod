module ex.com/blankres

go 1.23
