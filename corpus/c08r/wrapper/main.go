package main

import (
	"errors"
	"fmt"
)

type T struct{ x int }

var up bool // false at run time: every fallible operation fails

var errFail = errors.New("fail")

// load respects the convention; it merely happens to take an error-typed argument.
func load(prev error) (*T, error) {
	_ = prev
	if up {
		return &T{}, nil
	}
	return nil, errFail
}

// ---- callers that do not check: MUST be reported ----

func noCheckSentinelArg() int {
	v, _ := load(errFail)
	return v.x // line 27: nil dereference at run time //REPORT
}

func noCheckParamArg(e error) int {
	v, _ := load(e)
	return v.x // line 32: nil dereference at run time //REPORT
}

func noCheckTrustedCallArg() int {
	v, _ := load(errors.New("x"))
	return v.x // line 37: nil dereference at run time //REPORT
}

// ---- callee that breaks the convention, relied upon by a checking caller: MUST be reported ----

func loadBad(prev error) (*T, error) {
	_ = prev
	return nil, nil // line 44: nil result with nil error //REPORT
}

func checkedBad(e error) int {
	v, err := loadBad(e)
	if err != nil {
		return 0
	}
	return v.x // line 52 //REPORT
}

// ---- callers that check: must NOT be reported ----

func checked(e error) int {
	v, err := load(e)
	if err != nil {
		return 0
	}
	return v.x // line 62: safe //SILENT
}

// ---- the error-wrapper heuristic itself is kept: a single-result wrapper called with an error
// argument is still a trusted non-nil error, so `nil, wrap(err)` is still a fine return ----

func wrap(err error) error { return fmt.Errorf("wrapped: %w", err) }

func loadWrapped() (*T, error) {
	if up {
		return &T{}, nil
	}
	return nil, wrap(errFail) // line 74: must NOT be reported //SILENT
}

func checkedWrapped() int {
	v, err := loadWrapped()
	if err != nil {
		return 0
	}
	return v.x // line 82: safe //SILENT
}

// control: same callee without the error argument (always reported)
func load0() (*T, error) {
	if up {
		return &T{}, nil
	}
	return nil, errFail
}

func noCheck0() int {
	v, _ := load0()
	return v.x // line 95: reported with and without the patch //REPORT
}

func main() {
	println(checked(nil), checkedWrapped())
	println(noCheckSentinelArg())
}
