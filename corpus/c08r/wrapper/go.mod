module ex.com/errwrapmulti

go 1.23
