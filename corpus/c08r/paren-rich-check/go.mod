module ex.com/parenrich

go 1.23
