package paren

import "errors"

func f(fail bool) (*int, error) {
	if fail {
		return nil, errors.New("x")
	}
	i := 0
	return &i, nil
}

func lookup(fail bool) (*int, bool) {
	if fail {
		return nil, false
	}
	i := 0
	return &i, true
}

func CallerParen() int {
	v, err := (f(false))
	if err != nil {
		return 0
	}
	return *v // safe //SILENT
}

func CallerOkParen() int {
	v, ok := (lookup(false))
	if !ok {
		return 0
	}
	return *v // safe //SILENT
}

func CallerMapParen(m map[string]*int) int {
	v, ok := (m["a"])
	if !ok {
		return 0
	}
	return *v // safe //SILENT
}

func CallerChanParen(c chan *int) int {
	v, ok := (<-c)
	if !ok {
		return 0
	}
	return *v // safe //SILENT
}

func CallerUncheckedParen() int {
	v, _ := (f(true))
	return *v // panics //REPORT
}

func CallerUncheckedOkParen() int {
	v, _ := (lookup(true))
	return *v // panics //REPORT
}
