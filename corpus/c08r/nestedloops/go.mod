module ex.com/richchecknested

go 1.23
