package main

import "errors"

type T struct{ x int }

var up bool // false at run time: every fallible operation fails

var errFail = errors.New("fail")

func loadFail() (*T, error) {
	if up {
		return &T{}, nil
	}
	return nil, errFail
}

func lookup(k int) (*T, bool) {
	if up {
		return &T{}, true
	}
	return nil, false
}

// ---- safe: the caller checks before dereferencing; must NOT be reported ----

// call in the inner one of two nested loops, err checked after the loops
func nested(rounds int) int {
	v := &T{}
	var err error
	for r := 0; r < rounds; r++ {
		for a := 0; a < 3; a++ {
			v, err = loadFail()
		}
	}
	if err != nil {
		return -1
	}
	return v.x // line 39: safe //SILENT
}

// the original observation: labelled break on success
func nestedLabelledBreak(rounds int) int {
	v := &T{}
	var err error
retry:
	for r := 0; r < rounds; r++ {
		for a := 0; a < 3; a++ {
			v, err = loadFail()
			if err == nil {
				break retry
			}
		}
	}
	if err != nil {
		return -1
	}
	return v.x // line 58: safe //SILENT
}

// ok-returning callee
func okNested(n int) int {
	v := &T{}
	ok := true
	for i := 0; i < n; i++ {
		for j := 0; j < n; j++ {
			v, ok = lookup(j)
		}
	}
	if !ok {
		return -1
	}
	return v.x // line 73: safe //SILENT
}

// three levels, labelled continue
func triple(n int) int {
	v := &T{}
	var err error
outer:
	for i := 0; i < n; i++ {
		for j := 0; j < n; j++ {
			for k := 0; k < n; k++ {
				v, err = loadFail()
				if err != nil {
					continue outer
				}
			}
		}
	}
	if err != nil {
		return -1
	}
	return v.x // line 94: safe //SILENT
}

// single loop (never reported, control)
func single(rounds int) int {
	v := &T{}
	var err error
	for r := 0; r < rounds; r++ {
		v, err = loadFail()
	}
	if err != nil {
		return -1
	}
	return v.x // line 107: safe //SILENT
}

// ---- unsafe: must be reported (before and after the patch) ----

// err reset on some path of the outer loop body after the inner loop
func invalidatedAfter(rounds int) int {
	v := &T{}
	var err error
	for r := 0; r < rounds; r++ {
		for a := 0; a < 3; a++ {
			v, err = loadFail()
		}
		if r == 1 {
			err = nil
		}
	}
	if err != nil {
		return -1
	}
	return v.x // line 127: nil dereference at run time (rounds = 2) //REPORT
}

// err reset at the top of the outer loop body, before the inner loop
func invalidatedBefore(n int) int {
	v := &T{}
	var err error
	for i := 0; i < n; i++ {
		err = nil
		for j := 0; j < 3-i; j++ {
			v, err = loadFail()
		}
	}
	if err != nil {
		return -1
	}
	return v.x // line 143: nil dereference at run time (n = 4) //REPORT
}

// err reset inside the inner loop, after the call
func invalidatedInner(n int) int {
	v := &T{}
	var err error
	for i := 0; i < n; i++ {
		for j := 0; j < 3; j++ {
			v, err = loadFail()
			if j == 2 {
				err = nil
			}
		}
	}
	if err != nil {
		return -1
	}
	return v.x // line 161: nil dereference at run time //REPORT
}

// no check at all
func nestedNoCheck(rounds int) int {
	v := &T{}
	for r := 0; r < rounds; r++ {
		for a := 0; a < 3; a++ {
			v, _ = loadFail()
		}
	}
	return v.x // line 172: nil dereference at run time //REPORT
}

func main() {
	println(nested(2), nestedLabelledBreak(2), okNested(2), triple(2), single(2))
	println(invalidatedBefore(4))
}
