package main

type T struct{ f int }

func switchTrue(x *T) int {
	switch true {
	case x != nil:
		return x.f // line 8: protected //SILENT
	}
	return 0
}

func switchOnCheck(x *T) int {
	switch x != nil {
	case true:
		return x.f // line 16: protected //SILENT
	}
	return 0
}

func switchEarlyReturn(x *T) int {
	switch x == nil {
	case true:
		return 0
	}
	return x.f // line 26: protected //SILENT
}

func switchFalse(x *T) int {
	switch false {
	case x == nil:
		return x.f // line 32: protected //SILENT
	}
	return 0
}

func switchTrueConjunction(x *T, c bool) int {
	switch true {
	case c && x != nil:
		return x.f // line 40: protected //SILENT
	}
	return 0
}

func switchTrueNegation(x *T) int {
	switch true {
	case !(x == nil):
		return x.f // line 48: protected //SILENT
	}
	return 0
}

func switchTrueSecondCase(x *T, c bool) int {
	switch true {
	case c:
		return 1
	case x == nil:
		return 0
	}
	return x.f // line 60: protected //SILENT
}

func switchTrueCaseList(x *T, y *T) int {
	switch true {
	case x == nil, y == nil:
		return 0
	}
	return x.f + y.f // line 68: both protected //SILENT
}

// Controls: the dereference sits on the side where the check has failed.
func switchTrueWrongSide(x *T) int {
	switch true {
	case x == nil:
		return x.f // line 75: NOT protected, must be reported //REPORT
	}
	return 0
}

func switchOnCheckWrongSide(x *T) int {
	switch x != nil {
	case false:
		return x.f // line 83: NOT protected, must be reported //REPORT
	}
	return 0
}

func switchTrueNoCheckInFirstCase(x *T, c bool) int {
	switch true {
	case c:
		return x.f // line 91: NOT protected, must be reported //REPORT
	case x != nil:
		return 0
	}
	return 0
}

func main() {
	switchTrue(nil)
	switchOnCheck(nil)
	switchEarlyReturn(nil)
	switchFalse(nil)
	switchTrueConjunction(nil, true)
	switchTrueNegation(nil)
	switchTrueSecondCase(nil, false)
	switchTrueCaseList(nil, nil)
	switchTrueWrongSide(nil)
	switchOnCheckWrongSide(nil)
	switchTrueNoCheckInFirstCase(nil, true)
}
