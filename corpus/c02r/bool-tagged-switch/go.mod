module ex.com/boolswitch

go 1.23
