package main

// nilable(nxt)
type T struct {
	f   int
	nxt *T
}

func nested(x *T) int {
	if x.nxt != nil {
		if x != nil {
			return x.nxt.f // line 12: protected by `x.nxt != nil` //SILENT
		}
	}
	return 0
}

func hoisted(x *T) int {
	if x == nil || x.nxt == nil {
		return 0
	}
	s := 0
	for i := 0; i < 3 && x != nil; i++ {
		s += x.nxt.f // line 24: protected by the early return //SILENT
	}
	return s
}

func conjunction(x *T) int {
	if x != nil && x.nxt != nil && x != nil {
		return x.nxt.f // line 31: protected //SILENT
	}
	return 0
}

func inlineConjunction(x *T) bool {
	return x != nil && x.nxt != nil && x != nil && x.nxt.f == 1 // line 37: protected //SILENT
}

func earlyReturns(x *T) int {
	if x.nxt == nil {
		return 0
	}
	if x == nil {
		return 0
	}
	return x.nxt.f // line 47: protected //SILENT
}

func assignedBeforeCheck(x *T) int {
	x.nxt = &T{}
	if x != nil {
		return x.nxt.f // line 53: x.nxt was assigned a non-nil value //SILENT
	}
	return 0
}

// Controls: a check of `x` alone does not protect a dereference of `x.nxt`.
func onlyPrefixChecked(x *T) int {
	if x != nil {
		return x.nxt.f // line 61: NOT protected, must be reported //REPORT
	}
	return 0
}

func reassignedAfterFieldCheck(x *T, y *T) int {
	if x.nxt != nil {
		x = y
		if x != nil {
			return x.nxt.f // line 70: NOT protected (x was re-assigned), must be reported //REPORT
		}
	}
	return 0
}

func unprotected(x *T) int {
	return x.nxt.f // line 77: NOT protected, must be reported //REPORT
}

func main() {
	t := &T{}
	nested(t)
	hoisted(t)
	conjunction(t)
	inlineConjunction(t)
	earlyReturns(t)
	assignedBeforeCheck(t)
	onlyPrefixChecked(t)
	reassignedAfterFieldCheck(t, t)
	unprotected(t)
}
