module ex.com/prefixrecheck

go 1.23
