package main

type T struct{ f int }

func (t *T) m() int { return t.f }

type I interface{ m() int }

func typedNil(x *T) int {
	if x != (*T)(nil) {
		return x.f // line 11: protected //SILENT
	}
	return 0
}

func typedNilEarlyReturn(x *T) int {
	if x == (*T)(nil) {
		return 0
	}
	return x.f // line 20: protected //SILENT
}

func typedNilReversedNegatedParens(x *T) int {
	if !(((*T)(nil)) == x) {
		return x.f // line 25: protected //SILENT
	}
	return 0
}

func typedNilConjunction(x *T, c bool) int {
	if c && x != (*T)(nil) {
		return x.f // line 32: protected //SILENT
	}
	return 0
}

func typedNilInline(x *T) bool {
	return x != (*T)(nil) && x.f == 1 // line 38: protected //SILENT
}

func typedNilInterface(i I) int {
	if i != I(nil) {
		return i.m() // line 43: protected //SILENT
	}
	return 0
}

// Not a nil check of i: the typed nil pointer is converted to a non-nil interface value, and a nil
// interface is different from it, so the call really panics when i is nil.
func interfaceAgainstTypedNilPointer(i I) int {
	if i != (*T)(nil) {
		return i.m() // line 52: NOT protected, must be reported //REPORT
	}
	return 0
}

func unprotected(x *T) int {
	return x.f // line 58: NOT protected, must be reported //REPORT
}

func main() {
	typedNil(nil)
	typedNilEarlyReturn(nil)
	typedNilReversedNegatedParens(nil)
	typedNilConjunction(nil, true)
	typedNilInline(nil)
	typedNilInterface(nil)
	unprotected(nil)
	interfaceAgainstTypedNilPointer(nil)
}
