module ex.com/typednil

go 1.23
