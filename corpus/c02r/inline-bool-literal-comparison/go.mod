module ex.com/booleqinline

go 1.23
