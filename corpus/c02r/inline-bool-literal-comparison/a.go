package main

type T struct{ f int }

func inlineEqTrue(x *T) bool {
	return (x != nil) == true && x.f == 1 // line 6: protected //SILENT
}

func inlineNeqTrue(x *T) bool {
	ok := (x == nil) != true && x.f == 1 // line 10: protected //SILENT
	return ok
}

func inlineEqFalse(x *T) bool {
	return false == (x == nil) && x.f == 1 // line 15: protected //SILENT
}

func inlineOr(x *T) bool {
	return (x == nil) == true || x.f == 1 // line 19: protected //SILENT
}

func inlineOrNeqFalse(x *T) bool {
	return (x != nil) != true || x.f == 1 // line 23: protected //SILENT
}

func inlineNested(x *T) bool {
	return ((x != nil) == true) != false && x.f == 1 // line 27: protected //SILENT
}

func take(b bool) bool { return b }

func inlineArgument(x *T) bool {
	return take((x != nil) == true && x.f == 1) // line 33: protected //SILENT
}

// Controls: the comparison with the boolean literal turns the check around, so the dereference
// is evaluated exactly when x is nil.
func inlineWrongSide(x *T) bool {
	return (x != nil) == false && x.f == 1 // line 39: NOT protected, must be reported //REPORT
}

func inlineOrWrongSide(x *T) bool {
	return (x == nil) != true || x.f == 1 // line 43: NOT protected, must be reported //REPORT
}

func main() {
	inlineEqTrue(nil)
	inlineNeqTrue(nil)
	inlineEqFalse(nil)
	inlineOr(nil)
	inlineOrNeqFalse(nil)
	inlineNested(nil)
	inlineArgument(nil)
	inlineWrongSide(nil)
	inlineOrWrongSide(nil)
}
