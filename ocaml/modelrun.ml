(* Runner for the extracted models: reads one case per line (integers), prints one result per line. *)
open Engine_model

let rec nat_of_int n = if n <= 0 then O else S (nat_of_int (n - 1))
let rec int_of_nat = function O -> 0 | S n -> 1 + int_of_nat n

(* a big fuel, built once *)
let fuel = nat_of_int 200000

let ints_of_line l =
  List.filter_map (fun s -> if s = "" then None else Some (int_of_string s)) (String.split_on_char ' ' l)

let rec expl_ints e = match e with
  | EAnnot (_, s) -> [int_of_nat s; -2]
  | EShallow (_, t) -> [int_of_nat t; -1]
  | EDeep (t, e') -> int_of_nat t :: expl_ints e'

let str_ints l = String.concat "," (List.map string_of_int l)
let str_expl e = str_ints (expl_ints e)
let str_edges l = String.concat "," (List.map (fun (s, t) -> Printf.sprintf "%d/%d" (int_of_nat s) (int_of_nat t)) l)
let str_entry (s, v) = match v with
  | Det e -> Printf.sprintf "%d=D%d(%s)" (int_of_nat s) (if eval_expl e then 1 else 0) (str_expl e)
  | Undet (i, o) -> Printf.sprintf "%d=U(i:%s;o:%s)" (int_of_nat s) (str_edges i) (str_edges o)
let str_map m = String.concat ";" (List.map str_entry m)
let str_conflict = function
  | CSingle t -> Printf.sprintf "S%d" (int_of_nat t)
  | COver (a, b) -> Printf.sprintf "O(%s|%s)" (str_expl a) (str_expl b)
let str_result r fact_s =
  Printf.sprintf "{C[%s];M[%s];X[%s];F%s}"
    (String.concat ";" (List.map str_conflict r.r_conflicts)) (str_map r.r_map)
    (str_ints (List.map int_of_nat r.r_chosen)) fact_s
let str_outcome = function
  | OutOfFuel -> "{OUT-OF-FUEL}"
  | Panicked r -> str_result r "!"
  | Finished r -> str_result r (match r.r_fact with None -> "-" | Some f -> "[" ^ str_map f ^ "]")

(* scenario := nsites {id exported param pkg}* npkgs {nimports imp* nannots {site val}* ntrig {id pk ck p c ctrl}*}* *)
let engine_line spec l =
  let a = Array.of_list (ints_of_line l) in
  let pos = ref 0 in
  let next () = let v = a.(!pos) in incr pos; v in
  let nsites = next () in
  let exported_tbl = Hashtbl.create 16 in
  for _ = 1 to nsites do
    let id = next () in let ex = next () in let _ = next () in let _ = next () in
    Hashtbl.replace exported_tbl id (ex = 1)
  done;
  let exported s = try Hashtbl.find exported_tbl (int_of_nat s) with Not_found -> false in
  let npkgs = next () in
  let kind k s = match k with 0 -> KAlways | 1 -> KNever | _ -> KCond (nat_of_int s) in
  let pkgs = List.init npkgs (fun _ ->
    let ni = next () in
    let imports = List.init ni (fun _ -> nat_of_int (next ())) in
    let na = next () in
    let annots = List.init na (fun _ -> let s = next () in let v = next () in (nat_of_int s, v = 1)) in
    let nt = next () in
    let trigs = List.init nt (fun _ ->
      let id = next () in let pk = next () in let ck = next () in let p = next () in let c = next () in let ctrl = next () in
      { t_id = nat_of_int id; t_prod = kind pk p; t_cons = kind ck c; t_ctrl = (if ctrl < 0 then None else Some (nat_of_int ctrl)) }) in
    { p_annots = annots; p_triggers = trigs; p_imports = imports }) in
  if spec then begin
    let outs = spec_pkgs exported fuel pkgs O [] in
    print_endline (String.concat " " (List.map (fun ((fl, n), m) ->
      Printf.sprintf "{flow=%d;N[%s];M[%s]}" (if fl then 1 else 0)
        (str_ints (List.sort compare (List.map int_of_nat n))) (str_ints (List.sort compare (List.map int_of_nat m)))) outs))
  end else begin
    let outs = run_pkgs exported fuel pkgs O [] in
    print_endline (String.concat " " (List.map str_outcome outs))
  end

(* diag case := grouping excl ntest {file}* nranges {file from to}* nconf {id file line col off nnil {node}* nnon {node}*}*
   node := ppvalid pfile pline pcol cpvalid cfile cline ccol prepr crepr sitevalid sitefile siteline sitecol ; a conflict ends with srcvalid srcfile srcline srccol *)
let diag_line l =
  let a = Array.of_list (ints_of_line l) in
  let pos = ref 0 in
  let next () = let v = a.(!pos) in incr pos; v in
  let grouping = next () = 1 in let excl = next () = 1 in
  let nt = next () in
  let tf = List.init nt (fun _ -> nat_of_int (next ())) in
  let nr = next () in
  let ranges = List.init nr (fun _ -> let f = next () in let fr = next () in let t = next () in
    { r_file = nat_of_int f; r_from = nat_of_int fr; r_to = nat_of_int t }) in
  let read_pos () =
    let v = next () in let f = next () in let l = next () in let c = next () in
    { p_file = nat_of_int f; p_line = nat_of_int l; p_col = nat_of_int c; p_off = nat_of_int (l * 100 + c); p_valid = (v = 1) } in
  let read_nodes () =
    let n = next () in
    List.init n (fun _ -> let pp = read_pos () in let cp = read_pos () in let pr = next () in let cr = next () in
      let st = read_pos () in
      { n_ppos = pp; n_cpos = cp; n_prepr = nat_of_int pr; n_crepr = nat_of_int cr; n_site = st }) in
  let nc = next () in
  let cs = List.init nc (fun _ ->
    let id = next () in let f = next () in let l = next () in let c = next () in let off = next () in
    let nil = read_nodes () in let non = read_nodes () in
    let src = read_pos () in
    { c_id = nat_of_int id;
      c_pos = { p_file = nat_of_int f; p_line = nat_of_int l; p_col = nat_of_int c; p_off = nat_of_int off; p_valid = true };
      c_nil = nil; c_nonnil = non; c_func = None; c_test = false; c_src = src }) in
  let ds = diagnostics_tf grouping ranges excl tf cs in
  let place = function
    | None -> "-"
    | Some ((f, l), c) -> Printf.sprintf "%d:%d:%d" (int_of_nat f) (int_of_nat l) (int_of_nat c) in
  print_endline (String.concat " ; " (List.map (fun d ->
    Printf.sprintf "D id=%d pos=%d:%d valid=true n=%d places=%s flow=%s" (int_of_nat d.d_head.c_id)
      (int_of_nat d.d_head.c_pos.p_file) (int_of_nat d.d_head.c_pos.p_line) (List.length d.d_similar)
      (String.concat "|" (List.map place (shown_places d))) (place (last_cpos d.d_head))) ds))

(* scope case: include-flag TAB exclude-flag TAB package path *)
let str_to_nats s = List.init (String.length s) (fun i -> nat_of_int (Char.code s.[i]))
let scope_line l =
  match String.split_on_char '\t' l with
  | [inc; exc; path] -> print_endline (if in_scope_flags (str_to_nats inc) (str_to_nats exc) (str_to_nats path) then "1" else "0")
  | _ -> print_endline "?"

(* paths case: cwd TAB name TAB occ  (slash paths; absolute ones start with /) *)
let seg_ids : (string, int) Hashtbl.t = Hashtbl.create 64
let seg_names : (int, string) Hashtbl.t = Hashtbl.create 64
let seg_id s = try Hashtbl.find seg_ids s with Not_found ->
  let i = Hashtbl.length seg_ids + 1 in Hashtbl.replace seg_ids s i; Hashtbl.replace seg_names i s; i
let segs_of s = List.filter_map (fun x -> if x = "" then None else Some (nat_of_int (seg_id x))) (String.split_on_char '/' s)
let paths_line l =
  match String.split_on_char '\t' l with
  | [cwd; name; occ] ->
      let show_rseg = function Up -> ".." | Seg s -> Hashtbl.find seg_names (int_of_nat s) in
      let r =
        if String.length name > 0 && name.[0] = '/' then
          (match rel_to_cwd (segs_of cwd) (Abs (segs_of name)) with
           | Relp [] -> "."
           | Relp l -> String.concat "/" (List.map show_rseg l)
           | Abs _ -> "?")
        else name in
      let parts = String.split_on_char '/' name in
      let port = String.concat "/" (portion_after_sep parts (nat_of_int (int_of_string occ))) in
      (* the sort key of diagnostics: AbsFromCwd of the cwd-relative name *)
      let key =
        if String.length name > 0 && name.[0] = '/' then
          "/" ^ String.concat "/" (List.map (fun s -> Hashtbl.find seg_names (int_of_nat s))
                 (abs_from_cwd (segs_of cwd) (rel_to_cwd (segs_of cwd) (Abs (segs_of name)))))
        else "" in
      print_endline (r ^ "\t" ^ port ^ "\t" ^ key)
  | _ -> print_endline "?"


(* minigo case := NB <nbits> P <nglobals> {0|1}* <nfuncs> { F <nparams> <pkg> <ctr> stmt }*   (grammar in checks/minigo.py)
   prints: wf an gsafe clocal | decl triggers | per-function triggers | per-caller duplicated triggers | panic site per oracle vector *)
let minigo_line l =
  let toks = Array.of_list (List.filter (fun s -> s <> "") (String.split_on_char ' ' l)) in
  let pos = ref 0 in
  let next () = let v = toks.(!pos) in incr pos; v in
  let nexti () = int_of_string (next ()) in
  let var_of k = let n = nat_of_int (nexti ()) in if k = "L" then VL n else VG n in
  let atom () = match next () with "n" -> ANil | "w" -> ANew | k -> AVar (var_of k) in
  let rec cond () = match next () with
    | "o" -> COpaque
    | "z" -> let k = next () in CNonNil (var_of k)
    | "e" -> let d = nexti () in let k = next () in CDeref (nat_of_int d, var_of k)
    | "!" -> CNot (cond ())
    | "&" -> let a = cond () in let b = cond () in CAnd (a, b)
    | "|" -> let a = cond () in let b = cond () in COr (a, b)
    | t -> failwith ("cond " ^ t) in
  let rec stmt () = match next () with
    | "k" -> SSkip
    | "q" -> let a = stmt () in let b = stmt () in SSeq (a, b)
    | "a" -> let k = next () in let x = var_of k in let a = atom () in SAssign (x, a)
    | "c" -> let cs = nexti () in
             let k = next () in let x = if k = "-" then None else Some (var_of k) in
             let f = nexti () in let n = nexti () in
             let args = List.init n (fun _ -> atom ()) in SCall (nat_of_int cs, x, nat_of_int f, args)
    | "d" -> let d = nexti () in let k = next () in SDeref (nat_of_int d, var_of k)
    | "i" -> let c = cond () in let a = stmt () in let b = stmt () in SIf (c, a, b)
    | "w" -> let c = cond () in let b = stmt () in SWhile (c, b)
    | "r" -> SReturn (atom ())
    | "R" -> let a = atom () in let e = atom () in SReturn2 (a, e)
    | "C" -> let cs = nexti () in
             let k = next () in let x = if k = "-" then None else Some (var_of k) in
             let k2 = next () in let xe = if k2 = "-" then None else Some (var_of k2) in
             let f = nexti () in let n = nexti () in
             let args = List.init n (fun _ -> atom ()) in SCall2 (nat_of_int cs, x, xe, nat_of_int f, args)
    | "Q" -> let cs = nexti () in let f = nexti () in let n = nexti () in
             let args = List.init n (fun _ -> atom ()) in SRetCall (nat_of_int cs, nat_of_int f, args)
    | "v" -> let k = next () in let x = var_of k in let ik = nexti () in let j = nexti () in
             SConv (x, nat_of_int ik, nat_of_int j)
    | "V" -> let k = next () in let x = var_of k in let k2 = next () in let y = var_of k2 in
             let ik = nexti () in let ik2 = nexti () in SConvI (x, y, nat_of_int ik, nat_of_int ik2)
    | "j" -> let cs = nexti () in let d = nexti () in
             let k = next () in let x = if k = "-" then None else Some (var_of k) in
             let k2 = next () in let xi = var_of k2 in
             let ik = nexti () in let m = nexti () in let n = nexti () in
             let args = List.init n (fun _ -> atom ()) in
             SCallI (nat_of_int cs, nat_of_int d, x, xi, nat_of_int ik, nat_of_int m, args)
    | t -> failwith ("stmt " ^ t) in
  let _ = next () in let nb = nexti () in
  let _ = next () in let ng = nexti () in
  let ginit = List.init ng (fun _ -> nexti () = 1) in
  let nf = nexti () in
  let meta = ref [] in
  let funcs = List.init nf (fun _ -> let _ = next () in let np = nexti () in let pk = nexti () in let ct = nexti () in
    let b = stmt () in
    meta := !meta @ [(pk, ct = 1)];
    { f_nparams = nat_of_int np; f_body = b }) in
  let metaa = Array.of_list !meta in
  let ctr f = let i = int_of_nat f in i < Array.length metaa && snd metaa.(i) in
  let pk f = let i = int_of_nat f in if i < Array.length metaa then nat_of_int (fst metaa.(i)) else O in
  (* optional tail: I <nimpls> { <nmethods> f* }* *)
  let impls =
    if !pos < Array.length toks && toks.(!pos) = "I" then begin
      let _ = next () in
      let n = nexti () in
      List.init n (fun _ -> let nm = nexti () in List.init nm (fun _ -> nat_of_int (nexti ())))
    end else [] in
  (* optional tail: S <ninterfaces> { <nmethods> arity* }* *)
  let isigs =
    if !pos < Array.length toks && toks.(!pos) = "S" then begin
      let _ = next () in
      let n = nexti () in
      List.init n (fun _ -> let nm = nexti () in List.init nm (fun _ -> nat_of_int (nexti ())))
    end else [] in
  let prog = { p_funcs = funcs; p_ginit = ginit; p_impls = impls; p_isig = isigs } in
  let prod = function
    | PNil | PGuard (_, _, _) | PUng (_, _) -> "0,0" | PNever -> "1,0" | PStale -> "1,1"
    | PSite s -> Printf.sprintf "2,%d" (int_of_nat (enc s))
    | PChecked (f, _) -> Printf.sprintf "2,%d" (int_of_nat (enc (SResult f))) in
  let cons = function CAlways -> "0,0" | CSite s -> Printf.sprintf "2,%d" (int_of_nat (enc s)) in
  let trig t = Printf.sprintf "%d,%s,%s,%d" (int_of_nat t.s_id) (prod t.s_prod) (cons t.s_cons)
      (match t.s_ctrl with None -> -1 | Some s -> int_of_nat (enc s)) in
  let trigs ts = String.concat ";" (List.map trig ts) in
  let wf = wf_program prog && ctr_arity ctr O funcs && impls_plain prog ctr in
  let afuel = nat_of_int 64 in
  let an = analyze_program afuel ctr pk prog in
  let head = match an with
    | None -> Printf.sprintf "wf=%d guarded=%d an=0 gsafe=0 clocal=0 nodel=0 | | |" (if wf then 1 else 0) (if guarded prog then 1 else 0)
    | Some r ->
        Printf.sprintf "wf=%d guarded=%d an=1 gsafe=%d clocal=%d nodel=%d | %s | %s | %s" (if wf then 1 else 0) (if guarded prog then 1 else 0) (if r.r_gsafe then 1 else 0)
          (if r.r_clocal then 1 else 0) (if r.r_nodel then 1 else 0) (trigs r.r_decl)
          (String.concat " / " (List.map trigs r.r_funcs)) (String.concat " / " (List.map trigs (r.r_dups @ r.r_affil))) in
  let inferred = String.concat "," (List.concat (List.mapi (fun i fd -> if infer_sem (nat_of_int 64) fd then [string_of_int i] else []) funcs)) in
  let head = head ^ " | " ^ inferred in
  let xfuel = nat_of_int 20000 in
  let runs = List.init (1 lsl nb) (fun i ->
    let oracle = List.init nb (fun j -> (i lsr j) land 1 = 1) in
    match run_program prog xfuel oracle with
    | OPanic d -> int_of_nat d
    | OOutOfFuel -> -1
    | _ -> 0) in
  print_endline (head ^ " | " ^ str_ints runs)

(* keys case (site identity, model M3): objects, keys, then steps -- 0: a view (analysing package, believed position of
   every object, visible facts), 1: a fact published from a view (the sites of the listed keys), 2: queries.
   Grammar in checks/keys_suite.py.  Prints, per query, the rendered key and the site the model computes. *)
let keys_line l =
  let a = Array.of_list (ints_of_line l) in
  let pos = ref 0 in
  let next () = let v = a.(!pos) in incr pos; v in
  let nat = nat_of_int in
  let opt v = if v < 0 then None else Some (nat v) in
  let no = next () in
  let objs = Array.init no (fun i ->
    let pkg = next () in let name = next () in let ex = next () in let di = next () in let pa = next () in
    { o_id = nat i; o_pkg = nat pkg; o_name = nat name; o_exported = (ex = 1); o_dispatch = (di = 1); o_path = opt pa }) in
  let nk = next () in
  let keys = Array.init nk (fun _ ->
    let kind = next () in let ob = next () in let num = next () in let pn = next () in let fld = next () in
    let recv = next () in let lf = next () in let ll = next () in let lc = next () in let isr = next () in let tr = next () in
    let o = objs.(ob) in
    let loc = ((nat lf, nat ll), nat lc) in
    match kind with
    | 1 -> KField o
    | 2 -> KCallSiteParam (o, nat num, opt pn, loc)
    | 3 -> KParam (o, nat num, opt pn)
    | 4 -> KCallSiteRet (o, nat num, loc)
    | 5 -> KRet (o, nat num)
    | 6 -> KTypeName o
    | 7 -> KGlobalVar o
    | 8 -> KLocalVar o
    | 9 -> KRetField (o, nat num, objs.(fld), opt recv)
    | 10 -> KEscapeField o
    | 11 -> KParamField (o, nat num, opt pn, objs.(fld), isr = 1, tr = 1)
    | _ -> KRecv o) in
  let views = ref [||] and facts = ref [||] in
  let out = Buffer.create 256 in
  let tok = function
    | TNum n -> Printf.sprintf "n%d" (int_of_nat n)
    | TName s -> Printf.sprintf "s%d" (int_of_nat s)
    | TNoName -> "-"
    | TLoc ((f, l), c) -> Printf.sprintf "L%d:%d:%d" (int_of_nat f) (int_of_nat l) (int_of_nat c)
    | TBool b -> if b then "b1" else "b0" in
  let queries () =
    let n = next () in
    List.init n (fun _ -> let k = next () in let d = next () in (keys.(k), d = 1)) in
  let ns = next () in
  for _ = 1 to ns do
    match next () with
    | 0 ->
      let apkg = next () in
      let parr = Array.init no (fun _ -> let f = next () in let o = next () in (nat f, nat o)) in
      let nv = next () in
      let vis = List.init nv (fun _ -> next ()) in
      (* the position cache is a Go map filled in fact order: the last entry for a key wins *)
      let up = List.rev (List.concat (List.map (fun j -> (!facts).(j)) vis)) in
      let v = { v_pkg = nat apkg; v_pos = (fun o -> parr.(int_of_nat o.o_id)); v_upstream = up } in
      views := Array.append !views [| v |]
    | 1 ->
      let v = (!views).(next ()) in
      let qs = queries () in
      let entries = List.concat (List.map (fun (k, d) ->
        let s = site_of v k d in
        match s.s_path with Some pa -> [ ((s.s_pkg, pa), s.s_pos) ] | None -> []) qs) in
      facts := Array.append !facts [| entries |]
    | _ ->
      let v = (!views).(next ()) in
      List.iter (fun (k, d) ->
        let s = site_of v k d in
        let (tag, toks) = key_repr k in
        let (f, o) = s.s_pos in
        Buffer.add_string out (Printf.sprintf " ;; %d:%s ## %d|%d|%d|%b|%b|%s" (int_of_nat tag) (String.concat "," (List.map tok toks))
          (int_of_nat f) (int_of_nat o) (int_of_nat s.s_pkg) s.s_deep s.s_exported
          (match s.s_path with Some p -> string_of_int (int_of_nat p) | None -> "-"))) (queries ())
  done;
  print_endline (Buffer.contents out)

(* infer case (contract inference, model M10): fuel param nvals {kind x lenpos nedges edges}* nblocks
   {npreds preds nsuccs succs nphis phis ndefs defs hasif iseq x y hasret ret}*   -> I (inferred) | N | F (out of fuel) *)
let infer_line l =
  let a = Array.of_list (ints_of_line l) in
  let pos = ref 0 in
  let next () = let v = a.(!pos) in incr pos; v in
  let nat = nat_of_int in
  let fuel = next () in
  let param = next () in
  let nv = next () in
  let vals = List.init nv (fun _ ->
    let k = next () in let x = next () in let lp = next () in let ne = next () in
    let edges = List.init ne (fun _ -> nat (next ())) in
    match k with
    | 0 -> IVParam | 1 -> IVNil | 2 -> IVConstUnk | 3 -> IVNonNil | 4 -> IVChg (nat x) | 5 -> IVMk (nat x) | 6 -> IVSlice (nat x)
    | 7 -> IVS2AP (nat x, lp = 1) | 8 -> IVAppend1 (nat x) | 9 -> IVAppendN (nat x, lp = 1) | 10 -> IVPhi edges | _ -> IVOther) in
  let nb = next () in
  let blocks = List.init nb (fun _ ->
    let lst () = let n = next () in List.init n (fun _ -> nat (next ())) in
    let preds = lst () in let succs = lst () in let phis = lst () in let defs = lst () in
    let hasif = next () in let iseq = next () in let x = next () in let y = next () in
    let hasret = next () in let ret = next () in
    { ib_preds = preds; ib_succs = succs; ib_phis = phis; ib_defs = defs;
      ib_if = (if hasif = 1 then Some ((iseq = 1, nat x), nat y) else None);
      ib_ret = (if hasret = 1 then Some (nat ret) else None) }) in
  let f = { if_param = nat param; if_vals = vals; if_blocks = blocks } in
  if Array.length Sys.argv > 2 && Sys.argv.(2) = "dbg" then begin
    (match loop f (nat fuel) { i_sets = []; i_seen = [] } [O] with
     | IDone s ->
       List.iter (fun (b, ts) ->
         Printf.printf "block %d:\n" (int_of_nat b);
         List.iter (fun t -> print_endline ("   {" ^ String.concat ", " (List.map (fun (k, v) ->
           Printf.sprintf "v%d=%s" (int_of_nat k) (match v with NNil -> "nil" | NNon -> "non" | NUnk -> "unk")) t) ^ "}")) ts) s.i_sets
     | _ -> print_endline "gave up / out of fuel")
  end;
  let b x = if x then "1" else "0" in
  (* verdict, then: plain, wf, final state stable, infer_checked (the soundness theorem's hypothesis), semiplain *)
  print_endline ((match infer f (nat fuel) with IInferred -> "I" | INotInferred -> "N" | INoFuel -> "F")
    ^ " " ^ b (plain f) ^ b (wf_fn f && wf_cfg f) ^ b (final_stable f (nat fuel)) ^ b (infer_checked f (nat fuel)) ^ b (semiplain f))

(* nonce case (guard nonce sets, model M11): nregs nops {op a b n xs...}*   with op 0 add(r=a, xs) 1 remove(r=a, xs)
   2 union(dst=a, r=b, others=xs) 3 inter 4 copy(dst=a, r=b) 5 contains(r=a, n=b) 6 subset(a, b) 7 eq(a, b) 8 empty(a)
   -> the query answers, then every register sorted *)
let nonce_line l =
  let a = Array.of_list (ints_of_line l) in
  let pos = ref 0 in
  let next () = let v = a.(!pos) in incr pos; v in
  let nat = nat_of_int in
  let nregs = next () in
  let nops = next () in
  let ops = List.init nops (fun _ ->
    let op = next () in let x = next () in let y = next () in let n = next () in
    let xs = List.init n (fun _ -> nat (next ())) in
    match op with
    | 0 -> OAdd (nat x, xs) | 1 -> ORemove (nat x, xs) | 2 -> OUnion (nat x, nat y, xs) | 3 -> OInter (nat x, nat y, xs)
    | 4 -> OCopy (nat x, nat y) | 5 -> OContains (nat x, nat y) | 6 -> OSubset (nat x, nat y) | 7 -> OEq (nat x, nat y)
    | _ -> OEmpty (nat x)) in
  let (regs, outs) = nrun (List.init nregs (fun _ -> [])) ops in
  print_endline (String.concat "" (List.map (fun b -> if b then "1" else "0") outs) ^ " | " ^
    String.concat " ; " (List.map (fun r -> String.concat "," (List.map string_of_int (List.sort compare (List.map int_of_nat r)))) regs))

(* nolint case (directive text, model M12): the bytes of the comment text, space separated -> 1 | 0 *)
let nolint_line l =
  (* the first number is a marker (so that the empty text is not an empty line) *)
  let bytes = match ints_of_line l with _ :: b -> b | [] -> [] in
  print_endline (if nolint_contains (List.map nat_of_int bytes) then "1" else "0")

(* richflow case (propagation of rich check effects, model M13): n {nsuccs succs* live ngen gen* nkill kill*}^n
   -> the effects at the end of every block, sorted; "NOFUEL" if the model's iteration did not stabilise *)
let richflow_line l =
  let a = Array.of_list (ints_of_line l) in
  let pos = ref 0 in
  let next () = let v = a.(!pos) in incr pos; v in
  let lst () = let k = next () in List.init k (fun _ -> nat_of_int (next ())) in
  let n = next () in
  let rows = List.init n (fun _ -> let s = lst () in let lv = next () = 1 in let g = lst () in let k = lst () in (s, lv, g, k)) in
  let g = { rc_succs = List.map (fun (s, _, _, _) -> s) rows; rc_live = List.map (fun (_, l, _, _) -> l) rows;
            rc_gen = List.map (fun (_, _, g, _) -> g) rows; rc_kill = List.map (fun (_, _, _, k) -> k) rows } in
  match propagate g (nat_of_int 10000) with
  | None -> print_endline "NOFUEL"
  | Some st ->
    print_endline (String.concat " ; " (List.map (fun es -> String.concat "," (List.map string_of_int (List.sort compare (List.map int_of_nat es)))) st))

let () =
  let mode = if Array.length Sys.argv > 1 then Sys.argv.(1) else "engine" in
  try
    while true do
      let l = input_line stdin in
      if l <> "" then
        (match mode with
         | "engine" -> engine_line false l
         | "enginespec" -> engine_line true l
         | "diag" -> diag_line l
         | "scope" -> scope_line l
         | "paths" -> paths_line l
         | "minigo" -> minigo_line l
         | "keys" -> keys_line l
         | "infer" -> infer_line l
         | "nonce" -> nonce_line l
         | "nolint" -> nolint_line l
         | "richflow" -> richflow_line l
         | _ -> failwith "unknown mode")
    done
  with End_of_file -> ()
