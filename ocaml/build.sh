#!/bin/sh
# extract the Coq models and build the OCaml runner (bin/modelrun)
set -e
cd "$(dirname "$0")"
mkdir -p gen
(cd gen && coqc -Q ../../coq/model NM -Q ../../coq/gen NG ../../coq/extract/Extract.v >/dev/null && rm -f Extract.vo Extract.glob Extract.vok Extract.vos .Extract.aux ../../coq/extract/*.vo ../../coq/extract/*.glob ../../coq/extract/.*.aux 2>/dev/null; true)
cp modelrun.ml gen/modelrun.ml
cd gen
ocamlfind ocamlopt -O3 -w -a -package str engine_model.mli engine_model.ml modelrun.ml -o ../../bin/modelrun 2>/dev/null || \
ocamlfind ocamlopt -w -a engine_model.mli engine_model.ml modelrun.ml -o ../../bin/modelrun
