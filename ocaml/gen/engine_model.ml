
(** val negb : bool -> bool **)

let negb = function
| true -> false
| false -> true

type nat =
| O
| S of nat

(** val fst : ('a1 * 'a2) -> 'a1 **)

let fst = function
| (x, _) -> x

(** val snd : ('a1 * 'a2) -> 'a2 **)

let snd = function
| (_, y) -> y

(** val length : 'a1 list -> nat **)

let rec length = function
| [] -> O
| _ :: l' -> S (length l')

(** val app : 'a1 list -> 'a1 list -> 'a1 list **)

let rec app l m =
  match l with
  | [] -> m
  | a :: l1 -> a :: (app l1 m)

(** val pred : nat -> nat **)

let pred n = match n with
| O -> n
| S u -> u

(** val add : nat -> nat -> nat **)

let rec add n m =
  match n with
  | O -> m
  | S p -> S (add p m)

(** val mul : nat -> nat -> nat **)

let rec mul n m =
  match n with
  | O -> O
  | S p -> add m (mul p m)

(** val sub : nat -> nat -> nat **)

let rec sub n m =
  match n with
  | O -> n
  | S k -> (match m with
            | O -> n
            | S l -> sub k l)

(** val eqb : bool -> bool -> bool **)

let eqb b1 b2 =
  if b1 then b2 else if b2 then false else true

module Nat =
 struct
  (** val eqb : nat -> nat -> bool **)

  let rec eqb n m =
    match n with
    | O -> (match m with
            | O -> true
            | S _ -> false)
    | S n' -> (match m with
               | O -> false
               | S m' -> eqb n' m')

  (** val leb : nat -> nat -> bool **)

  let rec leb n m =
    match n with
    | O -> true
    | S n' -> (match m with
               | O -> false
               | S m' -> leb n' m')

  (** val ltb : nat -> nat -> bool **)

  let ltb n m =
    leb (S n) m
 end

(** val nth : nat -> 'a1 list -> 'a1 -> 'a1 **)

let rec nth n l default =
  match n with
  | O -> (match l with
          | [] -> default
          | x :: _ -> x)
  | S m -> (match l with
            | [] -> default
            | _ :: t -> nth m t default)

(** val nth_error : 'a1 list -> nat -> 'a1 option **)

let rec nth_error l = function
| O -> (match l with
        | [] -> None
        | x :: _ -> Some x)
| S n0 -> (match l with
           | [] -> None
           | _ :: l0 -> nth_error l0 n0)

(** val rev : 'a1 list -> 'a1 list **)

let rec rev = function
| [] -> []
| x :: l' -> app (rev l') (x :: [])

(** val map : ('a1 -> 'a2) -> 'a1 list -> 'a2 list **)

let rec map f = function
| [] -> []
| a :: t -> (f a) :: (map f t)

(** val flat_map : ('a1 -> 'a2 list) -> 'a1 list -> 'a2 list **)

let rec flat_map f = function
| [] -> []
| x :: t -> app (f x) (flat_map f t)

(** val fold_left : ('a1 -> 'a2 -> 'a1) -> 'a2 list -> 'a1 -> 'a1 **)

let rec fold_left f l a0 =
  match l with
  | [] -> a0
  | b :: t -> fold_left f t (f a0 b)

(** val fold_right : ('a2 -> 'a1 -> 'a1) -> 'a1 -> 'a2 list -> 'a1 **)

let rec fold_right f a0 = function
| [] -> a0
| b :: t -> f b (fold_right f a0 t)

(** val existsb : ('a1 -> bool) -> 'a1 list -> bool **)

let rec existsb f = function
| [] -> false
| a :: l0 -> (||) (f a) (existsb f l0)

(** val forallb : ('a1 -> bool) -> 'a1 list -> bool **)

let rec forallb f = function
| [] -> true
| a :: l0 -> (&&) (f a) (forallb f l0)

(** val filter : ('a1 -> bool) -> 'a1 list -> 'a1 list **)

let rec filter f = function
| [] -> []
| x :: l0 -> if f x then x :: (filter f l0) else filter f l0

(** val skipn : nat -> 'a1 list -> 'a1 list **)

let rec skipn n l =
  match n with
  | O -> l
  | S n0 -> (match l with
             | [] -> []
             | _ :: l0 -> skipn n0 l0)

type site = nat

type tid = nat

type kind =
| KAlways
| KNever
| KCond of site

type trigger = { t_id : tid; t_prod : kind; t_cons : kind;
                 t_ctrl : site option }

type expl =
| EAnnot of bool * site
| EShallow of bool * tid
| EDeep of tid * expl

(** val eval_expl : expl -> bool **)

let rec eval_expl = function
| EAnnot (b, _) -> b
| EShallow (b, _) -> b
| EDeep (_, e') -> eval_expl e'

type ival =
| Det of expl
| Undet of (site * tid) list * (site * tid) list

(** val lookup : (site * 'a1) list -> site -> 'a1 option **)

let rec lookup m s =
  match m with
  | [] -> None
  | p :: m' -> let (k, v) = p in if Nat.eqb k s then Some v else lookup m' s

(** val store : (site * 'a1) list -> site -> 'a1 -> (site * 'a1) list **)

let rec store m s v =
  match m with
  | [] -> (s, v) :: []
  | p :: m' ->
    let (k, v') = p in
    if Nat.eqb k s then (k, v) :: m' else (k, v') :: (store m' s v)

type conflict =
| CSingle of tid
| COver of expl * expl

type state = { mp : (site * ival) list; conflicts : conflict list;
               ctl : trigger list }

(** val init_state : state **)

let init_state =
  { mp = []; conflicts = []; ctl = [] }

(** val set_mp : state -> (site * ival) list -> state **)

let set_mp st m =
  { mp = m; conflicts = st.conflicts; ctl = st.ctl }

(** val add_conflict : state -> conflict -> state **)

let add_conflict st c =
  { mp = st.mp; conflicts = (app st.conflicts (c :: [])); ctl = st.ctl }

(** val set_ctl : state -> trigger list -> state **)

let set_ctl st l =
  { mp = st.mp; conflicts = st.conflicts; ctl = l }

(** val ctrl_is : site -> trigger -> bool **)

let ctrl_is s t =
  match t.t_ctrl with
  | Some c -> Nat.eqb c s
  | None -> false

(** val controlled : trigger -> bool **)

let controlled t =
  match t.t_ctrl with
  | Some _ -> true
  | None -> false

(** val controlled_by : trigger list -> site -> trigger list **)

let controlled_by l s =
  filter (ctrl_is s) l

type item =
| ISite of site * expl
| ITrig of trigger
| IImpl of site * site * tid

(** val activate : state -> site -> bool -> item list **)

let activate st s = function
| true -> map (fun x -> ITrig x) (controlled_by st.ctl s)
| false -> []

(** val store_impl :
    (site * ival) list -> site -> site -> tid -> (site * ival) list **)

let store_impl m p c t =
  let m1 =
    match lookup m p with
    | Some _ -> m
    | None -> store m p (Undet ([], []))
  in
  let m2 =
    match lookup m1 c with
    | Some _ -> m1
    | None -> store m1 c (Undet ([], []))
  in
  let m3 =
    match lookup m2 p with
    | Some i0 ->
      (match i0 with
       | Det _ -> m2
       | Undet (i, o) -> store m2 p (Undet (i, (store o c t))))
    | None -> m2
  in
  (match lookup m3 c with
   | Some i0 ->
     (match i0 with
      | Det _ -> m3
      | Undet (i, o) -> store m3 c (Undet ((store i p t), o)))
   | None -> m3)

(** val step : state -> item -> state * item list **)

let step st = function
| ISite (s, e) ->
  let b = eval_expl e in
  (match lookup st.mp s with
   | Some i ->
     (match i with
      | Det e' ->
        if eqb (eval_expl e') b
        then (st, [])
        else let c = if eval_expl e' then COver (e', e) else COver (e, e') in
             ((add_conflict st c), (activate st s b))
      | Undet (ins, outs) ->
        ((set_mp st (store st.mp s (Det e))),
          (app (activate st s b)
            (if b
             then map (fun ot -> ISite ((fst ot), (EDeep ((snd ot), e)))) outs
             else map (fun it0 -> ISite ((fst it0), (EDeep ((snd it0), e))))
                    ins))))
   | None -> ((set_mp st (store st.mp s (Det e))), (activate st s b)))
| ITrig t ->
  (match t.t_prod with
   | KAlways ->
     (match t.t_cons with
      | KAlways -> ((add_conflict st (CSingle t.t_id)), [])
      | KNever -> (st, [])
      | KCond c -> (st, ((ISite (c, (EShallow (true, t.t_id)))) :: [])))
   | KNever -> (st, [])
   | KCond p ->
     (match t.t_cons with
      | KAlways -> (st, ((ISite (p, (EShallow (false, t.t_id)))) :: []))
      | KNever -> (st, [])
      | KCond c -> (st, ((IImpl (p, c, t.t_id)) :: []))))
| IImpl (p, c, t) ->
  (match lookup st.mp p with
   | Some i ->
     (match i with
      | Det ep ->
        if eval_expl ep
        then (st, ((ISite (c, (EDeep (t, ep)))) :: []))
        else (st, [])
      | Undet (_, _) ->
        (match lookup st.mp c with
         | Some i0 ->
           (match i0 with
            | Det ec ->
              if eval_expl ec
              then (st, [])
              else (st, ((ISite (p, (EDeep (t, ec)))) :: []))
            | Undet (_, _) -> ((set_mp st (store_impl st.mp p c t)), []))
         | None -> ((set_mp st (store_impl st.mp p c t)), [])))
   | None ->
     (match lookup st.mp c with
      | Some i ->
        (match i with
         | Det ec ->
           if eval_expl ec
           then (st, [])
           else (st, ((ISite (p, (EDeep (t, ec)))) :: []))
         | Undet (_, _) -> ((set_mp st (store_impl st.mp p c t)), []))
      | None -> ((set_mp st (store_impl st.mp p c t)), [])))

(** val run : nat -> state -> item list -> state option **)

let rec run fuel st = function
| [] -> Some st
| it :: rest ->
  (match fuel with
   | O -> None
   | S fuel' -> let (st', new0) = step st it in run fuel' st' (app new0 rest))

type fact = (site * ival) list

(** val fact_items : fact -> item list **)

let fact_items f =
  flat_map (fun sv ->
    match snd sv with
    | Det e -> (ISite ((fst sv), e)) :: []
    | Undet (ins, outs) ->
      app (map (fun ot -> IImpl ((fst sv), (fst ot), (snd ot))) outs)
        (map (fun it -> IImpl ((fst it), (fst sv), (snd it))) ins)) f

(** val insert_by : ('a1 -> nat) -> 'a1 -> 'a1 list -> 'a1 list **)

let rec insert_by key x l = match l with
| [] -> x :: []
| y :: l' ->
  if Nat.leb (key x) (key y) then x :: l else y :: (insert_by key x l')

(** val sort_by : ('a1 -> nat) -> 'a1 list -> 'a1 list **)

let sort_by key l =
  fold_right (insert_by key) [] l

(** val upstream_items : (nat * fact) list -> item list **)

let upstream_items facts =
  flat_map (fun pf -> fact_items (snd pf)) (sort_by fst facts)

(** val annot_items : (site * bool) list -> item list **)

let annot_items annots =
  map (fun sb -> ISite ((fst sb), (EAnnot ((snd sb), (fst sb)))))
    (sort_by fst annots)

(** val is_det_true : (site * ival) list -> site -> bool **)

let is_det_true m s =
  match lookup m s with
  | Some i -> (match i with
               | Det e -> eval_expl e
               | Undet (_, _) -> false)
  | None -> false

(** val dedup : site list -> site list -> site list **)

let rec dedup l seen =
  match l with
  | [] -> []
  | s :: l' ->
    if existsb (Nat.eqb s) seen
    then dedup l' seen
    else s :: (dedup l' (s :: seen))

(** val ctrl_sites : trigger list -> site list **)

let ctrl_sites ts =
  flat_map (fun t -> match t.t_ctrl with
                     | Some s -> s :: []
                     | None -> []) ts

(** val build_pkg_work : state -> trigger list -> state * item list **)

let build_pkg_work st ts =
  let ctl' = filter controlled ts in
  let activated = filter (is_det_true st.mp) (dedup (ctrl_sites ts) []) in
  ((set_ctl st ctl'),
  (app
    (flat_map (fun s -> map (fun x -> ITrig x) (controlled_by ctl' s))
      activated)
    (map (fun x -> ITrig x) (filter (fun t -> negb (controlled t)) ts))))

(** val build_pkg : nat -> state -> trigger list -> state option **)

let build_pkg fuel st ts =
  let (st', work) = build_pkg_work st ts in run fuel st' work

(** val observe_package : nat -> state -> trigger list -> state option **)

let observe_package fuel st ts =
  match build_pkg fuel st ts with
  | Some st1 -> build_pkg fuel st1 []
  | None -> None

(** val mem : site -> site list -> bool **)

let mem s l =
  existsb (Nat.eqb s) l

(** val outs_of : (site * ival) list -> site -> site list **)

let outs_of m s =
  match lookup m s with
  | Some i -> (match i with
               | Det _ -> []
               | Undet (_, o) -> map fst o)
  | None -> []

(** val ins_of : (site * ival) list -> site -> site list **)

let ins_of m s =
  match lookup m s with
  | Some i0 -> (match i0 with
                | Det _ -> []
                | Undet (i, _) -> map fst i)
  | None -> []

(** val is_undet : (site * ival) list -> site -> bool **)

let is_undet m s =
  match lookup m s with
  | Some i -> (match i with
               | Det _ -> false
               | Undet (_, _) -> true)
  | None -> false

type marks = { toExp : site list; rfe : site list; re : site list }

(** val mark_rfe :
    (site -> bool) -> nat -> (site * ival) list -> marks -> site -> marks **)

let rec mark_rfe exported fuel m mk s =
  match fuel with
  | O -> mk
  | S f ->
    if (&&)
         ((&&) ((&&) (is_undet m s) (negb (exported s)))
           (negb (mem s mk.toExp))) (negb (mem s mk.rfe))
    then let mk1 =
           if mem s mk.re
           then { toExp = (s :: mk.toExp); rfe = mk.rfe; re = mk.re }
           else { toExp = mk.toExp; rfe = (s :: mk.rfe); re = mk.re }
         in
         fold_left (mark_rfe exported f m) (outs_of m s) mk1
    else mk

(** val mark_re :
    (site -> bool) -> nat -> (site * ival) list -> marks -> site -> marks **)

let rec mark_re exported fuel m mk s =
  match fuel with
  | O -> mk
  | S f ->
    if (&&)
         ((&&) ((&&) (is_undet m s) (negb (exported s)))
           (negb (mem s mk.toExp))) (negb (mem s mk.re))
    then let mk1 =
           if mem s mk.rfe
           then { toExp = (s :: mk.toExp); rfe = mk.rfe; re = mk.re }
           else { toExp = mk.toExp; rfe = mk.rfe; re = (s :: mk.re) }
         in
         fold_left (mark_re exported f m) (ins_of m s) mk1
    else mk

(** val choose_marks : (site -> bool) -> (site * ival) list -> marks **)

let choose_marks exported m =
  let fuel = S (length m) in
  fold_left (fun mk kv ->
    let s = fst kv in
    if exported s
    then let mk0 = { toExp = (s :: mk.toExp); rfe = mk.rfe; re = mk.re } in
         let mk1 = fold_left (mark_re exported fuel m) (ins_of m s) mk0 in
         fold_left (mark_rfe exported fuel m) (outs_of m s) mk1
    else mk) m { toExp = []; rfe = []; re = [] }

(** val choose_sites_to_export :
    (site -> bool) -> (site * ival) list -> site list **)

let choose_sites_to_export exported m =
  (choose_marks exported m).toExp

(** val edges_diff :
    (site * tid) list -> (site * tid) list -> (site * tid) list **)

let edges_diff n o =
  filter (fun st ->
    match lookup o (fst st) with
    | Some _ -> false
    | None -> true) n

(** val val_diff : ival -> ival -> ival option option **)

let val_diff newv oldv =
  match newv with
  | Det en ->
    (match oldv with
     | Det eo -> if eqb (eval_expl en) (eval_expl eo) then Some None else None
     | Undet (_, _) -> Some (Some newv))
  | Undet (ni, no) ->
    (match oldv with
     | Det _ -> None
     | Undet (oi, oo) ->
       let di = edges_diff ni oi in
       let do0 = edges_diff no oo in
       (match di with
        | [] ->
          (match do0 with
           | [] -> Some None
           | _ :: _ -> Some (Some (Undet (di, do0))))
        | _ :: _ -> Some (Some (Undet (di, do0)))))

(** val export_pairs :
    site list -> (site * ival) list -> (site * ival) list -> fact option **)

let rec export_pairs chosen up = function
| [] -> Some []
| p :: m' ->
  let (s, v) = p in
  (match export_pairs chosen up m' with
   | Some rest ->
     if mem s chosen
     then (match lookup up s with
           | Some uv ->
             (match val_diff v uv with
              | Some o ->
                (match o with
                 | Some d -> Some ((s, d) :: rest)
                 | None -> Some rest)
              | None -> None)
           | None -> Some ((s, v) :: rest))
     else Some rest
   | None -> None)

(** val export :
    (site -> bool) -> (site * ival) list -> (site * ival) list -> fact option
    option **)

let export exported up m = match m with
| [] -> Some None
| _ :: _ ->
  (match export_pairs (choose_sites_to_export exported m) up m with
   | Some f -> (match f with
                | [] -> Some None
                | _ :: _ -> Some (Some f))
   | None -> None)

type pkg_result = { r_conflicts : conflict list; r_map : (site * ival) list;
                    r_chosen : site list; r_fact : fact option }

type outcome =
| OutOfFuel
| Panicked of pkg_result
| Finished of pkg_result

(** val analyze_pkg :
    (site -> bool) -> nat -> (nat * fact) list -> (site * bool) list ->
    trigger list -> outcome **)

let analyze_pkg exported fuel facts annots ts =
  match run fuel init_state (upstream_items facts) with
  | Some st0 ->
    let up = st0.mp in
    (match run fuel st0 (annot_items annots) with
     | Some st1 ->
       (match observe_package fuel st1 ts with
        | Some st2 ->
          let chosen =
            filter (fun s -> mem s (choose_sites_to_export exported st2.mp))
              (map fst st2.mp)
          in
          (match export exported up st2.mp with
           | Some f ->
             Finished { r_conflicts = st2.conflicts; r_map = st2.mp;
               r_chosen = chosen; r_fact = f }
           | None ->
             Panicked { r_conflicts = st2.conflicts; r_map = st2.mp;
               r_chosen = chosen; r_fact = None })
        | None -> OutOfFuel)
     | None -> OutOfFuel)
  | None -> OutOfFuel

type pkg = { p_annots : (site * bool) list; p_triggers : trigger list;
             p_imports : nat list }

(** val run_pkgs :
    (site -> bool) -> nat -> pkg list -> nat -> (nat * fact option) list ->
    outcome list **)

let rec run_pkgs exported fuel pkgs idx facts =
  match pkgs with
  | [] -> []
  | p :: rest ->
    let visible =
      flat_map (fun j ->
        match lookup facts j with
        | Some o -> (match o with
                     | Some f -> (j, f) :: []
                     | None -> [])
        | None -> []) p.p_imports
    in
    let o = analyze_pkg exported fuel visible p.p_annots p.p_triggers in
    let f =
      match o with
      | OutOfFuel -> None
      | Panicked _ -> None
      | Finished r -> r.r_fact
    in
    o :: (run_pkgs exported fuel rest (S idx) (app facts ((idx, f) :: [])))

type atom =
| ASrc of site
| ASnk of site
| AEdge of site * site * tid
| ADirect of tid

(** val atom_of_kinds : tid -> kind -> kind -> atom list **)

let atom_of_kinds t p c =
  match p with
  | KAlways ->
    (match c with
     | KAlways -> (ADirect t) :: []
     | KNever -> []
     | KCond c0 -> (ASrc c0) :: [])
  | KNever -> []
  | KCond p0 ->
    (match c with
     | KAlways -> (ASnk p0) :: []
     | KNever -> []
     | KCond c0 -> (AEdge (p0, c0, t)) :: [])

(** val atoms_of_trigger : trigger -> atom list **)

let atoms_of_trigger t =
  atom_of_kinds t.t_id t.t_prod t.t_cons

(** val atoms_of_fact : fact -> atom list **)

let atoms_of_fact f =
  flat_map (fun sv ->
    match snd sv with
    | Det e ->
      if eval_expl e then (ASrc (fst sv)) :: [] else (ASnk (fst sv)) :: []
    | Undet (ins, outs) ->
      app (map (fun ot -> AEdge ((fst sv), (fst ot), (snd ot))) outs)
        (map (fun it -> AEdge ((fst it), (fst sv), (snd it))) ins)) f

(** val atoms_of_annots : (site * bool) list -> atom list **)

let atoms_of_annots a =
  map (fun sb -> if snd sb then ASrc (fst sb) else ASnk (fst sb)) a

type csys = { base : atom list; ctld : (site * atom) list }

(** val csys_of : fact list -> (site * bool) list -> trigger list -> csys **)

let csys_of facts annots ts =
  { base =
    (app (flat_map atoms_of_fact facts)
      (app (atoms_of_annots annots)
        (flat_map atoms_of_trigger (filter (fun t -> negb (controlled t)) ts))));
    ctld =
    (flat_map (fun t ->
      match t.t_ctrl with
      | Some k -> map (fun a -> (k, a)) (atoms_of_trigger t)
      | None -> []) ts) }

(** val add0 : site -> site list -> site list **)

let add0 s l =
  if mem s l then l else s :: l

(** val step_nil : csys -> site list -> site list **)

let step_nil c cur =
  let f = fun acc a ->
    match a with
    | ASrc s -> add0 s acc
    | AEdge (p, c0, _) -> if mem p acc then add0 c0 acc else acc
    | _ -> acc
  in
  let acc1 = fold_left f c.base cur in
  fold_left (fun acc ka -> if mem (fst ka) acc then f acc (snd ka) else acc)
    c.ctld acc1

(** val iter : nat -> ('a1 -> 'a1) -> 'a1 -> 'a1 **)

let rec iter n f x =
  match n with
  | O -> x
  | S n' -> iter n' f (f x)

(** val nil_set : csys -> site list **)

let nil_set c =
  iter (S (add (length c.base) (length c.ctld))) (step_nil c) []

(** val active_atoms : csys -> atom list **)

let active_atoms c =
  let n = nil_set c in
  app c.base (map snd (filter (fun ka -> mem (fst ka) n) c.ctld))

(** val step_non : atom list -> site list -> site list **)

let step_non acts cur =
  fold_left (fun acc a ->
    match a with
    | ASnk s -> add0 s acc
    | AEdge (p, c, _) -> if mem c acc then add0 p acc else acc
    | _ -> acc) acts cur

(** val non_set : csys -> site list **)

let non_set c =
  let acts = active_atoms c in iter (S (length acts)) (step_non acts) []

(** val has_flow_b : csys -> bool **)

let has_flow_b c =
  (||)
    (existsb (fun a -> match a with
                       | ADirect _ -> true
                       | _ -> false) (active_atoms c))
    (existsb (fun s -> mem s (non_set c)) (nil_set c))

(** val spec_pkgs :
    (site -> bool) -> nat -> pkg list -> nat -> (nat * fact option) list ->
    ((bool * site list) * site list) list **)

let rec spec_pkgs exported fuel pkgs idx facts =
  match pkgs with
  | [] -> []
  | p :: rest ->
    let visible =
      flat_map (fun j ->
        match lookup facts j with
        | Some o -> (match o with
                     | Some f -> (j, f) :: []
                     | None -> [])
        | None -> []) p.p_imports
    in
    let o = analyze_pkg exported fuel visible p.p_annots p.p_triggers in
    let f =
      match o with
      | OutOfFuel -> None
      | Panicked _ -> None
      | Finished r -> r.r_fact
    in
    let c = csys_of (map snd visible) p.p_annots p.p_triggers in
    (((has_flow_b c), (nil_set c)),
    (non_set c)) :: (spec_pkgs exported fuel rest (S idx)
                      (app facts ((idx, f) :: [])))

type pos = { p_file : nat; p_line : nat; p_col : nat; p_off : nat;
             p_valid : bool }

type node = { n_ppos : pos; n_cpos : pos; n_prepr : nat; n_crepr : nat }

type conflict0 = { c_id : nat; c_pos : pos; c_nil : node list;
                   c_nonnil : node list; c_func : nat option; c_test : 
                   bool }

type range = { r_file : nat; r_from : nat; r_to : nat }

(** val pos_key : pos -> ((nat * nat) * nat) option **)

let pos_key p =
  if p.p_valid then Some ((p.p_file, p.p_line), p.p_col) else None

(** val node_key :
    node -> ((((nat * nat) * nat) option * nat) * nat) * ((nat * nat) * nat)
    option **)

let node_key n =
  ((((pos_key n.n_cpos), n.n_prepr), n.n_crepr),
    (if (&&) (negb n.n_cpos.p_valid) n.n_ppos.p_valid
     then pos_key n.n_ppos
     else None))

type gkey =
| KPath of (((((nat * nat) * nat) option * nat) * nat) * ((nat * nat) * nat)
           option) list
| KProd of ((nat * nat) * nat) * nat
| KFunc of nat option * nat * nat

(** val group_key : conflict0 -> gkey **)

let group_key c =
  match c.c_nil with
  | [] ->
    (match c.c_nonnil with
     | [] -> KPath (map node_key c.c_nil)
     | p :: l ->
       (match l with
        | [] ->
          (match pos_key p.n_ppos with
           | Some k -> KProd (k, p.n_prepr)
           | None -> KFunc (c.c_func, p.n_prepr, p.n_crepr))
        | _ :: _ -> KPath (map node_key c.c_nil)))
  | _ :: _ -> KPath (map node_key c.c_nil)

(** val opt3_eqb :
    ((nat * nat) * nat) option -> ((nat * nat) * nat) option -> bool **)

let opt3_eqb a b =
  match a with
  | Some p ->
    let (p0, z) = p in
    let (x, y) = p0 in
    (match b with
     | Some p1 ->
       let (p2, z') = p1 in
       let (x', y') = p2 in
       (&&) ((&&) (Nat.eqb x x') (Nat.eqb y y')) (Nat.eqb z z')
     | None -> false)
  | None -> (match b with
             | Some _ -> false
             | None -> true)

(** val nk_eqb :
    (((((nat * nat) * nat) option * nat) * nat) * ((nat * nat) * nat) option)
    -> (((((nat * nat) * nat) option * nat) * nat) * ((nat * nat) * nat)
    option) -> bool **)

let nk_eqb a b =
  let (p, a4) = a in
  let (p0, a3) = p in
  let (a1, a2) = p0 in
  let (p1, b4) = b in
  let (p2, b3) = p1 in
  let (b1, b2) = p2 in
  (&&) ((&&) ((&&) (opt3_eqb a1 b1) (Nat.eqb a2 b2)) (Nat.eqb a3 b3))
    (opt3_eqb a4 b4)

(** val list_eqb : ('a1 -> 'a1 -> bool) -> 'a1 list -> 'a1 list -> bool **)

let rec list_eqb eqb0 l l' =
  match l with
  | [] -> (match l' with
           | [] -> true
           | _ :: _ -> false)
  | x :: r ->
    (match l' with
     | [] -> false
     | y :: r' -> (&&) (eqb0 x y) (list_eqb eqb0 r r'))

(** val optnat_eqb : nat option -> nat option -> bool **)

let optnat_eqb a b =
  match a with
  | Some x -> (match b with
               | Some y -> Nat.eqb x y
               | None -> false)
  | None -> (match b with
             | Some _ -> false
             | None -> true)

(** val gkey_eqb : gkey -> gkey -> bool **)

let gkey_eqb a b =
  match a with
  | KPath l -> (match b with
                | KPath l' -> list_eqb nk_eqb l l'
                | _ -> false)
  | KProd (p, r) ->
    (match b with
     | KProd (p', r') -> (&&) (opt3_eqb (Some p) (Some p')) (Nat.eqb r r')
     | _ -> false)
  | KFunc (f, p, c) ->
    (match b with
     | KFunc (f', p', c') ->
       (&&) ((&&) (optnat_eqb f f') (Nat.eqb p p')) (Nat.eqb c c')
     | _ -> false)

type diag = { d_head : conflict0; d_similar : conflict0 list }

(** val add_to_group : diag list -> conflict0 -> diag list **)

let rec add_to_group gs c =
  match gs with
  | [] -> { d_head = c; d_similar = [] } :: []
  | g :: gs' ->
    if gkey_eqb (group_key g.d_head) (group_key c)
    then { d_head = g.d_head; d_similar = (app g.d_similar (c :: [])) } :: gs'
    else g :: (add_to_group gs' c)

(** val group_conflicts : conflict0 list -> diag list **)

let group_conflicts cs =
  fold_left add_to_group cs []

(** val no_grouping : conflict0 list -> diag list **)

let no_grouping cs =
  map (fun c -> { d_head = c; d_similar = [] }) cs

(** val conflict_leb : conflict0 -> conflict0 -> bool **)

let conflict_leb a b =
  if Nat.ltb a.c_pos.p_file b.c_pos.p_file
  then true
  else if Nat.ltb b.c_pos.p_file a.c_pos.p_file
       then false
       else Nat.leb a.c_pos.p_off b.c_pos.p_off

(** val insert_c : conflict0 -> conflict0 list -> conflict0 list **)

let rec insert_c x l = match l with
| [] -> x :: []
| y :: l' -> if conflict_leb x y then x :: l else y :: (insert_c x l')

(** val sort_conflicts : conflict0 list -> conflict0 list **)

let sort_conflicts l =
  fold_right insert_c [] l

(** val in_range : range -> conflict0 -> bool **)

let in_range r c =
  (&&)
    ((&&) (Nat.eqb c.c_pos.p_file r.r_file) (Nat.leb r.r_from c.c_pos.p_line))
    (Nat.leb c.c_pos.p_line r.r_to)

(** val suppressed : range list -> bool -> conflict0 -> bool **)

let suppressed rs excl_test c =
  (||) (existsb (fun r -> in_range r c) rs) ((&&) excl_test c.c_test)

(** val diagnostics :
    bool -> range list -> bool -> conflict0 list -> diag list **)

let diagnostics grouping rs excl_test cs =
  let kept =
    filter (fun c -> negb (suppressed rs excl_test c)) (sort_conflicts cs)
  in
  if grouping then group_conflicts kept else no_grouping kept

(** val last_cpos : conflict0 -> ((nat * nat) * nat) option **)

let last_cpos c =
  match rev c.c_nonnil with
  | [] -> None
  | n :: _ -> pos_key n.n_cpos

(** val shown_places : diag -> ((nat * nat) * nat) option list **)

let shown_places d =
  map last_cpos d.d_similar

(** val in_test : nat list -> pos -> bool **)

let in_test tf p =
  (&&) p.p_valid (existsb (Nat.eqb p.p_file) tf)

(** val involves_test : nat list -> conflict0 -> bool **)

let involves_test tf c =
  (||) (in_test tf c.c_pos)
    (existsb (fun n -> (||) (in_test tf n.n_ppos) (in_test tf n.n_cpos))
      (app c.c_nil c.c_nonnil))

(** val set_test : nat list -> conflict0 -> conflict0 **)

let set_test tf c =
  { c_id = c.c_id; c_pos = c.c_pos; c_nil = c.c_nil; c_nonnil = c.c_nonnil;
    c_func = c.c_func; c_test = (involves_test tf c) }

(** val diagnostics_tf :
    bool -> range list -> bool -> nat list -> conflict0 list -> diag list **)

let diagnostics_tf grouping rs excl_test tf cs =
  diagnostics grouping rs excl_test (map (set_test tf) cs)

type str = nat list

(** val has_prefix : str -> str -> bool **)

let rec has_prefix s = function
| [] -> true
| b :: p' ->
  (match s with
   | [] -> false
   | a :: s' -> (&&) (Nat.eqb a b) (has_prefix s' p'))

(** val comma : nat **)

let comma =
  S (S (S (S (S (S (S (S (S (S (S (S (S (S (S (S (S (S (S (S (S (S (S (S (S
    (S (S (S (S (S (S (S (S (S (S (S (S (S (S (S (S (S (S (S
    O)))))))))))))))))))))))))))))))))))))))))))

(** val split_comma : str -> str -> str list **)

let rec split_comma s cur =
  match s with
  | [] -> (rev cur) :: []
  | c :: s' ->
    if Nat.eqb c comma
    then (rev cur) :: (split_comma s' [])
    else split_comma s' (c :: cur)

(** val includes_of_flag : str -> str list **)

let includes_of_flag flag = match flag with
| [] -> [] :: []
| _ :: _ -> split_comma flag []

(** val excludes_of_flag : str -> str list **)

let excludes_of_flag flag = match flag with
| [] -> []
| _ :: _ -> split_comma flag []

(** val is_pkg_in_scope : str list -> str list -> str -> bool **)

let rec is_pkg_in_scope inc exc path0 =
  match inc with
  | [] -> false
  | i :: inc' ->
    if has_prefix path0 i
    then negb (existsb (has_prefix path0) exc)
    else is_pkg_in_scope inc' exc path0

(** val in_scope_flags : str -> str -> str -> bool **)

let in_scope_flags inc_flag exc_flag path0 =
  is_pkg_in_scope (includes_of_flag inc_flag) (excludes_of_flag exc_flag)
    path0

type seg = nat

type rseg =
| Up
| Seg of seg

(** val rel : seg list -> seg list -> rseg list **)

let rec rel base0 targ =
  match base0 with
  | [] -> app (map (fun _ -> Up) base0) (map (fun x -> Seg x) targ)
  | b :: base' ->
    (match targ with
     | [] -> app (map (fun _ -> Up) base0) (map (fun x -> Seg x) targ)
     | t :: targ' ->
       if Nat.eqb b t
       then rel base' targ'
       else app (map (fun _ -> Up) base0) (map (fun x -> Seg x) targ))

type path =
| Abs of seg list
| Relp of rseg list

(** val rel_to_cwd : seg list -> path -> path **)

let rel_to_cwd cwd p = match p with
| Abs t -> Relp (rel cwd t)
| Relp _ -> p

(** val portion_after_sep : 'a1 list -> nat -> 'a1 list **)

let portion_after_sep l occ =
  skipn (sub (length l) (add occ (S O))) l

type var =
| VL of nat
| VG of nat

type fname = nat

type dsite = nat

(** val var_eqb : var -> var -> bool **)

let var_eqb x y =
  match x with
  | VL a -> (match y with
             | VL b -> Nat.eqb a b
             | VG _ -> false)
  | VG a -> (match y with
             | VL _ -> false
             | VG b -> Nat.eqb a b)

(** val is_glob : var -> bool **)

let is_glob = function
| VL _ -> false
| VG _ -> true

type atom_e =
| ANil
| ANew
| AVar of var

type cond =
| COpaque
| CNonNil of var
| CDeref of dsite * var
| CNot of cond
| CAnd of cond * cond
| COr of cond * cond

type stmt =
| SSkip
| SSeq of stmt * stmt
| SAssign of var * atom_e
| SCall of nat * var option * fname * atom_e list
| SDeref of dsite * var
| SIf of cond * stmt * stmt
| SWhile of cond * stmt
| SReturn of atom_e
| SConv of var * nat * nat
| SCallI of nat * dsite * var option * var * nat * nat * atom_e list

type func = { f_nparams : nat; f_body : stmt }

type program = { p_funcs : func list; p_ginit : bool list;
                 p_impls : fname list list }

type value =
| VNil
| VPtr of (nat * nat) option

type store0 = (var * value) list

(** val sget : store0 -> var -> value **)

let rec sget s x =
  match s with
  | [] -> VNil
  | p :: s' -> let (y, v) = p in if var_eqb y x then v else sget s' x

(** val sset : store0 -> var -> value -> store0 **)

let sset s x v =
  (x, v) :: s

(** val globals_of : store0 -> store0 **)

let globals_of s =
  filter (fun yv -> is_glob (fst yv)) s

(** val locals_of : store0 -> store0 **)

let locals_of s =
  filter (fun yv -> negb (is_glob (fst yv))) s

(** val eval_atom : store0 -> atom_e -> value **)

let eval_atom s = function
| ANil -> VNil
| ANew -> VPtr None
| AVar x -> sget s x

type outcome0 =
| ONormal of store0 * bool list
| OReturn of value * store0 * bool list
| OPanic of dsite
| OOutOfFuel

type cres =
| CVal of bool * bool list
| CPanic of dsite

(** val ask : bool list -> bool * bool list **)

let ask = function
| [] -> (false, [])
| b :: o -> (b, o)

(** val eval_cond : store0 -> cond -> bool list -> cres **)

let rec eval_cond s c oracle =
  match c with
  | COpaque -> let (b, o) = ask oracle in CVal (b, o)
  | CNonNil x ->
    CVal ((match sget s x with
           | VNil -> false
           | VPtr _ -> true), oracle)
  | CDeref (d, x) ->
    (match sget s x with
     | VNil -> CPanic d
     | VPtr _ -> let (b, o) = ask oracle in CVal (b, o))
  | CNot c1 ->
    (match eval_cond s c1 oracle with
     | CVal (b, o) -> CVal ((negb b), o)
     | CPanic d -> CPanic d)
  | CAnd (c1, c2) ->
    (match eval_cond s c1 oracle with
     | CVal (b, o) -> if b then eval_cond s c2 o else CVal (false, o)
     | CPanic d -> CPanic d)
  | COr (c1, c2) ->
    (match eval_cond s c1 oracle with
     | CVal (b, o) -> if b then CVal (true, o) else eval_cond s c2 o
     | CPanic d -> CPanic d)

(** val bind_params : nat -> value list -> store0 **)

let rec bind_params i = function
| [] -> []
| v :: vs' -> ((VL i), v) :: (bind_params (S i) vs')

(** val init_globals : nat -> bool list -> store0 **)

let rec init_globals k = function
| [] -> []
| b :: gi' ->
  app (if b then ((VG k), (VPtr None)) :: [] else []) (init_globals (S k) gi')

(** val exec : program -> nat -> stmt -> store0 -> bool list -> outcome0 **)

let rec exec prog fuel st s oracle =
  match fuel with
  | O -> OOutOfFuel
  | S fuel' ->
    (match st with
     | SSkip -> ONormal (s, oracle)
     | SSeq (s1, s2) ->
       (match exec prog fuel' s1 s oracle with
        | ONormal (s', o') -> exec prog fuel' s2 s' o'
        | x -> x)
     | SAssign (x, a) -> ONormal ((sset s x (eval_atom s a)), oracle)
     | SCall (_, x, f, args) ->
       (match nth_error prog.p_funcs f with
        | Some fd ->
          let after = fun s' v ->
            let s1 = app (globals_of s') (locals_of s) in
            (match x with
             | Some y -> sset s1 y v
             | None -> s1)
          in
          (match exec prog fuel' fd.f_body
                   (app (bind_params O (map (eval_atom s) args))
                     (globals_of s)) oracle with
           | ONormal (s', o') -> ONormal ((after s' VNil), o')
           | OReturn (v, s', o') -> ONormal ((after s' v), o')
           | x0 -> x0)
        | None -> ONormal (s, oracle))
     | SDeref (d, x) ->
       (match sget s x with
        | VNil -> OPanic d
        | VPtr _ -> ONormal (s, oracle))
     | SIf (c, s1, s2) ->
       (match eval_cond s c oracle with
        | CVal (b, o') ->
          if b then exec prog fuel' s1 s o' else exec prog fuel' s2 s o'
        | CPanic d -> OPanic d)
     | SWhile (c, body) ->
       (match eval_cond s c oracle with
        | CVal (b, o') ->
          if b
          then (match exec prog fuel' body s o' with
                | ONormal (s', o'') ->
                  exec prog fuel' (SWhile (c, body)) s' o''
                | x -> x)
          else ONormal (s, o')
        | CPanic d -> OPanic d)
     | SReturn a -> OReturn ((eval_atom s a), s, oracle)
     | SConv (x, k, j) -> ONormal ((sset s x (VPtr (Some (k, j)))), oracle)
     | SCallI (_, d, x, xi, k, m, args) ->
       (match sget s xi with
        | VNil -> OPanic d
        | VPtr dyn ->
          (match dyn with
           | Some p ->
             let (k', j) = p in
             (match if Nat.eqb k k'
                    then nth_error (nth j prog.p_impls []) m
                    else None with
              | Some f ->
                (match nth_error prog.p_funcs f with
                 | Some fd ->
                   let after = fun s' v ->
                     let s1 = app (globals_of s') (locals_of s) in
                     (match x with
                      | Some y -> sset s1 y v
                      | None -> s1)
                   in
                   (match exec prog fuel' fd.f_body
                            (app
                              (bind_params O ((VPtr
                                None) :: (map (eval_atom s) args)))
                              (globals_of s)) oracle with
                    | ONormal (s', o') -> ONormal ((after s' VNil), o')
                    | OReturn (v, s', o') -> ONormal ((after s' v), o')
                    | x0 -> x0)
                 | None -> OOutOfFuel)
              | None -> OOutOfFuel)
           | None -> OOutOfFuel)))

(** val run_program : program -> nat -> bool list -> outcome0 **)

let run_program prog fuel oracle =
  match nth_error prog.p_funcs O with
  | Some fd -> exec prog fuel fd.f_body (init_globals O prog.p_ginit) oracle
  | None -> ONormal ([], oracle)

(** val panic_of : outcome0 -> dsite option **)

let panic_of = function
| OPanic d -> Some d
| _ -> None

type asite =
| SParam of fname * nat
| SResult of fname
| SGlobal of nat
| SCallParam of fname * nat
| SCallResult of fname * nat
| SIParam of nat * nat * nat
| SIResult of nat * nat

(** val enc : asite -> site **)

let enc = function
| SParam (f, i) ->
  mul (S (S (S (S (S (S (S O)))))))
    (add
      (mul f (S (S (S (S (S (S (S (S (S (S (S (S (S (S (S (S (S (S (S (S (S
        (S (S (S (S (S (S (S (S (S (S (S (S (S (S (S (S (S (S (S (S (S (S (S
        (S (S (S (S (S (S (S (S (S (S (S (S (S (S (S (S (S (S (S (S
        O))))))))))))))))))))))))))))))))))))))))))))))))))))))))))))))))) i)
| SResult f -> add (mul (S (S (S (S (S (S (S O))))))) f) (S O)
| SGlobal k -> add (mul (S (S (S (S (S (S (S O))))))) k) (S (S O))
| SCallParam (f, cs) ->
  add
    (mul (S (S (S (S (S (S (S O)))))))
      (add
        (mul cs (S (S (S (S (S (S (S (S (S (S (S (S (S (S (S (S (S (S (S (S
          (S (S (S (S (S (S (S (S (S (S (S (S (S (S (S (S (S (S (S (S (S (S
          (S (S (S (S (S (S (S (S (S (S (S (S (S (S (S (S (S (S (S (S (S (S
          O)))))))))))))))))))))))))))))))))))))))))))))))))))))))))))))))))
        f)) (S (S (S O)))
| SCallResult (f, cs) ->
  add
    (mul (S (S (S (S (S (S (S O)))))))
      (add
        (mul cs (S (S (S (S (S (S (S (S (S (S (S (S (S (S (S (S (S (S (S (S
          (S (S (S (S (S (S (S (S (S (S (S (S (S (S (S (S (S (S (S (S (S (S
          (S (S (S (S (S (S (S (S (S (S (S (S (S (S (S (S (S (S (S (S (S (S
          O)))))))))))))))))))))))))))))))))))))))))))))))))))))))))))))))))
        f)) (S (S (S (S O))))
| SIParam (k, m, i) ->
  add
    (mul (S (S (S (S (S (S (S O)))))))
      (add
        (mul (add (mul k (S (S (S (S (S (S (S (S O))))))))) m) (S (S (S (S (S
          (S (S (S O))))))))) i)) (S (S (S (S (S O)))))
| SIResult (k, m) ->
  add
    (mul (S (S (S (S (S (S (S O)))))))
      (add (mul k (S (S (S (S (S (S (S (S O))))))))) m)) (S (S (S (S (S (S
    O))))))

type prod0 =
| PNil
| PNever
| PSite of asite
| PStale

(** val asite_eqb : asite -> asite -> bool **)

let asite_eqb s t =
  match s with
  | SParam (f, i) ->
    (match t with
     | SParam (g, j) -> (&&) (Nat.eqb f g) (Nat.eqb i j)
     | _ -> false)
  | SResult f -> (match t with
                  | SResult g -> Nat.eqb f g
                  | _ -> false)
  | SGlobal k -> (match t with
                  | SGlobal l -> Nat.eqb k l
                  | _ -> false)
  | SCallParam (f, c) ->
    (match t with
     | SCallParam (g, d) -> (&&) (Nat.eqb f g) (Nat.eqb c d)
     | _ -> false)
  | SCallResult (f, c) ->
    (match t with
     | SCallResult (g, d) -> (&&) (Nat.eqb f g) (Nat.eqb c d)
     | _ -> false)
  | SIParam (k, m, i) ->
    (match t with
     | SIParam (k', m', i') ->
       (&&) ((&&) (Nat.eqb k k') (Nat.eqb m m')) (Nat.eqb i i')
     | _ -> false)
  | SIResult (k, m) ->
    (match t with
     | SIResult (k', m') -> (&&) (Nat.eqb k k') (Nat.eqb m m')
     | _ -> false)

(** val prod_eqb : prod0 -> prod0 -> bool **)

let prod_eqb p q =
  match p with
  | PNil -> (match q with
             | PNil -> true
             | _ -> false)
  | PNever -> (match q with
               | PNever -> true
               | _ -> false)
  | PSite s -> (match q with
                | PSite t -> asite_eqb s t
                | _ -> false)
  | PStale -> (match q with
               | PStale -> true
               | _ -> false)

(** val use_ok : prod0 list -> bool **)

let use_ok ps =
  negb (existsb (prod_eqb PStale) ps)

type scons =
| CAlways
| CSite of asite

type strig = { s_id : nat; s_prod : prod0; s_cons : scons;
               s_ctrl : asite option }

(** val mk_trigger : nat -> prod0 -> scons -> strig **)

let mk_trigger id p c =
  { s_id = id; s_prod = p; s_cons = c; s_ctrl = None }

type aset = prod0 list

type env = (var * aset) list

(** val dflt : var -> aset **)

let dflt = function
| VL _ -> PNil :: []
| VG k -> (PSite (SGlobal k)) :: []

(** val aget : env -> var -> aset **)

let rec aget e x =
  match e with
  | [] -> dflt x
  | p :: e' -> let (y, a) = p in if var_eqb y x then a else aget e' x

(** val aput : env -> var -> aset -> env **)

let aput e x a =
  (x, a) :: e

(** val prods_of_atom : env -> atom_e -> aset **)

let prods_of_atom e = function
| ANil -> PNil :: []
| ANew -> PNever :: []
| AVar x -> aget e x

(** val keys : env -> var list **)

let keys e =
  map fst e

(** val subset_b : aset -> aset -> bool **)

let subset_b a b =
  forallb (fun p -> existsb (prod_eqb p) b) a

(** val env_leb : env -> env -> bool **)

let env_leb e1 e2 =
  forallb (fun x -> subset_b (aget e1 x) (aget e2 x))
    (app (keys e1) (keys e2))

(** val union : aset -> aset -> aset **)

let union a b =
  app a (filter (fun p -> negb (existsb (prod_eqb p) a)) b)

(** val dedup_vars : var list -> var list **)

let rec dedup_vars = function
| [] -> []
| x :: l' ->
  if existsb (var_eqb x) l' then dedup_vars l' else x :: (dedup_vars l')

(** val join : env -> env -> env **)

let join e1 e2 =
  map (fun x -> (x, (union (aget e1 x) (aget e2 x))))
    (dedup_vars (app (keys e1) (keys e2)))

(** val join_opt : env option -> env option -> env option **)

let join_opt o1 o2 =
  match o1 with
  | Some e1 -> (match o2 with
                | Some e2 -> Some (join e1 e2)
                | None -> o1)
  | None -> o2

(** val acond : cond -> env -> ((env * env) * strig list) * bool **)

let rec acond c e =
  match c with
  | COpaque -> (((e, e), []), true)
  | CNonNil x -> ((((aput e x (PNever :: [])), e), []), true)
  | CDeref (d, x) ->
    (((e, e), (map (fun p -> mk_trigger d p CAlways) (aget e x))),
      (use_ok (aget e x)))
  | CNot c1 ->
    let (p, b) = acond c1 e in
    let (p0, tr) = p in let (et, ef) = p0 in (((ef, et), tr), b)
  | CAnd (c1, c2) ->
    let (p, b1) = acond c1 e in
    let (p0, tr1) = p in
    let (et1, ef1) = p0 in
    let (p1, b2) = acond c2 et1 in
    let (p2, tr2) = p1 in
    let (et2, ef2) = p2 in
    (((et2, (join ef1 ef2)), (app tr1 tr2)), ((&&) b1 b2))
  | COr (c1, c2) ->
    let (p, b1) = acond c1 e in
    let (p0, tr1) = p in
    let (et1, ef1) = p0 in
    let (p1, b2) = acond c2 ef1 in
    let (p2, tr2) = p1 in
    let (et2, ef2) = p2 in
    ((((join et1 et2), ef2), (app tr1 tr2)), ((&&) b1 b2))

(** val cond_true : cond -> env -> env **)

let cond_true c e =
  fst (fst (fst (acond c e)))

(** val store_triggers : var -> aset -> strig list **)

let store_triggers x a =
  match x with
  | VL _ -> []
  | VG k -> map (fun p -> mk_trigger O p (CSite (SGlobal k))) a

(** val arg_triggers :
    env -> (nat -> asite) -> nat -> atom_e list -> strig list **)

let rec arg_triggers e sf i = function
| [] -> []
| a :: args' ->
  app (map (fun p -> mk_trigger O p (CSite (sf i))) (prods_of_atom e a))
    (arg_triggers e sf (S i) args')

(** val fresh : env -> nat -> bool **)

let fresh e k =
  existsb (prod_eqb (PSite (SGlobal k))) (aget e (VG k))

(** val mark_stale : nat -> env -> env **)

let rec mark_stale ng e =
  match ng with
  | O -> e
  | S k ->
    let e' = mark_stale k e in
    if fresh e k then e' else aput e' (VG k) (PStale :: (aget e (VG k)))

(** val is_nil_atom : atom_e -> bool **)

let is_nil_atom = function
| ANil -> true
| _ -> false

(** val call_param_site : (fname -> bool) -> fname -> nat -> nat -> asite **)

let call_param_site ctr g cs i =
  if ctr g then SCallParam (g, cs) else SParam (g, i)

(** val call_result_site :
    (fname -> bool) -> (fname -> bool) -> fname -> nat -> atom_e list -> asite **)

let call_result_site ctr sp g cs args =
  if (&&) (ctr g) ((||) (sp g) (negb (forallb is_nil_atom args)))
  then SCallResult (g, cs)
  else SResult g

type ares = { a_env : env option; a_trig : strig list; a_gsafe : bool }

(** val loop_inv :
    (env -> ares option) -> cond -> nat -> env -> (env * ares) option **)

let rec loop_inv an_body c n e =
  match n with
  | O -> None
  | S n' ->
    (match an_body (cond_true c e) with
     | Some r ->
       (match r.a_env with
        | Some eb ->
          if env_leb eb e
          then Some (e, r)
          else loop_inv an_body c n' (join e eb)
        | None -> Some (e, r))
     | None -> None)

(** val analyze :
    nat -> (fname -> bool) -> (fname -> bool) -> fname -> nat -> stmt -> env
    -> ares option **)

let rec analyze ng ctr sp f fuel st e =
  match st with
  | SSkip -> Some { a_env = (Some e); a_trig = []; a_gsafe = true }
  | SSeq (s1, s2) ->
    (match analyze ng ctr sp f fuel s1 e with
     | Some r1 ->
       (match r1.a_env with
        | Some e1 ->
          (match analyze ng ctr sp f fuel s2 e1 with
           | Some r2 ->
             Some { a_env = r2.a_env; a_trig = (app r1.a_trig r2.a_trig);
               a_gsafe = ((&&) r1.a_gsafe r2.a_gsafe) }
           | None -> None)
        | None -> Some r1)
     | None -> None)
  | SAssign (x, a) ->
    let ps = prods_of_atom e a in
    Some { a_env = (Some (aput e x ps)); a_trig = (store_triggers x ps);
    a_gsafe = ((||) (use_ok ps) (negb (is_glob x))) }
  | SCall (cs, x, g, args) ->
    let res = (PSite (call_result_site ctr sp g cs args)) :: [] in
    let e' = mark_stale ng e in
    Some { a_env = (Some
    (match x with
     | Some y -> aput e' y res
     | None -> e')); a_trig =
    (app (arg_triggers e (call_param_site ctr g cs) O args)
      (match x with
       | Some y -> store_triggers y res
       | None -> [])); a_gsafe =
    (forallb (fun a -> use_ok (prods_of_atom e a)) args) }
  | SDeref (d, x) ->
    Some { a_env = (Some e); a_trig =
      (map (fun p -> mk_trigger d p CAlways) (aget e x)); a_gsafe =
      (use_ok (aget e x)) }
  | SIf (c, s1, s2) ->
    let (p, bc) = acond c e in
    let (p0, trc) = p in
    let (et, ef) = p0 in
    (match analyze ng ctr sp f fuel s1 et with
     | Some r1 ->
       (match analyze ng ctr sp f fuel s2 ef with
        | Some r2 ->
          Some { a_env = (join_opt r1.a_env r2.a_env); a_trig =
            (app trc (app r1.a_trig r2.a_trig)); a_gsafe =
            ((&&) ((&&) bc r1.a_gsafe) r2.a_gsafe) }
        | None -> None)
     | None -> None)
  | SWhile (c, body) ->
    (match loop_inv (analyze ng ctr sp f fuel body) c fuel e with
     | Some p ->
       let (einv, r) = p in
       let (p0, bc) = acond c einv in
       let (p1, trc) = p0 in
       let (_, ef) = p1 in
       Some { a_env = (Some ef); a_trig = (app trc r.a_trig); a_gsafe =
       ((&&) bc r.a_gsafe) }
     | None -> None)
  | SReturn a ->
    Some { a_env = None; a_trig =
      (map (fun p -> mk_trigger O p (CSite (SResult f))) (prods_of_atom e a));
      a_gsafe = (use_ok (prods_of_atom e a)) }
  | SConv (x, _, _) ->
    Some { a_env = (Some (aput e x (PNever :: []))); a_trig =
      (store_triggers x (PNever :: [])); a_gsafe = true }
  | SCallI (_, d, x, xi, k, m, args) ->
    let res = (PSite (SIResult (k, m))) :: [] in
    let e' = mark_stale ng e in
    Some { a_env = (Some
    (match x with
     | Some y -> aput e' y res
     | None -> e')); a_trig =
    (app (map (fun p -> mk_trigger d p CAlways) (aget e xi))
      (app (arg_triggers e (fun x0 -> SIParam (k, m, x0)) O args)
        (match x with
         | Some y -> store_triggers y res
         | None -> []))); a_gsafe =
    ((&&) (use_ok (aget e xi))
      (forallb (fun a -> use_ok (prods_of_atom e a)) args)) }

(** val entry_env : fname -> nat -> nat -> env **)

let rec entry_env f i = function
| O -> []
| S n' -> ((VL i), ((PSite (SParam (f, i))) :: [])) :: (entry_env f (S i) n')

(** val falloff : fname -> strig **)

let falloff f =
  mk_trigger O PNil (CSite (SResult f))

(** val analyze_func :
    nat -> nat -> (fname -> bool) -> (fname -> bool) -> fname -> func ->
    (strig list * bool) option **)

let analyze_func ng fuel ctr sp f fd =
  match analyze ng ctr sp f fuel fd.f_body (entry_env f O fd.f_nparams) with
  | Some r ->
    Some
      ((match r.a_env with
        | Some _ -> app r.a_trig ((falloff f) :: [])
        | None -> r.a_trig), r.a_gsafe)
  | None -> None

(** val analyze_funcs :
    nat -> nat -> (fname -> bool) -> (fname -> fname -> bool) -> fname ->
    func list -> (strig list list * bool) option **)

let rec analyze_funcs ng fuel ctr sp f = function
| [] -> Some ([], true)
| fd :: rest ->
  (match analyze_func ng fuel ctr (sp f) f fd with
   | Some p ->
     let (t1, b1) = p in
     (match analyze_funcs ng fuel ctr sp (S f) rest with
      | Some p0 -> let (t2, b2) = p0 in Some ((t1 :: t2), ((&&) b1 b2))
      | None -> None)
   | None -> None)

(** val decl_triggers : nat -> bool list -> strig list **)

let rec decl_triggers k = function
| [] -> []
| b :: gi' ->
  app (if b then [] else (mk_trigger O PNil (CSite (SGlobal k))) :: [])
    (decl_triggers (S k) gi')

(** val is_param_prod : fname -> strig -> bool **)

let is_param_prod g t =
  prod_eqb t.s_prod (PSite (SParam (g, O)))

(** val is_res_cons : fname -> strig -> bool **)

let is_res_cons g t =
  match t.s_cons with
  | CAlways -> false
  | CSite s -> asite_eqb s (SResult g)

(** val touches : fname -> strig -> bool **)

let touches g t =
  (||) (is_param_prod g t) (is_res_cons g t)

(** val dupt : fname -> nat -> strig -> strig **)

let dupt g cs t =
  { s_id = t.s_id; s_prod =
    (if is_param_prod g t then PSite (SCallParam (g, cs)) else t.s_prod);
    s_cons =
    (if is_res_cons g t then CSite (SCallResult (g, cs)) else t.s_cons);
    s_ctrl = (if is_res_cons g t then Some (SCallParam (g, cs)) else None) }

(** val dups : fname -> nat -> strig list -> strig list **)

let dups g cs tg =
  map (dupt g cs) (filter (touches g) tg)

(** val convs_of : stmt -> (nat * nat) list **)

let rec convs_of = function
| SSeq (a, b) -> app (convs_of a) (convs_of b)
| SIf (_, a, b) -> app (convs_of a) (convs_of b)
| SWhile (_, b) -> convs_of b
| SConv (_, k, j) -> (k, j) :: []
| _ -> []

(** val seq_from : nat -> nat -> nat list **)

let rec seq_from i = function
| O -> []
| S n' -> i :: (seq_from (S i) n')

(** val affil_method : nat -> nat -> fname -> nat -> strig list **)

let affil_method k m f np =
  (mk_trigger O (PSite (SResult f)) (CSite (SIResult (k, m)))) :: (map
                                                                    (fun i ->
                                                                    mk_trigger
                                                                    O (PSite
                                                                    (SIParam
                                                                    (k, m,
                                                                    i)))
                                                                    (CSite
                                                                    (SParam
                                                                    (f, (S
                                                                    i)))))
                                                                    (seq_from
                                                                    O
                                                                    (pred np)))

(** val affil_methods :
    func list -> nat -> nat -> fname list -> strig list **)

let rec affil_methods funcs k m = function
| [] -> []
| f :: row' ->
  app
    (match nth_error funcs f with
     | Some fd -> affil_method k m f fd.f_nparams
     | None -> []) (affil_methods funcs k (S m) row')

(** val affil : program -> (nat * nat) -> strig list **)

let affil p kj =
  affil_methods p.p_funcs (fst kj) O (nth (snd kj) p.p_impls [])

(** val calls_of : stmt -> (fname * nat) list **)

let rec calls_of = function
| SSeq (a, b) -> app (calls_of a) (calls_of b)
| SCall (cs, _, g, _) -> (g, cs) :: []
| SIf (_, a, b) -> app (calls_of a) (calls_of b)
| SWhile (_, b) -> calls_of b
| _ -> []

(** val dups_of_caller :
    (fname -> bool) -> (fname -> bool) -> strig list list -> func -> strig
    list **)

let dups_of_caller ctr sp tss fd =
  flat_map (fun gc ->
    if (&&) (ctr (fst gc)) (sp (fst gc))
    then dups (fst gc) (snd gc) (nth (fst gc) tss [])
    else []) (calls_of fd.f_body)

(** val dups_all :
    (fname -> bool) -> (fname -> fname -> bool) -> strig list list -> fname
    -> func list -> strig list list **)

let rec dups_all ctr sp tss f = function
| [] -> []
| fd :: rest ->
  (dups_of_caller ctr (sp f) tss fd) :: (dups_all ctr sp tss (S f) rest)

(** val ctr_local :
    (fname -> bool) -> (fname -> fname -> bool) -> fname -> func list -> bool **)

let rec ctr_local ctr sp f = function
| [] -> true
| fd :: rest ->
  (&&)
    (forallb (fun gc -> (||) (negb (ctr (fst gc))) (sp f (fst gc)))
      (calls_of fd.f_body)) (ctr_local ctr sp (S f) rest)

type pres = { r_decl : strig list; r_funcs : strig list list;
              r_dups : strig list list; r_affil : strig list list;
              r_gsafe : bool; r_clocal : bool }

(** val analyze_program :
    nat -> (fname -> bool) -> (fname -> nat) -> program -> pres option **)

let analyze_program fuel ctr pk p =
  let sp = fun f g -> Nat.eqb (pk f) (pk g) in
  (match analyze_funcs (length p.p_ginit) fuel ctr sp O p.p_funcs with
   | Some p0 ->
     let (tss, b) = p0 in
     Some { r_decl = (decl_triggers O p.p_ginit); r_funcs = tss; r_dups =
     (dups_all ctr sp tss O p.p_funcs); r_affil =
     (map (fun fd -> flat_map (affil p) (convs_of fd.f_body)) p.p_funcs);
     r_gsafe = b; r_clocal = (ctr_local ctr sp O p.p_funcs) }
   | None -> None)

(** val var_ok : program -> var -> bool **)

let var_ok p = function
| VL _ -> true
| VG k -> Nat.ltb k (length p.p_ginit)

(** val atom_ok : program -> atom_e -> bool **)

let atom_ok p = function
| AVar x -> var_ok p x
| _ -> true

(** val cond_ok : program -> cond -> bool **)

let rec cond_ok p = function
| COpaque -> true
| CNonNil x -> var_ok p x
| CDeref (_, x) -> var_ok p x
| CNot c1 -> cond_ok p c1
| CAnd (c1, c2) -> (&&) (cond_ok p c1) (cond_ok p c2)
| COr (c1, c2) -> (&&) (cond_ok p c1) (cond_ok p c2)

(** val stmt_ok : program -> stmt -> bool **)

let rec stmt_ok p = function
| SSkip -> true
| SSeq (a, b) -> (&&) (stmt_ok p a) (stmt_ok p b)
| SAssign (x, a) -> (&&) (var_ok p x) (atom_ok p a)
| SCall (_, x, g, args) ->
  (&&)
    ((&&)
      (match nth_error p.p_funcs g with
       | Some fd -> Nat.eqb (length args) fd.f_nparams
       | None -> false) (forallb (atom_ok p) args))
    (match x with
     | Some y -> var_ok p y
     | None -> true)
| SDeref (_, x) -> var_ok p x
| SIf (c, a, b) -> (&&) ((&&) (cond_ok p c) (stmt_ok p a)) (stmt_ok p b)
| SWhile (c, b) -> (&&) (cond_ok p c) (stmt_ok p b)
| SReturn a -> atom_ok p a
| SConv (x, _, _) -> var_ok p x
| SCallI (_, _, x, xi, _, m, args) ->
  (&&)
    ((&&) ((&&) (var_ok p xi) (forallb (atom_ok p) args))
      (match x with
       | Some y -> var_ok p y
       | None -> true))
    (forallb (fun row ->
      match nth_error row m with
      | Some f ->
        (match nth_error p.p_funcs f with
         | Some fd -> Nat.eqb fd.f_nparams (S (length args))
         | None -> false)
      | None -> true) p.p_impls)

(** val wf_program : program -> bool **)

let wf_program p =
  (&&) (forallb (fun fd -> stmt_ok p fd.f_body) p.p_funcs)
    (match p.p_funcs with
     | [] -> true
     | fd :: _ -> Nat.eqb fd.f_nparams O)

(** val impls_plain : program -> (fname -> bool) -> bool **)

let impls_plain p ctr =
  forallb (fun row -> forallb (fun f -> negb (ctr f)) row) p.p_impls

(** val ctr_arity : (fname -> bool) -> fname -> func list -> bool **)

let rec ctr_arity ctr f = function
| [] -> true
| fd :: rest ->
  (&&) ((||) (negb (ctr f)) (Nat.eqb fd.f_nparams (S O)))
    (ctr_arity ctr (S f) rest)

type pset = var list

(** val pmem : var -> pset -> bool **)

let pmem x p =
  existsb (var_eqb x) p

(** val premove : var -> pset -> pset **)

let premove x p =
  filter (fun y -> negb (var_eqb x y)) p

(** val pinter : pset -> pset -> pset **)

let pinter p q =
  filter (fun x -> pmem x q) p

(** val cond_prot : cond -> pset -> (pset * pset) * bool **)

let rec cond_prot c p =
  match c with
  | COpaque -> ((p, p), true)
  | CNonNil x -> (((x :: p), p), true)
  | CDeref (_, x) -> ((p, p), (pmem x p))
  | CNot c1 ->
    let (p0, ok) = cond_prot c1 p in let (pt, pf) = p0 in ((pf, pt), ok)
  | CAnd (c1, c2) ->
    let (p0, ok1) = cond_prot c1 p in
    let (pt1, pf1) = p0 in
    let (p1, ok2) = cond_prot c2 pt1 in
    let (pt2, pf2) = p1 in ((pt2, (pinter pf1 pf2)), ((&&) ok1 ok2))
  | COr (c1, c2) ->
    let (p0, ok1) = cond_prot c1 p in
    let (pt1, pf1) = p0 in
    let (p1, ok2) = cond_prot c2 pf1 in
    let (pt2, pf2) = p1 in (((pinter pt1 pt2), pf2), ((&&) ok1 ok2))

(** val assigned : stmt -> var list **)

let rec assigned = function
| SSeq (a, b) -> app (assigned a) (assigned b)
| SAssign (x, _) -> x :: []
| SCall (_, x0, _, _) -> (match x0 with
                          | Some x -> x :: []
                          | None -> [])
| SIf (_, a, b) -> app (assigned a) (assigned b)
| SWhile (_, b) -> assigned b
| SConv (x, _, _) -> x :: []
| SCallI (_, _, x0, _, _, _, _) ->
  (match x0 with
   | Some x -> x :: []
   | None -> [])
| _ -> []

(** val opt_inter : pset option -> pset option -> pset option **)

let opt_inter o1 o2 =
  match o1 with
  | Some p -> (match o2 with
               | Some q -> Some (pinter p q)
               | None -> o1)
  | None -> o2

(** val stmt_prot : stmt -> pset -> pset option * bool **)

let rec stmt_prot st p =
  match st with
  | SSkip -> ((Some p), true)
  | SSeq (a, b) ->
    let (o, ok1) = stmt_prot a p in
    (match o with
     | Some p1 -> let (o0, ok2) = stmt_prot b p1 in (o0, ((&&) ok1 ok2))
     | None -> (None, ok1))
  | SAssign (x, a) ->
    ((Some
      (match a with
       | ANil -> premove x p
       | ANew -> x :: p
       | AVar y -> if pmem y p then x :: p else premove x p)), true)
  | SCall (_, x, _, _) ->
    ((Some (match x with
            | Some y -> premove y p
            | None -> p)), true)
  | SDeref (_, x) -> ((Some p), (pmem x p))
  | SIf (c, a, b) ->
    let (p0, okc) = cond_prot c p in
    let (pt, pf) = p0 in
    let (oa, oka) = stmt_prot a pt in
    let (ob, okb) = stmt_prot b pf in
    ((opt_inter oa ob), ((&&) ((&&) okc oka) okb))
  | SWhile (c, body) ->
    let p' = filter (fun x -> negb (pmem x (assigned body))) p in
    let (p0, okc) = cond_prot c p' in
    let (pt, pf) = p0 in
    let (_, okb) = stmt_prot body pt in ((Some pf), ((&&) okc okb))
  | SReturn _ -> (None, true)
  | SConv (x, _, _) -> ((Some (x :: p)), true)
  | SCallI (_, _, x, xi, _, _, _) ->
    ((Some (match x with
            | Some y -> premove y p
            | None -> p)), (pmem xi p))

(** val guarded : program -> bool **)

let guarded p =
  forallb (fun fd -> snd (stmt_prot fd.f_body [])) p.p_funcs

(** val anil : value -> bool **)

let anil = function
| VNil -> true
| VPtr _ -> false

(** val value_eqb : value -> value -> bool **)

let value_eqb a b =
  eqb (anil a) (anil b)

(** val st_eqb : nat list -> store0 -> store0 -> bool **)

let st_eqb vars a b =
  forallb (fun x -> value_eqb (sget a (VL x)) (sget b (VL x))) vars

(** val st_mem : nat list -> store0 -> store0 list -> bool **)

let st_mem vars a s =
  existsb (st_eqb vars a) s

(** val st_add : nat list -> store0 -> store0 list -> store0 list **)

let st_add vars a s =
  if st_mem vars a s then s else a :: s

(** val st_union : nat list -> store0 list -> store0 list -> store0 list **)

let st_union vars s t =
  fold_right (st_add vars) t s

(** val st_subset : nat list -> store0 list -> store0 list -> bool **)

let st_subset vars s t =
  forallb (fun a -> st_mem vars a t) s

(** val hvals : store0 -> atom_e -> value list **)

let hvals s = function
| ANil -> VNil :: []
| ANew -> (VPtr None) :: []
| AVar x0 ->
  (match x0 with
   | VL x -> (sget s (VL x)) :: []
   | VG _ -> VNil :: ((VPtr None) :: []))

(** val hcond : store0 -> cond -> bool list **)

let rec hcond s = function
| COpaque -> true :: (false :: [])
| CNonNil x0 ->
  (match x0 with
   | VL x -> (negb (anil (sget s (VL x)))) :: []
   | VG _ -> true :: (false :: []))
| CDeref (_, x0) ->
  (match x0 with
   | VL x -> if anil (sget s (VL x)) then [] else true :: (false :: [])
   | VG _ -> true :: (false :: []))
| CNot c1 -> map negb (hcond s c1)
| CAnd (c1, c2) ->
  flat_map (fun b -> if b then hcond s c2 else false :: []) (hcond s c1)
| COr (c1, c2) ->
  flat_map (fun b -> if b then true :: [] else hcond s c2) (hcond s c1)

(** val assign_all :
    nat list -> store0 -> var -> value list -> store0 list **)

let assign_all _ s x vs =
  match x with
  | VL _ -> map (fun v -> sset s x v) vs
  | VG _ -> s :: []

type hres = { h_norm : store0 list; h_bad : bool }

(** val hloop :
    nat list -> (store0 list -> hres option) -> cond -> nat -> store0 list ->
    (store0 list * bool) option **)

let rec hloop vars body c n s =
  match n with
  | O -> None
  | S n' ->
    let enter = filter (fun s0 -> existsb (fun b -> b) (hcond s0 c)) s in
    (match body enter with
     | Some r ->
       if st_subset vars r.h_norm s
       then Some (s, r.h_bad)
       else (match hloop vars body c n' (st_union vars r.h_norm s) with
             | Some p -> let (s', b) = p in Some (s', ((||) b r.h_bad))
             | None -> None)
     | None -> None)

(** val hreach : nat list -> nat -> stmt -> store0 list -> hres option **)

let rec hreach vars fuel st s =
  match st with
  | SSkip -> Some { h_norm = s; h_bad = false }
  | SSeq (s1, s2) ->
    (match hreach vars fuel s1 s with
     | Some r1 ->
       (match hreach vars fuel s2 r1.h_norm with
        | Some r2 ->
          Some { h_norm = r2.h_norm; h_bad = ((||) r1.h_bad r2.h_bad) }
        | None -> None)
     | None -> None)
  | SAssign (x, a) ->
    Some { h_norm =
      (fold_right (st_add vars) []
        (flat_map (fun s0 -> assign_all vars s0 x (hvals s0 a)) s)); h_bad =
      false }
  | SCall (_, x, _, _) ->
    Some { h_norm =
      (match x with
       | Some y ->
         fold_right (st_add vars) []
           (flat_map (fun s0 ->
             assign_all vars s0 y (VNil :: ((VPtr None) :: []))) s)
       | None -> s); h_bad = false }
  | SDeref (_, x) ->
    Some { h_norm =
      (match x with
       | VL _ -> filter (fun s0 -> negb (anil (sget s0 x))) s
       | VG _ -> s); h_bad = false }
  | SIf (c, s1, s2) ->
    let st0 = filter (fun s0 -> existsb (fun b -> b) (hcond s0 c)) s in
    let sf = filter (fun s0 -> existsb negb (hcond s0 c)) s in
    (match hreach vars fuel s1 st0 with
     | Some r1 ->
       (match hreach vars fuel s2 sf with
        | Some r2 ->
          Some { h_norm = (st_union vars r1.h_norm r2.h_norm); h_bad =
            ((||) r1.h_bad r2.h_bad) }
        | None -> None)
     | None -> None)
  | SWhile (c, body) ->
    (match hloop vars (hreach vars fuel body) c fuel s with
     | Some p ->
       let (sinv, b) = p in
       Some { h_norm = (filter (fun s0 -> existsb negb (hcond s0 c)) sinv);
       h_bad = b }
     | None -> None)
  | SReturn a ->
    Some { h_norm = []; h_bad =
      (existsb (fun s0 -> existsb anil (hvals s0 a)) s) }
  | SConv (x, _, _) ->
    Some { h_norm =
      (fold_right (st_add vars) []
        (flat_map (fun s0 -> assign_all vars s0 x ((VPtr None) :: [])) s));
      h_bad = false }
  | SCallI (_, _, x, xi, _, _, _) ->
    let s' =
      match xi with
      | VL _ -> filter (fun s0 -> negb (anil (sget s0 xi))) s
      | VG _ -> s
    in
    Some { h_norm =
    (match x with
     | Some y ->
       fold_right (st_add vars) []
         (flat_map (fun s0 ->
           assign_all vars s0 y (VNil :: ((VPtr None) :: []))) s')
     | None -> s'); h_bad = false }

(** val lvar : var -> nat list **)

let lvar = function
| VL n -> n :: []
| VG _ -> []

(** val latom : atom_e -> nat list **)

let latom = function
| AVar x -> lvar x
| _ -> []

(** val lcond : cond -> nat list **)

let rec lcond = function
| COpaque -> []
| CNonNil x -> lvar x
| CDeref (_, x) -> lvar x
| CNot c1 -> lcond c1
| CAnd (c1, c2) -> app (lcond c1) (lcond c2)
| COr (c1, c2) -> app (lcond c1) (lcond c2)

(** val lstmt : stmt -> nat list **)

let rec lstmt = function
| SSkip -> []
| SSeq (a, b) -> app (lstmt a) (lstmt b)
| SAssign (x, a) -> app (lvar x) (latom a)
| SCall (_, x, _, args) ->
  app (match x with
       | Some y -> lvar y
       | None -> []) (flat_map latom args)
| SDeref (_, x) -> lvar x
| SIf (c, a, b) -> app (lcond c) (app (lstmt a) (lstmt b))
| SWhile (c, b) -> app (lcond c) (lstmt b)
| SReturn a -> latom a
| SConv (x, _, _) -> lvar x
| SCallI (_, _, x, xi, _, _, args) ->
  app (match x with
       | Some y -> lvar y
       | None -> []) (app (lvar xi) (flat_map latom args))

(** val infer_sem : nat -> func -> bool **)

let infer_sem fuel fd =
  (&&) (Nat.eqb fd.f_nparams (S O))
    (match hreach (O :: (lstmt fd.f_body)) fuel fd.f_body ((((VL O), (VPtr
             None)) :: []) :: []) with
     | Some r ->
       (&&) (negb r.h_bad) (match r.h_norm with
                            | [] -> true
                            | _ :: _ -> false)
     | None -> false)
