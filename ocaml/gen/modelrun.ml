(* Runner for the extracted models: reads one case per line (integers), prints one result per line. *)
open Engine_model

let rec nat_of_int n = if n <= 0 then O else S (nat_of_int (n - 1))
let rec int_of_nat = function O -> 0 | S n -> 1 + int_of_nat n

(* a big fuel, built once *)
let fuel = nat_of_int 200000

let ints_of_line l =
  List.filter_map (fun s -> if s = "" then None else Some (int_of_string s)) (String.split_on_char ' ' l)

let rec expl_ints e = match e with
  | EAnnot (_, s) -> [int_of_nat s; -2]
  | EShallow (_, t) -> [int_of_nat t; -1]
  | EDeep (t, e') -> int_of_nat t :: expl_ints e'

let str_ints l = String.concat "," (List.map string_of_int l)
let str_expl e = str_ints (expl_ints e)
let str_edges l = String.concat "," (List.map (fun (s, t) -> Printf.sprintf "%d/%d" (int_of_nat s) (int_of_nat t)) l)
let str_entry (s, v) = match v with
  | Det e -> Printf.sprintf "%d=D%d(%s)" (int_of_nat s) (if eval_expl e then 1 else 0) (str_expl e)
  | Undet (i, o) -> Printf.sprintf "%d=U(i:%s;o:%s)" (int_of_nat s) (str_edges i) (str_edges o)
let str_map m = String.concat ";" (List.map str_entry m)
let str_conflict = function
  | CSingle t -> Printf.sprintf "S%d" (int_of_nat t)
  | COver (a, b) -> Printf.sprintf "O(%s|%s)" (str_expl a) (str_expl b)
let str_result r fact_s =
  Printf.sprintf "{C[%s];M[%s];X[%s];F%s}"
    (String.concat ";" (List.map str_conflict r.r_conflicts)) (str_map r.r_map)
    (str_ints (List.map int_of_nat r.r_chosen)) fact_s
let str_outcome = function
  | OutOfFuel -> "{OUT-OF-FUEL}"
  | Panicked r -> str_result r "!"
  | Finished r -> str_result r (match r.r_fact with None -> "-" | Some f -> "[" ^ str_map f ^ "]")

(* scenario := nsites {id exported param pkg}* npkgs {nimports imp* nannots {site val}* ntrig {id pk ck p c ctrl}*}* *)
let engine_line spec l =
  let a = Array.of_list (ints_of_line l) in
  let pos = ref 0 in
  let next () = let v = a.(!pos) in incr pos; v in
  let nsites = next () in
  let exported_tbl = Hashtbl.create 16 in
  for _ = 1 to nsites do
    let id = next () in let ex = next () in let _ = next () in let _ = next () in
    Hashtbl.replace exported_tbl id (ex = 1)
  done;
  let exported s = try Hashtbl.find exported_tbl (int_of_nat s) with Not_found -> false in
  let npkgs = next () in
  let kind k s = match k with 0 -> KAlways | 1 -> KNever | _ -> KCond (nat_of_int s) in
  let pkgs = List.init npkgs (fun _ ->
    let ni = next () in
    let imports = List.init ni (fun _ -> nat_of_int (next ())) in
    let na = next () in
    let annots = List.init na (fun _ -> let s = next () in let v = next () in (nat_of_int s, v = 1)) in
    let nt = next () in
    let trigs = List.init nt (fun _ ->
      let id = next () in let pk = next () in let ck = next () in let p = next () in let c = next () in let ctrl = next () in
      { t_id = nat_of_int id; t_prod = kind pk p; t_cons = kind ck c; t_ctrl = (if ctrl < 0 then None else Some (nat_of_int ctrl)) }) in
    { p_annots = annots; p_triggers = trigs; p_imports = imports }) in
  if spec then begin
    let outs = spec_pkgs exported fuel pkgs O [] in
    print_endline (String.concat " " (List.map (fun ((fl, n), m) ->
      Printf.sprintf "{flow=%d;N[%s];M[%s]}" (if fl then 1 else 0)
        (str_ints (List.sort compare (List.map int_of_nat n))) (str_ints (List.sort compare (List.map int_of_nat m)))) outs))
  end else begin
    let outs = run_pkgs exported fuel pkgs O [] in
    print_endline (String.concat " " (List.map str_outcome outs))
  end

let () =
  let mode = if Array.length Sys.argv > 1 then Sys.argv.(1) else "engine" in
  try
    while true do
      let l = input_line stdin in
      if String.trim l <> "" then
        (match mode with
         | "engine" -> engine_line false l
         | "enginespec" -> engine_line true l
         | _ -> failwith "unknown mode")
    done
  with End_of_file -> ()
