
val negb : bool -> bool

type nat =
| O
| S of nat

val fst : ('a1 * 'a2) -> 'a1

val snd : ('a1 * 'a2) -> 'a2

val length : 'a1 list -> nat

val app : 'a1 list -> 'a1 list -> 'a1 list

val add : nat -> nat -> nat

val sub : nat -> nat -> nat

val eqb : bool -> bool -> bool

module Nat :
 sig
  val eqb : nat -> nat -> bool

  val leb : nat -> nat -> bool

  val ltb : nat -> nat -> bool
 end

val rev : 'a1 list -> 'a1 list

val map : ('a1 -> 'a2) -> 'a1 list -> 'a2 list

val flat_map : ('a1 -> 'a2 list) -> 'a1 list -> 'a2 list

val fold_left : ('a1 -> 'a2 -> 'a1) -> 'a2 list -> 'a1 -> 'a1

val fold_right : ('a2 -> 'a1 -> 'a1) -> 'a1 -> 'a2 list -> 'a1

val existsb : ('a1 -> bool) -> 'a1 list -> bool

val filter : ('a1 -> bool) -> 'a1 list -> 'a1 list

val skipn : nat -> 'a1 list -> 'a1 list

type site = nat

type tid = nat

type kind =
| KAlways
| KNever
| KCond of site

type trigger = { t_id : tid; t_prod : kind; t_cons : kind;
                 t_ctrl : site option }

type expl =
| EAnnot of bool * site
| EShallow of bool * tid
| EDeep of tid * expl

val eval_expl : expl -> bool

type ival =
| Det of expl
| Undet of (site * tid) list * (site * tid) list

val lookup : (site * 'a1) list -> site -> 'a1 option

val store : (site * 'a1) list -> site -> 'a1 -> (site * 'a1) list

type conflict =
| CSingle of tid
| COver of expl * expl

type state = { mp : (site * ival) list; conflicts : conflict list;
               ctl : trigger list }

val init_state : state

val set_mp : state -> (site * ival) list -> state

val add_conflict : state -> conflict -> state

val set_ctl : state -> trigger list -> state

val ctrl_is : site -> trigger -> bool

val controlled : trigger -> bool

val controlled_by : trigger list -> site -> trigger list

type item =
| ISite of site * expl
| ITrig of trigger
| IImpl of site * site * tid

val activate : state -> site -> bool -> item list

val store_impl :
  (site * ival) list -> site -> site -> tid -> (site * ival) list

val step : state -> item -> state * item list

val run : nat -> state -> item list -> state option

type fact = (site * ival) list

val fact_items : fact -> item list

val insert_by : ('a1 -> nat) -> 'a1 -> 'a1 list -> 'a1 list

val sort_by : ('a1 -> nat) -> 'a1 list -> 'a1 list

val upstream_items : (nat * fact) list -> item list

val annot_items : (site * bool) list -> item list

val is_det_true : (site * ival) list -> site -> bool

val dedup : site list -> site list -> site list

val ctrl_sites : trigger list -> site list

val build_pkg_work : state -> trigger list -> state * item list

val build_pkg : nat -> state -> trigger list -> state option

val observe_package : nat -> state -> trigger list -> state option

val mem : site -> site list -> bool

val outs_of : (site * ival) list -> site -> site list

val ins_of : (site * ival) list -> site -> site list

val is_undet : (site * ival) list -> site -> bool

type marks = { toExp : site list; rfe : site list; re : site list }

val mark_rfe :
  (site -> bool) -> nat -> (site * ival) list -> marks -> site -> marks

val mark_re :
  (site -> bool) -> nat -> (site * ival) list -> marks -> site -> marks

val choose_marks : (site -> bool) -> (site * ival) list -> marks

val choose_sites_to_export : (site -> bool) -> (site * ival) list -> site list

val edges_diff : (site * tid) list -> (site * tid) list -> (site * tid) list

val val_diff : ival -> ival -> ival option option

val export_pairs :
  site list -> (site * ival) list -> (site * ival) list -> fact option

val export :
  (site -> bool) -> (site * ival) list -> (site * ival) list -> fact option
  option

type pkg_result = { r_conflicts : conflict list; r_map : (site * ival) list;
                    r_chosen : site list; r_fact : fact option }

type outcome =
| OutOfFuel
| Panicked of pkg_result
| Finished of pkg_result

val analyze_pkg :
  (site -> bool) -> nat -> (nat * fact) list -> (site * bool) list -> trigger
  list -> outcome

type pkg = { p_annots : (site * bool) list; p_triggers : trigger list;
             p_imports : nat list }

val run_pkgs :
  (site -> bool) -> nat -> pkg list -> nat -> (nat * fact option) list ->
  outcome list

type atom =
| ASrc of site
| ASnk of site
| AEdge of site * site * tid
| ADirect of tid

val atom_of_kinds : tid -> kind -> kind -> atom list

val atoms_of_trigger : trigger -> atom list

val atoms_of_fact : fact -> atom list

val atoms_of_annots : (site * bool) list -> atom list

type csys = { base : atom list; ctld : (site * atom) list }

val csys_of : fact list -> (site * bool) list -> trigger list -> csys

val add0 : site -> site list -> site list

val step_nil : csys -> site list -> site list

val iter : nat -> ('a1 -> 'a1) -> 'a1 -> 'a1

val nil_set : csys -> site list

val active_atoms : csys -> atom list

val step_non : atom list -> site list -> site list

val non_set : csys -> site list

val has_flow_b : csys -> bool

val spec_pkgs :
  (site -> bool) -> nat -> pkg list -> nat -> (nat * fact option) list ->
  ((bool * site list) * site list) list

type pos = { p_file : nat; p_line : nat; p_col : nat; p_off : nat;
             p_valid : bool }

type node = { n_ppos : pos; n_cpos : pos; n_prepr : nat; n_crepr : nat }

type conflict0 = { c_id : nat; c_pos : pos; c_nil : node list;
                   c_nonnil : node list; c_func : nat option; c_test : 
                   bool }

type range = { r_file : nat; r_from : nat; r_to : nat }

val pos_key : pos -> ((nat * nat) * nat) option

val node_key :
  node -> ((((nat * nat) * nat) option * nat) * nat) * ((nat * nat) * nat)
  option

type gkey =
| KPath of (((((nat * nat) * nat) option * nat) * nat) * ((nat * nat) * nat)
           option) list
| KProd of ((nat * nat) * nat) * nat
| KFunc of nat option * nat * nat

val group_key : conflict0 -> gkey

val opt3_eqb :
  ((nat * nat) * nat) option -> ((nat * nat) * nat) option -> bool

val nk_eqb :
  (((((nat * nat) * nat) option * nat) * nat) * ((nat * nat) * nat) option)
  -> (((((nat * nat) * nat) option * nat) * nat) * ((nat * nat) * nat)
  option) -> bool

val list_eqb : ('a1 -> 'a1 -> bool) -> 'a1 list -> 'a1 list -> bool

val optnat_eqb : nat option -> nat option -> bool

val gkey_eqb : gkey -> gkey -> bool

type diag = { d_head : conflict0; d_similar : conflict0 list }

val add_to_group : diag list -> conflict0 -> diag list

val group_conflicts : conflict0 list -> diag list

val no_grouping : conflict0 list -> diag list

val conflict_leb : conflict0 -> conflict0 -> bool

val insert_c : conflict0 -> conflict0 list -> conflict0 list

val sort_conflicts : conflict0 list -> conflict0 list

val in_range : range -> conflict0 -> bool

val suppressed : range list -> bool -> conflict0 -> bool

val diagnostics : bool -> range list -> bool -> conflict0 list -> diag list

val last_cpos : conflict0 -> ((nat * nat) * nat) option

val shown_places : diag -> ((nat * nat) * nat) option list

val in_test : nat list -> pos -> bool

val involves_test : nat list -> conflict0 -> bool

val set_test : nat list -> conflict0 -> conflict0

val diagnostics_tf :
  bool -> range list -> bool -> nat list -> conflict0 list -> diag list

type str = nat list

val has_prefix : str -> str -> bool

val comma : nat

val split_comma : str -> str -> str list

val includes_of_flag : str -> str list

val excludes_of_flag : str -> str list

val is_pkg_in_scope : str list -> str list -> str -> bool

val in_scope_flags : str -> str -> str -> bool

type seg = nat

type rseg =
| Up
| Seg of seg

val rel : seg list -> seg list -> rseg list

type path =
| Abs of seg list
| Relp of rseg list

val rel_to_cwd : seg list -> path -> path

val portion_after_sep : 'a1 list -> nat -> 'a1 list
