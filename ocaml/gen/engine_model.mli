
val negb : bool -> bool

type nat =
| O
| S of nat

val fst : ('a1 * 'a2) -> 'a1

val snd : ('a1 * 'a2) -> 'a2

val length : 'a1 list -> nat

val app : 'a1 list -> 'a1 list -> 'a1 list

val pred : nat -> nat

val add : nat -> nat -> nat

val mul : nat -> nat -> nat

val sub : nat -> nat -> nat

val eqb : bool -> bool -> bool

module Nat :
 sig
  val eqb : nat -> nat -> bool

  val leb : nat -> nat -> bool

  val ltb : nat -> nat -> bool
 end

val nth : nat -> 'a1 list -> 'a1 -> 'a1

val nth_error : 'a1 list -> nat -> 'a1 option

val rev : 'a1 list -> 'a1 list

val map : ('a1 -> 'a2) -> 'a1 list -> 'a2 list

val flat_map : ('a1 -> 'a2 list) -> 'a1 list -> 'a2 list

val fold_left : ('a1 -> 'a2 -> 'a1) -> 'a2 list -> 'a1 -> 'a1

val fold_right : ('a2 -> 'a1 -> 'a1) -> 'a1 -> 'a2 list -> 'a1

val existsb : ('a1 -> bool) -> 'a1 list -> bool

val forallb : ('a1 -> bool) -> 'a1 list -> bool

val filter : ('a1 -> bool) -> 'a1 list -> 'a1 list

val skipn : nat -> 'a1 list -> 'a1 list

type site = nat

type tid = nat

type kind =
| KAlways
| KNever
| KCond of site

type trigger = { t_id : tid; t_prod : kind; t_cons : kind;
                 t_ctrl : site option }

type expl =
| EAnnot of bool * site
| EShallow of bool * tid
| EDeep of tid * expl

val eval_expl : expl -> bool

type ival =
| Det of expl
| Undet of (site * tid) list * (site * tid) list

val lookup : (site * 'a1) list -> site -> 'a1 option

val store : (site * 'a1) list -> site -> 'a1 -> (site * 'a1) list

type conflict =
| CSingle of tid
| COver of expl * expl

type state = { mp : (site * ival) list; conflicts : conflict list;
               ctl : trigger list }

val init_state : state

val set_mp : state -> (site * ival) list -> state

val add_conflict : state -> conflict -> state

val set_ctl : state -> trigger list -> state

val ctrl_is : site -> trigger -> bool

val controlled : trigger -> bool

val controlled_by : trigger list -> site -> trigger list

type item =
| ISite of site * expl
| ITrig of trigger
| IImpl of site * site * tid

val activate : state -> site -> bool -> item list

val store_impl :
  (site * ival) list -> site -> site -> tid -> (site * ival) list

val step : state -> item -> state * item list

val run : nat -> state -> item list -> state option

type fact = (site * ival) list

val fact_items : fact -> item list

val insert_by : ('a1 -> nat) -> 'a1 -> 'a1 list -> 'a1 list

val sort_by : ('a1 -> nat) -> 'a1 list -> 'a1 list

val upstream_items : (nat * fact) list -> item list

val annot_items : (site * bool) list -> item list

val is_det_true : (site * ival) list -> site -> bool

val dedup : site list -> site list -> site list

val ctrl_sites : trigger list -> site list

val build_pkg_work : state -> trigger list -> state * item list

val build_pkg : nat -> state -> trigger list -> state option

val observe_package : nat -> state -> trigger list -> state option

val mem : site -> site list -> bool

val outs_of : (site * ival) list -> site -> site list

val ins_of : (site * ival) list -> site -> site list

val is_undet : (site * ival) list -> site -> bool

type marks = { toExp : site list; rfe : site list; re : site list }

val mark_rfe :
  (site -> bool) -> nat -> (site * ival) list -> marks -> site -> marks

val mark_re :
  (site -> bool) -> nat -> (site * ival) list -> marks -> site -> marks

val choose_marks : (site -> bool) -> (site * ival) list -> marks

val choose_sites_to_export : (site -> bool) -> (site * ival) list -> site list

val edges_diff : (site * tid) list -> (site * tid) list -> (site * tid) list

val val_diff : ival -> ival -> ival option option

val export_pairs :
  site list -> (site * ival) list -> (site * ival) list -> fact option

val export :
  (site -> bool) -> (site * ival) list -> (site * ival) list -> fact option
  option

type pkg_result = { r_conflicts : conflict list; r_map : (site * ival) list;
                    r_chosen : site list; r_fact : fact option }

type outcome =
| OutOfFuel
| Panicked of pkg_result
| Finished of pkg_result

val analyze_pkg :
  (site -> bool) -> nat -> (nat * fact) list -> (site * bool) list -> trigger
  list -> outcome

type pkg = { p_annots : (site * bool) list; p_triggers : trigger list;
             p_imports : nat list }

val run_pkgs :
  (site -> bool) -> nat -> pkg list -> nat -> (nat * fact option) list ->
  outcome list

type atom =
| ASrc of site
| ASnk of site
| AEdge of site * site * tid
| ADirect of tid

val atom_of_kinds : tid -> kind -> kind -> atom list

val atoms_of_trigger : trigger -> atom list

val atoms_of_fact : fact -> atom list

val atoms_of_annots : (site * bool) list -> atom list

type csys = { base : atom list; ctld : (site * atom) list }

val csys_of : fact list -> (site * bool) list -> trigger list -> csys

val add0 : site -> site list -> site list

val step_nil : csys -> site list -> site list

val iter : nat -> ('a1 -> 'a1) -> 'a1 -> 'a1

val nil_set : csys -> site list

val active_atoms : csys -> atom list

val step_non : atom list -> site list -> site list

val non_set : csys -> site list

val has_flow_b : csys -> bool

val spec_pkgs :
  (site -> bool) -> nat -> pkg list -> nat -> (nat * fact option) list ->
  ((bool * site list) * site list) list

type pos = { p_file : nat; p_line : nat; p_col : nat; p_off : nat;
             p_valid : bool }

type node = { n_ppos : pos; n_cpos : pos; n_prepr : nat; n_crepr : nat }

type conflict0 = { c_id : nat; c_pos : pos; c_nil : node list;
                   c_nonnil : node list; c_func : nat option; c_test : 
                   bool }

type range = { r_file : nat; r_from : nat; r_to : nat }

val pos_key : pos -> ((nat * nat) * nat) option

val node_key :
  node -> ((((nat * nat) * nat) option * nat) * nat) * ((nat * nat) * nat)
  option

type gkey =
| KPath of (((((nat * nat) * nat) option * nat) * nat) * ((nat * nat) * nat)
           option) list
| KProd of ((nat * nat) * nat) * nat
| KFunc of nat option * nat * nat

val group_key : conflict0 -> gkey

val opt3_eqb :
  ((nat * nat) * nat) option -> ((nat * nat) * nat) option -> bool

val nk_eqb :
  (((((nat * nat) * nat) option * nat) * nat) * ((nat * nat) * nat) option)
  -> (((((nat * nat) * nat) option * nat) * nat) * ((nat * nat) * nat)
  option) -> bool

val list_eqb : ('a1 -> 'a1 -> bool) -> 'a1 list -> 'a1 list -> bool

val optnat_eqb : nat option -> nat option -> bool

val gkey_eqb : gkey -> gkey -> bool

type diag = { d_head : conflict0; d_similar : conflict0 list }

val add_to_group : diag list -> conflict0 -> diag list

val group_conflicts : conflict0 list -> diag list

val no_grouping : conflict0 list -> diag list

val conflict_leb : conflict0 -> conflict0 -> bool

val insert_c : conflict0 -> conflict0 list -> conflict0 list

val sort_conflicts : conflict0 list -> conflict0 list

val in_range : range -> conflict0 -> bool

val suppressed : range list -> bool -> conflict0 -> bool

val diagnostics : bool -> range list -> bool -> conflict0 list -> diag list

val last_cpos : conflict0 -> ((nat * nat) * nat) option

val shown_places : diag -> ((nat * nat) * nat) option list

val in_test : nat list -> pos -> bool

val involves_test : nat list -> conflict0 -> bool

val set_test : nat list -> conflict0 -> conflict0

val diagnostics_tf :
  bool -> range list -> bool -> nat list -> conflict0 list -> diag list

type str = nat list

val has_prefix : str -> str -> bool

val comma : nat

val split_comma : str -> str -> str list

val includes_of_flag : str -> str list

val excludes_of_flag : str -> str list

val is_pkg_in_scope : str list -> str list -> str -> bool

val in_scope_flags : str -> str -> str -> bool

type seg = nat

type rseg =
| Up
| Seg of seg

val rel : seg list -> seg list -> rseg list

type path =
| Abs of seg list
| Relp of rseg list

val rel_to_cwd : seg list -> path -> path

val portion_after_sep : 'a1 list -> nat -> 'a1 list

type var =
| VL of nat
| VG of nat

type fname = nat

type dsite = nat

val var_eqb : var -> var -> bool

val is_glob : var -> bool

type atom_e =
| ANil
| ANew
| AVar of var

type cond =
| COpaque
| CNonNil of var
| CDeref of dsite * var
| CNot of cond
| CAnd of cond * cond
| COr of cond * cond

type stmt =
| SSkip
| SSeq of stmt * stmt
| SAssign of var * atom_e
| SCall of nat * var option * fname * atom_e list
| SDeref of dsite * var
| SIf of cond * stmt * stmt
| SWhile of cond * stmt
| SReturn of atom_e
| SConv of var * nat * nat
| SCallI of nat * dsite * var option * var * nat * nat * atom_e list

type func = { f_nparams : nat; f_body : stmt }

type program = { p_funcs : func list; p_ginit : bool list;
                 p_impls : fname list list }

type value =
| VNil
| VPtr of (nat * nat) option

type store0 = (var * value) list

val sget : store0 -> var -> value

val sset : store0 -> var -> value -> store0

val globals_of : store0 -> store0

val locals_of : store0 -> store0

val eval_atom : store0 -> atom_e -> value

type outcome0 =
| ONormal of store0 * bool list
| OReturn of value * store0 * bool list
| OPanic of dsite
| OOutOfFuel

type cres =
| CVal of bool * bool list
| CPanic of dsite

val ask : bool list -> bool * bool list

val eval_cond : store0 -> cond -> bool list -> cres

val bind_params : nat -> value list -> store0

val init_globals : nat -> bool list -> store0

val exec : program -> nat -> stmt -> store0 -> bool list -> outcome0

val run_program : program -> nat -> bool list -> outcome0

val panic_of : outcome0 -> dsite option

type asite =
| SParam of fname * nat
| SResult of fname
| SGlobal of nat
| SCallParam of fname * nat
| SCallResult of fname * nat
| SIParam of nat * nat * nat
| SIResult of nat * nat

val enc : asite -> site

type prod0 =
| PNil
| PNever
| PSite of asite
| PStale

val asite_eqb : asite -> asite -> bool

val prod_eqb : prod0 -> prod0 -> bool

val use_ok : prod0 list -> bool

type scons =
| CAlways
| CSite of asite

type strig = { s_id : nat; s_prod : prod0; s_cons : scons;
               s_ctrl : asite option }

val mk_trigger : nat -> prod0 -> scons -> strig

type aset = prod0 list

type env = (var * aset) list

val dflt : var -> aset

val aget : env -> var -> aset

val aput : env -> var -> aset -> env

val prods_of_atom : env -> atom_e -> aset

val keys : env -> var list

val subset_b : aset -> aset -> bool

val env_leb : env -> env -> bool

val union : aset -> aset -> aset

val dedup_vars : var list -> var list

val join : env -> env -> env

val join_opt : env option -> env option -> env option

val acond : cond -> env -> ((env * env) * strig list) * bool

val cond_true : cond -> env -> env

val store_triggers : var -> aset -> strig list

val arg_triggers : env -> (nat -> asite) -> nat -> atom_e list -> strig list

val fresh : env -> nat -> bool

val mark_stale : nat -> env -> env

val is_nil_atom : atom_e -> bool

val call_param_site : (fname -> bool) -> fname -> nat -> nat -> asite

val call_result_site :
  (fname -> bool) -> (fname -> bool) -> fname -> nat -> atom_e list -> asite

type ares = { a_env : env option; a_trig : strig list; a_gsafe : bool }

val loop_inv :
  (env -> ares option) -> cond -> nat -> env -> (env * ares) option

val analyze :
  nat -> (fname -> bool) -> (fname -> bool) -> fname -> nat -> stmt -> env ->
  ares option

val entry_env : fname -> nat -> nat -> env

val falloff : fname -> strig

val analyze_func :
  nat -> nat -> (fname -> bool) -> (fname -> bool) -> fname -> func -> (strig
  list * bool) option

val analyze_funcs :
  nat -> nat -> (fname -> bool) -> (fname -> fname -> bool) -> fname -> func
  list -> (strig list list * bool) option

val decl_triggers : nat -> bool list -> strig list

val is_param_prod : fname -> strig -> bool

val is_res_cons : fname -> strig -> bool

val touches : fname -> strig -> bool

val dupt : fname -> nat -> strig -> strig

val dups : fname -> nat -> strig list -> strig list

val convs_of : stmt -> (nat * nat) list

val seq_from : nat -> nat -> nat list

val affil_method : nat -> nat -> fname -> nat -> strig list

val affil_methods : func list -> nat -> nat -> fname list -> strig list

val affil : program -> (nat * nat) -> strig list

val calls_of : stmt -> (fname * nat) list

val dups_of_caller :
  (fname -> bool) -> (fname -> bool) -> strig list list -> func -> strig list

val dups_all :
  (fname -> bool) -> (fname -> fname -> bool) -> strig list list -> fname ->
  func list -> strig list list

val ctr_local :
  (fname -> bool) -> (fname -> fname -> bool) -> fname -> func list -> bool

type pres = { r_decl : strig list; r_funcs : strig list list;
              r_dups : strig list list; r_affil : strig list list;
              r_gsafe : bool; r_clocal : bool }

val analyze_program :
  nat -> (fname -> bool) -> (fname -> nat) -> program -> pres option

val var_ok : program -> var -> bool

val atom_ok : program -> atom_e -> bool

val cond_ok : program -> cond -> bool

val stmt_ok : program -> stmt -> bool

val wf_program : program -> bool

val impls_plain : program -> (fname -> bool) -> bool

val ctr_arity : (fname -> bool) -> fname -> func list -> bool

type pset = var list

val pmem : var -> pset -> bool

val premove : var -> pset -> pset

val pinter : pset -> pset -> pset

val cond_prot : cond -> pset -> (pset * pset) * bool

val assigned : stmt -> var list

val opt_inter : pset option -> pset option -> pset option

val stmt_prot : stmt -> pset -> pset option * bool

val guarded : program -> bool

val anil : value -> bool

val value_eqb : value -> value -> bool

val st_eqb : nat list -> store0 -> store0 -> bool

val st_mem : nat list -> store0 -> store0 list -> bool

val st_add : nat list -> store0 -> store0 list -> store0 list

val st_union : nat list -> store0 list -> store0 list -> store0 list

val st_subset : nat list -> store0 list -> store0 list -> bool

val hvals : store0 -> atom_e -> value list

val hcond : store0 -> cond -> bool list

val assign_all : nat list -> store0 -> var -> value list -> store0 list

type hres = { h_norm : store0 list; h_bad : bool }

val hloop :
  nat list -> (store0 list -> hres option) -> cond -> nat -> store0 list ->
  (store0 list * bool) option

val hreach : nat list -> nat -> stmt -> store0 list -> hres option

val lvar : var -> nat list

val latom : atom_e -> nat list

val lcond : cond -> nat list

val lstmt : stmt -> nat list

val infer_sem : nat -> func -> bool
