"""Run the whole tool on a hand-written corpus module whose lines carry //REPORT or //SILENT markers."""
import os
import re

from . import wholetool as wt


def check_markers(moddir, flags=None, known=None):
    """-> (number of marked lines, list of failures).  Lines marked //KNOWN:<id> are dereferences a nil value reaches
    that the tool is known not to report (a listed finding): when `known` is a list, (id, place) of those still
    unreported is appended to it; one that is reported now is not a failure"""
    r, err = wt.analyze(moddir, flags=flags)
    if r is None:
        return 0, ["run failed: %s" % err]
    if r.get("errors"):
        return 0, ["driver errors: %r" % r["errors"]]
    bad, n = [], 0
    for root, _, files in os.walk(moddir):
        for f in files:
            if not f.endswith(".go"):
                continue
            rel = os.path.relpath(os.path.join(root, f), moddir)
            touched = set()
            for dg in r["diags"] or []:
                touched |= wt.lines_mentioned(dg, rel)
            for i, line in enumerate(open(os.path.join(root, f)).read().splitlines(), 1):
                mk = re.search(r"//KNOWN:([\w-]+)", line)
                if mk:
                    n += 1
                    if known is not None and i not in touched:
                        known.append((mk.group(1), "%s:%d" % (rel, i)))
                    continue
                m = re.search(r"//(REPORT|SILENT)\b", line)
                if not m:
                    continue
                n += 1
                if m.group(1) == "REPORT" and i not in touched:
                    bad.append("%s:%d `%s`: a nil value reaches this line by construction, yet no diagnostic touches it" % (rel, i, line.strip()))
                if m.group(1) == "SILENT" and i in touched:
                    bad.append("%s:%d `%s`: only non-nil values reach this line by construction, yet a diagnostic touches it" % (rel, i, line.strip()))
    return n, bad


def check_markers_textured(moddir, scratch, flags=None, kinds=None):
    """the same markers on meaning-preserving textures of the module (checks/texture.py): -> (runs, failures)"""
    from . import texture
    import shutil
    runs, bad = 0, []
    for kind in kinds or texture.TEXTURES:
        d = texture.make(moddir, kind, scratch)
        try:
            n, b = check_markers(d, flags=flags)
            runs += 1
            bad += ["texture `%s` (%s): %s" % (kind, texture.__doc__.split(kind, 1)[1].split("\n")[0].strip()[:90], x) for x in b]
        finally:
            shutil.rmtree(d, ignore_errors=True)
    return runs, bad
