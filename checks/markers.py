"""Run the whole tool on a hand-written corpus module whose lines carry //REPORT or //SILENT markers."""
import os
import re

from . import wholetool as wt


def check_markers(moddir, flags=None, known=None):
    """-> (number of marked lines, list of failures).  Lines marked //KNOWN:<id> are dereferences a nil value reaches
    that the tool is known not to report (a listed finding): when `known` is a list, (id, place) of those still
    unreported is appended to it; one that is reported now is not a failure"""
    r, err = wt.analyze(moddir, flags=flags)
    if r is None:
        return 0, ["run failed: %s" % err]
    if r.get("errors"):
        return 0, ["driver errors: %r" % r["errors"]]
    bad, n = [], 0
    for root, _, files in os.walk(moddir):
        for f in files:
            if not f.endswith(".go"):
                continue
            rel = os.path.relpath(os.path.join(root, f), moddir)
            src_lines = open(os.path.join(root, f), newline="").read().replace("\r\n", "\n").split("\n")
            # reported positions are //line-adjusted: map every physical line to the (file, line) it is reported as
            adj, cur = {}, None
            for i, line in enumerate(src_lines, 1):
                adj[i] = (rel, i) if cur is None else (cur[0], cur[1] + (i - cur[2]))
                md = re.match(r"^//line (\S+?):(\d+)(?::\d+)?\s*$", line)
                if md:
                    cur = (os.path.normpath(os.path.join(os.path.dirname(rel), md.group(1))), int(md.group(2)), i + 1)
            touched_by = {}
            for fn in {a[0] for a in adj.values()}:
                t = set()
                for dg in r["diags"] or []:
                    t |= wt.lines_mentioned(dg, fn)
                touched_by[fn] = t
            touched = {i for i, (fn, ln) in adj.items() if ln in touched_by[fn]}
            for i, line in enumerate(src_lines, 1):
                mfp = re.search(r"//KNOWNFP:([\w-]+)", line)
                if mfp:
                    # only non-nil values reach this line, yet the tool is known to report it (a listed finding)
                    n += 1
                    if known is not None and i in touched:
                        known.append((mfp.group(1), "%s:%d" % (rel, i)))
                    continue
                mk = re.search(r"//KNOWN:([\w-]+)", line)
                if mk:
                    n += 1
                    if known is not None and i not in touched:
                        known.append((mk.group(1), "%s:%d" % (rel, i)))
                    continue
                m = re.search(r"//(REPORT|SILENT)\b", line)
                if not m:
                    continue
                n += 1
                if m.group(1) == "REPORT" and i not in touched:
                    bad.append("%s:%d `%s`: a nil value reaches this line by construction, yet no diagnostic touches it" % (rel, i, line.strip()))
                if m.group(1) == "SILENT" and i in touched:
                    bad.append("%s:%d `%s`: only non-nil values reach this line by construction, yet a diagnostic touches it" % (rel, i, line.strip()))
    return n, bad


def check_markers_textured(moddir, scratch, flags=None, kinds=None):
    """the same markers on meaning-preserving textures of the module (checks/texture.py): -> (runs, failures)"""
    from . import texture
    import shutil
    runs, bad = 0, []
    for kind in kinds or texture.TEXTURES:
        d = texture.make(moddir, kind, scratch)
        try:
            n, b = check_markers(d, flags=flags)
            runs += 1
            bad += ["texture `%s` (%s): %s" % (kind, texture.__doc__.split(kind, 1)[1].split("\n")[0].strip()[:90], x) for x in b]
        finally:
            shutil.rmtree(d, ignore_errors=True)
    return runs, bad


def corpus_modules(ctx, sub, what, flagsets=(None,), textures=True, known=None):
    """marker check (plain and textured) of every module under corpus/<sub> (a directory with a go.mod; the corpus
    directory itself if it has one): one obligation, violations with the failing marker as the input"""
    import shutil
    from . import common
    base = os.path.join(common.VERIF, "corpus", sub)
    mods = [base] if os.path.exists(os.path.join(base, "go.mod")) else []
    mods += sorted(os.path.join(base, d) for d in os.listdir(base) if os.path.exists(os.path.join(base, d, "go.mod")))
    total, runs, bad = 0, 0, []
    scratch = ctx.scratch()
    try:
        for m in mods:
            own = None
            if os.path.exists(os.path.join(m, "FLAGS.json")):
                import json
                own = json.load(open(os.path.join(m, "FLAGS.json")))
            for flags in ([own] if own is not None else flagsets):
                n, b = check_markers(m, flags=flags, known=known)
                total += n
                runs += 1
                bad += ["%s%s: %s" % (os.path.relpath(m, common.VERIF), " flags %r" % flags if flags else "", x) for x in b]
                if textures:
                    kinds = None
                    if os.path.exists(os.path.join(m, "SKIP_TEXTURES.json")):
                        # {"<kind>": "<the listed finding that texture runs into on this module>"}
                        import json
                        from . import texture
                        skip = json.load(open(os.path.join(m, "SKIP_TEXTURES.json")))
                        kinds = [k for k in texture.TEXTURES if k not in skip]
                    r, b = check_markers_textured(m, scratch, flags=flags, kinds=kinds)
                    runs += r
                    bad += ["%s%s: %s" % (os.path.relpath(m, common.VERIF), " flags %r" % flags if flags else "", x) for x in b]
    finally:
        shutil.rmtree(scratch, ignore_errors=True)
    ctx.obligation("whole tool on corpus/%s (%s): %d marked lines in %d module(s), %d runs incl. the textures blank-first-line / %%-in-file-name / //line directive / CRLF / redundant parentheses: every //REPORT line is reported, no //SILENT line is" % (sub, what, total, len(mods), runs), total > 0 and not bad)
    for b in bad[:3]:
        ctx.violation("corpus-" + sub.replace("/", "-"), "%s fails on the real tool: %s\nreplay: bin/harness analyze -dir <module> (textures: checks/texture.py)\n" % (ctx.pid, b))
    return total, bad
