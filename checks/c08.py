"""C08 (partial): the (value, error) convention.  Theorems props/C08.v (soundness of the whole analysis for programs with
error-returning functions; unchecked use = flow; return triggers) + progfuzz on programs of the error fragment:
error operands nil / fresh error / error variable inside its own != nil check (forwarding), callers that check by early
return or by guarded use, use unchecked, overwrite the error before the check, ignore it, copy after the check;
real triggers == model (incl. `lacking guarding` producers, the per-function merge of guard status and the always-safe
deletion), compiled execution == model, and the statement on (real diagnostics, real panics)."""
import random

from . import common
from . import progfuzz as PF
from . import c01


def f26_like(c, o):
    """the signature of known finding F26 in a generated program: every difference is a use of a *checked* result
    (model: result site -> X) that the real analysis treats as unchecked (`lacking guarding` -> X), in a program with a
    loop"""
    mo, ro = o["model_trig"] - o["real_trig"], o["real_trig"] - o["model_trig"]
    if not mo or o["odd"] or "'while'" not in repr([fd["body"] for fd in c.prog["funcs"]]):
        return False
    if not all(isinstance(t[0], tuple) and t[0][0] == "result" and t[2] is None and ("nil", t[1], None) in o["real_trig"] for t in mo):
        return False
    xs = {t[1] for t in mo}
    return all(t[0] == "nil" and t[1] in xs and t[2] is None for t in ro)


def run(ctx):
    ok, msg = ctx.build_tools()
    if not ok:
        ctx.obligation("tools build against /repo (hooks enabled)", False)
        ctx.violation("build", msg, found_input=False)
        ctx.write_evidence()
        return
    ctx.regen("all")
    okp, log = ctx.prove("props/C08.v", "C08")
    # Go-source corpus: spellings of the error check outside the generator (type switches on the error with nil /
    # interface / concrete arms, value switches, errors.Is, reversed and negated comparisons)
    import os
    from . import markers
    nm, mbad = markers.check_markers(os.path.join(common.VERIF, "corpus", "c08"))
    ctx.obligation("whole tool on corpus/c08: %d marked dereferences of guarded results under check spellings outside the generator: reported iff the path has not established err == nil" % nm, nm > 0 and not mbad)
    for b in mbad[:3]:
        ctx.violation("spelling", "C08 fails on the real tool: %s\nreplay: bin/harness analyze -dir corpus/c08\n" % b)
    # regression programs of repaired findings (error wrapper with several results; checks after nested loops)
    markers.corpus_modules(ctx, "c08r", "guarded results: repaired findings")
    # M13: how far a check reaches -- real propagateRichChecks == extracted model on random control-flow graphs
    from . import richflow_suite as RF
    rf = RF.correspond(ctx.seed * 15485867 + 8, 3000 if ctx.tier == "quick" else 60000)
    ctx.obligation("rich-check propagation correspondence ran", not rf["errors"])
    ctx.obligation("correspondence (propagation of rich check effects): real propagateRichChecks == extracted model M13 on %d control-flow graphs (%d with back edges; %d effect occurrences kept; no panic, the model always stabilises)" % (
        rf["n"], rf["with_loop"], rf["kept"]), not rf["errors"] and not rf["mism"] and not rf["panics"] and not rf["nofuel"])
    ctx.coverage.update({"richflow_graphs": rf["n"]})
    for e in rf["errors"][:1]:
        ctx.violation("richflow-suite", e, found_input=False)
    for (c, a, b) in rf["mism"][:2]:
        ctx.violation("richflow", "propagateRichChecks and model M13 disagree on this control-flow graph: theorem C08_rich_checks_reach_exactly_where_not_lost (an effect is dropped exactly where some path from its creation invalidates it) no longer speaks about the code; no program with an unreported unguarded dereference or a reported guarded one was found among the generated ones\n%s\neffects at the end of each block, real:  %s\n                                 model: %s\n" % (RF.describe(c), a, b), found_input=False)
    # M11: the guard-nonce set operations of package guard == model/Nonce.v on random operation sequences
    from . import nonce_suite as NS
    nr = NS.correspond(ctx.seed * 104729 + 8, 2000 if ctx.tier == "quick" else 60000)
    ctx.obligation("nonce-set correspondence ran", not nr["errors"])
    ctx.obligation("correspondence (guard nonce sets): real guard.NonceSet Add / Remove / Union / Intersection / Copy / Contains / SubsetOf / Eq / IsEmpty == extracted model M11 on %d operation sequences (%d queries; Eq true %d, false %d)" % (
        nr["n"], nr["queries"], nr["eq_true"], nr["eq_false"]), not nr["errors"] and not nr["mism"])
    ctx.coverage.update({"nonce_sequences": nr["n"], "nonce_queries": nr["queries"]})
    for e in nr["errors"][:1]:
        ctx.violation("nonce-suite", e, found_input=False)
    for (c, a, b) in nr["mism"][:2]:
        ctx.violation("nonce", "the guard-nonce set operations (guard/guard.go) and model M11 disagree: theorems C08_nonce_* (Eq is set equality: a trigger that lost a guard at a join is a change the fixpoint iteration sees) no longer speak about the code; no program with an unreported unguarded dereference was found among the generated ones\n%s\nreal:  %s\nmodel: %s\n" % (NS.describe(c), a, b), found_input=False)
    # known finding F26: reproduce it from the corpus (and its control)
    from . import progcorpus as PC
    corpus = PC.c08_cases()
    rc = PF.run_suite(ctx, corpus, nb=4)
    ctx.obligation("corpus (known finding F26 and its control) ran", "error" not in rc)
    if "error" not in rc:
        o, oc = rc["obs"]["kf26loop"], rc["obs"]["kf26ctl"]
        if o["reports"] == {1} and not o["panics"] and not o["flagged"]:
            if any(k["id"] == "F26" for k in ctx.known_for()):
                ctx.known_finding("F26", "%s (corpus program kf26loop)" % [k["what"] for k in ctx.known_for() if k["id"] == "F26"][0][:200])
            else:
                ctx.violation("corpus-kf26loop", "C08 fails: a checked use of a result of a convention-respecting callee is reported\n" + PF.describe(corpus[0], o))
        ctx.obligation("control of the corpus (the same check and use without the loop) is clean and its triggers are the model's", not oc["reports"] and oc["real_trig"] == oc["model_trig"])
    f26_active = any(k["id"] == "F26" for k in ctx.known_for()) and "error" not in rc and rc["obs"]["kf26loop"]["reports"] == {1}
    nf26 = 0
    rng = random.Random(ctx.seed * 86028121 + 8)
    n = 400 if ctx.tier == "quick" else 6000
    batch = 400 if ctx.tier == "quick" else 1000
    allc, allo = [], {}
    kinds = {}
    for b in range(0, n, batch):
        cases = PF.gen_cases(rng, min(batch, n - b), streams=("err", "err-guarded", "err-lone", "err-guarded", "err-safe"), prefix="e%d" % (b // batch))
        r = PF.run_suite(ctx, cases, styles_seed=ctx.seed + 8 + b)
        if "error" in r:
            ctx.obligation("progfuzz suite ran", False)
            ctx.violation("suite", r["error"], found_input=False)
            ctx.write_evidence()
            return
        for c in cases:
            o = r["obs"][c.name]
            like26 = f26_active and f26_like(c, o)
            nf26 += bool(like26)
            for (kind, m, found) in c01.classify(c, o, {"F2", "F4"}):
                if like26 and kind in ("corr-trig", "corr-diag"):
                    continue      # the real analysis is more conservative here: known finding F26
                kinds.setdefault(kind, []).append((m, c, o))
        allc += cases
        allo.update(r["obs"])
    ctx.obligation("progfuzz suite ran", True)
    nguard = sum(1 for c in allc for t in allo[c.name]["real_trig"] if t[0] == "nil" and t[1][0] == "deref")
    ctx.obligation("correspondence M7: trigger sets of the real analysis (guarded / unguarded results, return classification, always-safe deletion) == model on %d programs" % len(allc), "corr-trig" not in kinds)
    ctx.obligation("correspondence M6: panic site of the compiled program == model exec on %d executions" % sum(len(allo[c.name]["truth"]) for c in allc), "corr-exec" not in kinds)
    ctx.obligation("correspondence M1: real diagnostics sit at dereferences the model's constraints flag", "corr-diag" not in kinds)
    ctx.obligation("oracle on the real tool: every program with a panicking execution has a diagnostic", "unsound" not in kinds)
    ctx.obligation("oracle on the real tool: with one unprotected dereference no other place is reported", "lone" not in kinds)
    st = PF.stats(allc, allo)
    st["always_nil_dereference_triggers"] = nguard
    st["programs_with_the_signature_of_F26"] = nf26
    st["programs_with_direct_forwarding"] = sum(1 for c in allc if "'retcall'" in repr(c.prog["funcs"]))
    st["programs_with_ok_form"] = sum(1 for c in allc if any(fd.get("okform") for fd in c.prog["funcs"]))
    st["programs_with_named_results"] = sum(1 for c in allc if any(fd.get("named") for fd in c.prog["funcs"]))
    st["programs_with_sentinel"] = sum(1 for c in allc if c.prog.get("sentinel"))
    st["programs_with_always_safe_deletion"] = sum(1 for c in allc if not allo[c.name]["model"]["nodel"])
    ctx.coverage.update({"evaluations": st["executions"] + st["real_triggers"], "distinct_nontrivial": st["clean_in_real_tool"],
                         "rule": "generated programs with error- and ok-returning functions (spellings: (value, error) and (value, ok bool) incl. tests written as comparisons with true/false; named results with bare returns; a fresh error spelled as errors.New or as a never-reassigned package-level sentinel of this or another package; returns: value with nil error, nil or value with an error, (nil, nil), forwarding of a callee's error inside its own check, direct `return g(args)` forwarding) and callers in every check shape (early return on err != nil, use under err == nil, compound conditions, unchecked use, use on the failure path, error overwritten by an assignment or another call before the check, error ignored, copy after the check), 1-3 packages; guarded / lone variants so that clean programs occur; non-trivial = the real tool reports nothing",
                         "distribution": st})
    for c in allc[:2]:
        ctx.sample(PF.describe(c, allo[c.name])[:1500])
    for kind in ("unsound", "lone"):
        for (m, c, o) in kinds.get(kind, [])[:3]:
            ctx.violation(kind, "C08 fails on the real tool: %s\n%s" % (m, PF.describe(c, o)))
    if not ctx.violations and "corr-trig" in kinds:
        # make each dereference the model flags and the real tool does not report the only unprotected one
        vs = []
        srng = random.Random(ctx.seed + 808)
        for i, (m, c, o) in enumerate(kinds["corr-trig"][:20]):
            # dereferences whose always-nil ("lacking guarding") trigger the real analysis no longer produces
            cand = sorted(t[1][1] for t in (o["model_trig"] - o["real_trig"]) if t[0] == "nil" and t[1][0] == "deref")
            for j, d in enumerate((cand or sorted(o["flagged"] - o["reports"]))[:4]):
                vs.append(PF.Case("s%02d%d" % (i, j), PF.guard_all(srng, c.prog, keep={d}), "search", lone=d))
                # ... and with callees that respect the convention, so that only the caller's check is in question
                vs.append(PF.Case("t%02d%d" % (i, j), PF.guard_all(srng, PF.respect_convention(c.prog), keep={d}), "search", lone=d))
        if vs:
            rs = PF.run_suite(ctx, vs, styles_seed=ctx.seed + 99, nb=6)
            if "error" not in rs:
                for c in vs:
                    o = rs["obs"][c.name]
                    for (kind, m, found) in c01.classify(c, o, {"F2", "F4"}):
                        if kind == "unsound" and ctx.violations < 3:
                            ctx.violation("unsound", "C08 fails on the real tool: %s\n%s" % (m, PF.describe(c, o)))
    if not ctx.violations:
        for kind in ("corr-trig", "corr-exec", "corr-diag"):
            for (m, c, o) in kinds.get(kind, [])[:2]:
                ctx.violation(kind, "the model and the implementation disagree (%s); theorems C08_* no longer speak about the code; no program with a panic and no diagnostic was found\n%s" % (m, PF.describe(c, o)), found_input=False)
    if not okp and not ctx.violations:
        ctx.violation("proof", "a proof obligation of props/C08.v no longer checks:\n" + common.coq_error_excerpt(log), found_input=False)
    ctx.write_evidence(assumptions=[
        "partial: the (value, ok) form, named results and the package-level sentinel are spellings of the model's error forms (the printer chooses; the real analysis must produce the same triggers), not separate constructs of the model; a bare return in an ok-returning function (non-constant ok operand) and error operands whose nil-ness only the engine's second phase decides are outside; the always-safe deletion is modelled and compared but the soundness theorem excludes programs in which it removes a trigger (r_nodel)",
        "the soundness theorem is proved for single-package layouts"])


def replay(ctx, path):
    print(open(path).read())
