"""C11: a nolint comment suppresses exactly the diagnostics on its own lines."""
from . import common
from . import diaggen as dg
from . import diag_suite as ds
from . import nolint_suite


def run(ctx):
    ok, msg = ctx.build_tools()
    if not ok:
        ctx.obligation("tools build against /repo (hooks enabled)", False)
        ctx.violation("build", msg, found_input=False)
        ctx.write_evidence()
        return
    ctx.regen("all")
    okp, log = ctx.prove("props/C11.v", "C11")
    n = 3000 if ctx.tier == "quick" else 80000
    res = ds.correspond(ctx, n)
    ctx.obligation("correspondence suite ran", not res["errors"])
    if res["errors"]:
        ctx.violation("suite", "\n".join(res["errors"]), found_input=False)
        ctx.write_evidence()
        return
    ctx.obligation("correspondence: real diagnostic engine == model M2 (heads, order, counts, listed places) on %d synthetic conflict sets" % len(res["cases"]), not res["mism"])
    bad = []
    nontriv = set()
    for i, c in enumerate(res["cases"]):
        o = dg.oracle_locations(c, dg.parse_out(res["impl"][i]))
        if o:
            bad.append((i, o))
        if c.ranges and any(dg.suppressed(c, x) for x in c.conflicts) and any(not dg.suppressed(c, x) for x in c.conflicts):
            nontriv.add(c.line())
    ctx.obligation("ground-truth oracle on the real engine: shown locations == unsuppressed conflicts, each once, for both grouping values", not bad)
    nm = 16 if ctx.tier == "quick" else 100
    total, wbad, samples = nolint_suite.run_suite(ctx, nm)
    ctx.obligation("whole tool: %d expectations over %d generated modules (nolint spellings and placements, grouping on/off, cross-package report into a nolinted upstream line)" % (total, nm), total > 0 and not wbad)
    # known finding F33: under `go vet -vettool` (one process per package, started in the package's directory) file names
    # are relative to a different directory in every unit, so a nolint range of a/x.go also covers b/x.go
    import os
    import shutil
    kfd = os.path.join(common.VERIF, "corpus", "c11kf")
    env = dict(common.GOENV)
    env.pop("GOFLAGS", None)

    def vet_reports(d):
        rc, out, err = common.sh2(["go", "vet", "-vettool=" + os.path.join(common.BIN, "nilaway"), "-pretty-print=false", "./..."], cwd=d, env=env, timeout=600)
        return "x.go:12" in out + err, (out + err)[-400:]
    tmpd = ctx.scratch()
    try:
        shutil.copytree(kfd, os.path.join(tmpd, "ctl"))
        ax = os.path.join(tmpd, "ctl", "a", "x.go")
        txt = open(ax).read().replace("//nolint:nilaway", "// (no suppression here)")
        open(ax, "w").write(txt)
        hidden, text = vet_reports(kfd)
        shown_ctl, text2 = vet_reports(os.path.join(tmpd, "ctl"))
    finally:
        shutil.rmtree(tmpd, ignore_errors=True)
    f33 = [k for k in ctx.known_for() if k["id"] == "F33"]
    if shown_ctl and not hidden:
        if f33:
            ctx.known_finding("F33", f33[0]["what"][:200] + " -- still hidden under go vet (corpus/c11kf)")
        else:
            ctx.violation("govet-nolint", "C11 fails under go vet -vettool: the nolint comment of a/x.go hides the diagnostic of b/x.go:12 (corpus/c11kf); without the comment it is reported\n%s" % text)
    ctx.obligation("go vet -vettool on corpus/c11kf: the control without the nolint comment reports b/x.go:12", shown_ctl)
    # M12: what counts as a nolint directive -- real nolintContainsNilAway == extracted model on comment texts
    from . import nolint_text_suite as NT
    nt = NT.correspond(ctx.seed * 7919 + 11, 4000 if ctx.tier == "quick" else 80000)
    ctx.obligation("directive-text correspondence ran", not nt["errors"])
    ctx.obligation("correspondence (directive text): real nolintContainsNilAway == extracted model M12 on %d comment texts (%d structured directives, each also against the verdict theorem C11_directive_text_decides gives; mutated and malformed texts; %d suppress)" % (
        nt["n"], nt["structured"], nt["suppress"]), not nt["errors"] and not nt["mism"] and not nt["wrong"])
    for e in nt["errors"][:1]:
        ctx.violation("nolint-text-suite", e, found_input=False)
    for (t, a, e) in nt["wrong"][:2]:
        ctx.violation("directive", "C11 fails on the real nolintContainsNilAway: the comment %r %s NilAway diagnostics, but a directive with this linter list must %s\nreplay: bin/harness nolinttext (bytes of the text after a marker number)\n" % (
            t, "suppresses" if a == "1" else "does not suppress", "suppress" if e else "not suppress"))
    if not nt["wrong"]:
        for (t, a, b) in nt["mism"][:2]:
            ctx.violation("directive-correspondence", "model M12 (coq/model/Nolint.v) and the real nolintContainsNilAway disagree on the comment %r: real %s, model %s; theorems C11_directive_* no longer speak about the code; no structured directive with a wrong verdict was found\n" % (t, a, b), found_input=False)
    ctx.coverage.update({"directive_texts": nt["n"]})
    # Go-source corpus: regression programs of repaired findings (//line directives, directive spellings)
    from . import markers
    markers.corpus_modules(ctx, "c11", "nolint under //line directives; directive spellings", flagsets=(None, {"group-error-messages": "false"}))
    ctx.coverage.update({"evaluations": len(res["cases"]) * 2 + total, "distinct_nontrivial": len(nontriv),
                         "rule": "synthetic conflict sets (1-9 conflicts, shared/unshared nil sources, 0-3 nolint ranges, grouping on/off, test-file filter); "
                                 "non-trivial = some conflict suppressed and some not; distinct by case line; plus generated Go modules through the whole tool"})
    for c in res["cases"][:1]:
        ctx.sample(c.pretty())
    for s in samples[:1]:
        ctx.sample(s)
    for (i, o) in bad[:3]:
        small = dg.shrink(res["cases"][i], lambda c: ds.impl_fails(c, dg.oracle_locations) is not None)
        ctx.violation("nolint", "C11 fails on the real diagnostic engine: %s\nminimised case:\n%s\nreal output: %s\n" % (
            ds.impl_fails(small, dg.oracle_locations), small.pretty(), dg.run_impl([small.line()])[1]))
    for (kind, why, src) in wbad[:3]:
        ctx.violation("wholetool", "C11 fails on the real tool: %s\n\npackage a (package b calls a.Use(nil)):\n%s\n" % (why, src))
    if not ctx.violations:
        for i in res["mism"][:3]:
            ctx.violation("correspondence", "model M2 and the real diagnostic engine disagree; theorems C11_* no longer speak about the code; the location oracle still holds.\n" + ds.describe(res, i), found_input=False)
    if not okp and not ctx.violations:
        ctx.violation("proof", "a proof obligation of props/C11.v no longer checks:\n" + common.coq_error_excerpt(log), found_input=False)
    ctx.write_evidence()


def replay(ctx, path):
    txt = open(path).read()
    print(txt)
    for l in txt.splitlines():
        if l.startswith("case-line: "):
            print("real engine:", dg.run_impl([l[len("case-line: "):]])[1])
            print("model      :", dg.run_model([l[len("case-line: "):]])[1])
