"""C16: parallel per-function analysis equals sequential analysis (partial: races are searched with -race)."""
import json
import os
import random
import shutil

from . import common
from . import det_suite as ds


def sched(moddir, pkg, orders, seed):
    rc, out, err = common.harness(["sched", "-dir", moddir, "-pkg", pkg, "-orders", str(orders), "-seed", str(seed)], timeout=900)
    if rc != 0:
        return None, "sched failed (rc=%s; a timeout means a forced order deadlocked): %s" % (rc, err[-500:])
    try:
        return json.loads(out.strip().splitlines()[-1]), None
    except Exception:
        return None, "unparsable: " + out[-300:]


def run(ctx):
    ok, msg = ctx.build_tools()
    if not ok:
        ctx.obligation("tools build against /repo (hooks enabled)", False)
        ctx.violation("build", msg, found_input=False)
        ctx.write_evidence()
        return
    okg, outg = ctx.regen("all")
    ctx.obligation("translator ran (inventory of goroutines and package-level variables)", okg)
    okp, log = ctx.prove("props/C16.v", "C16")
    rng = random.Random(ctx.seed * 5 + 2)
    targets = [(os.path.join(common.VERIF, "corpus", "c10"), "a"), (os.path.join(common.VERIF, "corpus", "det", "m9"), "a"), (os.path.join(common.VERIF, "corpus", "det", "m9b"), "a")]
    tmp = []
    for _ in range(1 if ctx.tier == "quick" else 5):
        d = ctx.scratch()
        ds.gen_busy_package(rng, d, nfun=30 if ctx.tier == "quick" else 80)
        tmp.append(d)
        targets.append((d, "busy"))
    bad, nruns, nfun = [], 0, 0
    try:
        for d, pkg in targets:
            if not os.path.isdir(os.path.join(d, pkg)):
                continue
            r, err = sched(d, pkg, 3 if ctx.tier == "quick" else 12, ctx.seed)
            if r is None:
                bad.append("%s/%s: %s" % (d, pkg, err))
                continue
            nruns += len(r["runs"])
            nfun += r["functions"]
            if not r["equal"]:
                a, b = r["runs"][0], next(x for x in r["runs"][1:] if x["key"] != r["runs"][0]["key"])
                ka, kb = json.loads(a["key"]), json.loads(b["key"])
                what = "diagnostics" if ka.get("diags") != kb.get("diags") else "fact bytes"
                bad.append("%s/%s (%d functions): %s differ between the unforced run and the run with results handed over in the order %r" % (d, pkg, r["functions"], what, b["order"][:12]))
            if r.get("errors"):
                bad.append("%s/%s: driver errors %r" % (d, pkg, r["errors"][:2]))
    finally:
        for d in tmp:
            shutil.rmtree(d, ignore_errors=True)
    ctx.obligation("forced hand-over orders (identity, reverse, random, unforced) through the verif hook in analyzeFunc: identical diagnostics and fact bytes (%d runs, %d functions)" % (nruns, nfun), nruns > 0 and not bad)
    # contract inference runs one goroutine per function as well: a package of branch-heavy contract candidates against
    # the same functions one per package ("analysed one at a time")
    hd = ctx.scratch()
    nheavy = 10
    ds.gen_heavy_contract_module(hd, nfun=nheavy)
    hbad = ds.together_equals_alone(hd, nheavy, runs=2 if ctx.tier == "quick" else 6)
    shutil.rmtree(hd, ignore_errors=True)
    ctx.obligation("contract inference of %d branch-heavy functions analysed together (concurrently) == each analysed alone in a package of its own: same contracts, same diagnostics" % nheavy, not hbad)
    for b in hbad[:2]:
        ctx.violation("together", "C16 fails on the real tool: %s\nreplay: checks/det_suite.py gen_heavy_contract_module + bin/harness analyze -dir <module> -triggers\n" % b)
    race_note = "race detector not run"
    if True:
        rc, out = common.sh("CGO_ENABLED=1 go build -race -tags verif -o %s/harness_race ./cmd/harness" % common.BIN, cwd=common.GO, timeout=1800)
        if rc == 0:
            races = []
            rdirs = [os.path.join(common.VERIF, "corpus", "c10"), os.path.join(common.VERIF, "corpus", "c15")]
            busy = ctx.scratch()
            ds.gen_busy_package(random.Random(ctx.seed + 16), busy, nfun=60 if ctx.tier == "quick" else 300)
            rdirs.append(busy)
            if ctx.tier == "thorough":
                rdirs.append(common.REPO + "/inference")
            templ = os.path.join(common.VERIF, "corpus", "c17")
            runs = [(d, []) for d in rdirs] + [(templ, ["-flag", "experimental-anonymous-function=true"])] * (6 if ctx.tier == "quick" else 30)
            # struct-init summaries shared by the analyses of all callers of a callee (nested field writes, many callers)
            sinit = os.path.join(common.VERIF, "corpus", "c16")
            for fl in ("experimental-struct-init-v2=true", "experimental-struct-init=true"):
                runs += [(sinit, ["-flag", fl])] * (3 if ctx.tier == "quick" else 15)
                runs += [(d, ["-flag", fl]) for d in rdirs[:2]]
            rdirs = rdirs + [templ, sinit]
            for d, extra in runs:
                rc2, o2, e2 = common.sh2([os.path.join(common.BIN, "harness_race"), "analyze", "-dir", d] + extra + ["./..."], timeout=1800)
                if rc2 != 0 and "DATA RACE" not in e2 + o2:
                    races.append("%s: the -race harness failed: %s" % (d, (e2 + o2)[-600:]))
                if "DATA RACE" in e2 or "DATA RACE" in o2:
                    races.append("%s: %s" % (d, (e2 + o2)[:1500]))
            ctx.obligation("race detector: the harness built with -race analysing the corpora (and, with -experimental-anonymous-function, the templ corpus, with the struct-init flags a callee writing nested fields with 24 callers, repeatedly) reports no data race", not races)
            for r in races[:2]:
                ctx.violation("race", "C16 fails on the real tool: data race reported:\n%s" % r)
            shutil.rmtree(busy, ignore_errors=True)
            race_note = "race detector run done on %d modules" % len(rdirs)
        else:
            race_note = "the -race build is not available in this sandbox (%s)" % out[-200:]
    ctx.coverage.update({"evaluations": nruns, "distinct_nontrivial": len(targets),
                         "rule": "single packages with 29-80 functions (contracted callees, annotations, interfaces); every run forces one completion order of the per-function goroutines; a package is one distinct non-trivial case",
                         "race": race_note})
    ctx.assumptions.append("partial: a data race is a property of the Go memory model; the Coq theorem covers the collector logic, the inventories the absence of shared writable state, the race detector is a search")
    ctx.sample("corpus/c10 package a: 29 functions, hand-over orders identity / reverse / random")
    for b in bad[:3]:
        ctx.violation("sched", "C16 fails on the real tool: %s\nreplay: bin/harness sched -dir <module> -pkg <pkg> -orders 4 -seed %d\n" % (b, ctx.seed))
    if not okp and not ctx.violations:
        ctx.violation("proof", "a proof obligation of props/C16.v no longer checks (e.g. a new goroutine or package-level variable in the regenerated inventory):\n" + common.coq_error_excerpt(log), found_input=False)
    ctx.write_evidence()


def replay(ctx, path):
    print(open(path).read())
