"""C09: nil flows through interface dispatch in both directions.  Theorems props/C09.v (pairs witnessed by conversions
have their covariant / contravariant triggers; whole-analysis soundness for programs with conversions and dynamic
dispatch) + progfuzz on programs with interfaces: implementations with value and pointer receivers in any package,
interface-typed locals, parameters and results, conversions at assignments, at arguments of functions and of
interface methods, and at returns; real triggers == model, compiled execution == model, and the statement on
(real diagnostics, real panics)."""
import random

from . import common
from . import progfuzz as PF
from . import c01


def run(ctx):
    ok, msg = ctx.build_tools()
    if not ok:
        ctx.obligation("tools build against /repo (hooks enabled)", False)
        ctx.violation("build", msg, found_input=False)
        ctx.write_evidence()
        return
    ctx.regen("all")
    okp, log = ctx.prove("props/C09.v", "C09")
    # Go-source corpus: package layouts outside the generator (same-named packages with same-named implementations,
    # conversions witnessed up- and downstream) and the listed conversion-site gaps (finding F41)
    import os
    from . import markers
    kf_hits = []
    markers.corpus_modules(ctx, "c09r", "conversion sites of repaired findings")
    nm, mbad = markers.check_markers(os.path.join(common.VERIF, "corpus", "c09"), known=kf_hits)
    listed = set(x for k in ctx.known_for() for x in k.get("inputs", []))
    for kid, place in kf_hits:
        if kid in listed:
            ctx.known_finding(kid.split("-")[0], "%s: conversion site not visited by the affiliation analyzer, the nil-returning implementation's result is dereferenced unreported (corpus/c09/%s)" % (kid, place))
        else:
            mbad.append("corpus/c09/%s: a nil-returning implementation's result is dereferenced through the interface and not reported (not a listed finding)" % place)
    ctx.obligation("whole tool on corpus/c09: %d marked dereferences (same-named packages and types implementing one interface, conversions up- and downstream; the eight listed gaps of F41)" % nm, nm > 0 and not mbad)
    for b in mbad[:3]:
        ctx.violation("layout", "C09 fails on the real tool: %s\nreplay: bin/harness analyze -dir corpus/c09\n" % b)
    rng = random.Random(ctx.seed * 49979687 + 9)
    n = 400 if ctx.tier == "quick" else 6000
    batch = 400 if ctx.tier == "quick" else 1000
    allc, allo = [], {}
    kinds = {}
    for b in range(0, n, batch):
        cases = PF.gen_cases(rng, min(batch, n - b), streams=("iface", "iface-guarded", "iface-lone", "iface-lone"), prefix="i%d" % (b // batch))
        # every pair of some of these programs, witnessed at exactly one kind of conversion site (assignment, function
        # argument, interface-method argument, return), with nil flowing in both directions
        seenw, perkind = set(), {}
        for i, c in enumerate(cases[:40]):
            for j, (pos, q) in enumerate(PF.conv_witnesses(c.prog)):
                key = PF.M.prog_line(q)
                if key not in seenw and perkind.get(pos, 0) < 12:
                    seenw.add(key)
                    perkind[pos] = perkind.get(pos, 0) + 1
                    cases.append(PF.Case("v%d%02d%02d" % (b // batch, i, j), q, "witness-" + pos))
        r = PF.run_suite(ctx, cases, styles_seed=ctx.seed + 9 + b)
        if "error" in r:
            ctx.obligation("progfuzz suite ran", False)
            ctx.violation("suite", r["error"], found_input=False)
            ctx.write_evidence()
            return
        for c in cases:
            o = r["obs"][c.name]
            # package-level variables re-assigned by callees (F2) and contracted callees of other packages (F4) are
            # C01's / C20's known root causes, not interface matters
            for (kind, m, found) in c01.classify(c, o, {"F2", "F4"}):
                kinds.setdefault(kind, []).append((m, c, o))
        allc += cases
        allo.update(r["obs"])
    ctx.obligation("progfuzz suite ran", True)
    nconv = sum(sum(1 for t in allo[c.name]["real_trig"] if t[0] != "nil" and t[0][0] in ("iparam",) or (t[1][0] == "iresult")) for c in allc)
    ctx.obligation("correspondence M7: trigger sets of the real analysis (incl. the affiliation triggers of every witnessed pair) == model on %d programs (%d interface-method triggers)" % (len(allc), nconv), "corr-trig" not in kinds)
    ctx.obligation("correspondence M6: panic site of the compiled program (dynamic dispatch, nil interface values) == model exec on %d executions" % sum(len(allo[c.name]["truth"]) for c in allc), "corr-exec" not in kinds)
    ctx.obligation("correspondence M1: real diagnostics sit at dereferences the model's constraints flag", "corr-diag" not in kinds)
    ctx.obligation("oracle on the real tool: every program with a panicking execution has a diagnostic", "unsound" not in kinds)
    ctx.obligation("oracle on the real tool: a lone unprotected dereference (or method call on an interface value) is the only place reported", "lone" not in kinds)
    st = PF.stats(allc, allo)
    st["interface_method_triggers"] = nconv
    st["implementations"] = sum(len(c.prog.get("impls") or []) for c in allc)
    st["value_receiver_implementations"] = sum(sum(1 for im in (c.prog.get("impls") or []) if im.get("valrecv")) for c in allc)
    ctx.coverage.update({"evaluations": st["executions"] + st["real_triggers"], "distinct_nontrivial": st["clean_in_real_tool"],
                         "rule": "generated programs with 1-2 interfaces (methods with 0 or 2 parameters, some of interface type), 1-2 implementations each (pointer / value receivers, any package), interface-typed locals, parameters and results, conversions at assignments, function arguments, interface-method arguments and returns, nil interface values; guarded / lone variants so that clean programs occur; non-trivial = the real tool reports nothing (the soundness oracle is then informative)",
                         "distribution": st})
    for c in allc[:2]:
        ctx.sample(PF.describe(c, allo[c.name])[:1500])
    for kind in ("unsound", "lone"):
        for (m, c, o) in kinds.get(kind, [])[:3]:
            ctx.violation(kind, "C09 fails on the real tool: %s\n%s" % (m, PF.describe(c, o)))
    if not ctx.violations and "corr-trig" in kinds:
        # a divergence of the trigger sets: make each dereference the model flags and the real tool does not report the
        # only unprotected one and look for a silent panic
        srng = random.Random(ctx.seed + 909)
        # first make nil actually flow (no guards, nil returns and arguments), then isolate each dereference the model
        # flags and the real tool does not report
        amps = [PF.Case("a%02d" % i, PF.amplify(PF.strip_guards(c.prog)), "search") for i, (m, c, o) in enumerate(kinds["corr-trig"][:24])]
        ra = PF.run_suite(ctx, amps, styles_seed=ctx.seed + 98)
        vs = []
        if "error" not in ra:
            for i, c in enumerate(amps):
                o = ra["obs"][c.name]
                for j, d in enumerate(sorted(o["flagged"] - o["reports"])[:6]):
                    vs.append(PF.Case("s%02d%d" % (i, j), PF.guard_all(srng, c.prog, keep={d}), "search", lone=d))
        # and the canonical witnesses: each pair of a mismatching program converted at exactly one kind of site
        seen = set()
        for i, (m, c, o) in enumerate(kinds["corr-trig"][:6]):
            for j, (pos, q) in enumerate(PF.conv_witnesses(c.prog)):
                key = PF.M.prog_line(q)
                if key not in seen and len(vs) < 120:
                    seen.add(key)
                    vs.append(PF.Case("w%02d%02d" % (i, j), q, "search"))
        if vs:
            rs = PF.run_suite(ctx, vs, styles_seed=ctx.seed + 99, nb=6)
            if "error" not in rs:
                for c in vs:
                    o = rs["obs"][c.name]
                    for (kind, m, found) in c01.classify(c, o, {"F2", "F4"}):
                        if kind == "unsound":
                            ctx.violation("unsound", "C09 fails on the real tool: %s\n%s" % (m, PF.describe(c, o)))
                            break
                    if ctx.violations >= 3:
                        break
    if not ctx.violations:
        for kind in ("corr-trig", "corr-exec", "corr-diag"):
            for (m, c, o) in kinds.get(kind, [])[:2]:
                ctx.violation(kind, "the model and the implementation disagree (%s); theorems C09_* no longer speak about the code; no program with a panic and no diagnostic was found\n%s" % (m, PF.describe(c, o)), found_input=False)
    if not okp and not ctx.violations:
        ctx.violation("proof", "a proof obligation of props/C09.v no longer checks:\n" + common.coq_error_excerpt(log), found_input=False)
    ctx.write_evidence(assumptions=[
        "modelled: single-method-set interfaces without embedding, conversions of freshly allocated implementations (&S{} / S{}); a typed nil pointer stored in an interface, interface-to-interface conversions with different method sets, embedded structs, composite-literal and append conversion sites are outside the model",
        "the soundness theorem is proved for single-package layouts; the package split (which package first witnesses a pair, the affiliation cache fact) is covered by the correspondence (generated programs put interface, implementations and conversions in different packages)"])


def replay(ctx, path):
    print(open(path).read())
