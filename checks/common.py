"""Shared machinery of the ./check driver: building the tools from /repo's current tree, regenerating
coq/gen, building the Coq development (full .vo), collecting Print Assumptions, writing evidence,
known findings, VIOLATION lines."""
import fcntl
import json
import os
import re
import subprocess
import sys
import time

VERIF = os.path.dirname(os.path.dirname(os.path.abspath(__file__)))
REPO = os.environ.get("VERIF_REPO", "/repo")
COQ = os.path.join(VERIF, "coq")
BIN = os.path.join(VERIF, "bin")
GO = os.path.join(VERIF, "go")
SCRATCH_BASE = os.environ.get("VERIF_SCRATCH", "/var/tmp")

GOENV = dict(os.environ)
GOENV.update({"GOFLAGS": "-mod=mod", "GOPROXY": "off", "GOWORK": "off", "CGO_ENABLED": "0"})
# GOTOOLCHAIN=local / GOSUMDB=off break the build here (go.mod needs the cached go1.25.0 toolchain)
for k in ("GOTOOLCHAIN", "GOSUMDB"):
    GOENV.pop(k, None)

TRUSTED_BASE = [
    "Coq 8.16.1 kernel (coqc, full .vo build; vm_compute used, native_compute not used)",
    "Coq standard library and std++ 1.8.0 (no axioms pulled in: Print Assumptions output recorded per theorem)",
    "translator /verif/go/cmd/gen (go/parser, go/ast) that regenerates coq/gen/*.v from /repo's working tree",
    "correspondence harness /verif/go/cmd/harness and the //go:build verif hook files in /repo",
    "Go 1.25 toolchain and runtime, golang.org/x/tools analysis drivers, encoding/gob, klauspost s2",
]


def sh(cmd, timeout=600, cwd=None, env=None, inp=None):
    """Run a command, return (rc, stdout+stderr)."""
    try:
        p = subprocess.run(cmd, shell=isinstance(cmd, str), cwd=cwd, env=env or GOENV, input=inp,
                           stdout=subprocess.PIPE, stderr=subprocess.STDOUT, timeout=timeout, text=True)
        return p.returncode, p.stdout
    except subprocess.TimeoutExpired as e:
        out = e.stdout if isinstance(e.stdout, str) else (e.stdout or b"").decode("utf8", "replace")
        return 124, out + "\nTIMEOUT after %ss" % timeout


def sh2(cmd, timeout=600, cwd=None, env=None, inp=None):
    """Run a command, return (rc, stdout, stderr) separately."""
    try:
        p = subprocess.run(cmd, shell=isinstance(cmd, str), cwd=cwd, env=env or GOENV, input=inp,
                           stdout=subprocess.PIPE, stderr=subprocess.PIPE, timeout=timeout, text=True)
        return p.returncode, p.stdout, p.stderr
    except subprocess.TimeoutExpired:
        return 124, "", "TIMEOUT after %ss" % timeout


class Lock:
    """The Coq build tree and bin/ are shared by all checks: serialise the build steps."""

    def __enter__(self):
        self.f = open(os.path.join(VERIF, ".lock"), "w")
        fcntl.flock(self.f, fcntl.LOCK_EX)
        return self

    def __exit__(self, *a):
        fcntl.flock(self.f, fcntl.LOCK_UN)
        self.f.close()


class Ctx:
    def __init__(self, pid, tier, seed):
        self.pid, self.tier, self.seed = pid, tier, seed
        self.t0 = time.time()
        self.violations = 0
        self.known = 0
        self.obligations = []  # (name, discharged: bool)
        self.coverage = {}
        self.assumptions = []
        self.samples = []
        self.notes = []
        self.axioms = {}
        os.makedirs(os.path.join(VERIF, "replays"), exist_ok=True)
        for f in os.listdir(os.path.join(VERIF, "replays")):
            if f.startswith(pid + "-"):
                os.remove(os.path.join(VERIF, "replays", f))
        os.makedirs(os.path.join(VERIF, "evidence"), exist_ok=True)
        kf = os.path.join(VERIF, "known_findings.json")
        self.known_findings = json.load(open(kf)) if os.path.exists(kf) else {"findings": [], "fixed": []}

    # ---------------------------------------------------------------- building
    def build_tools(self):
        """Build translator and harness from /repo's *current* working tree (hooks on: -tags verif)."""
        with Lock():
            os.makedirs(BIN, exist_ok=True)
            rc, out = sh("cp %s/go.sum %s/go.sum" % (REPO, GO))
            rc, out = sh("go build -o %s/gen ./cmd/gen" % BIN, cwd=GO, timeout=900)
            if rc != 0:
                return False, "building translator failed:\n" + out
            rc, out = sh("go build -tags verif -o %s/harness ./cmd/harness" % BIN, cwd=GO, timeout=1200)
            if rc != 0:
                return False, "building harness (with -tags verif) against /repo failed:\n" + out
            rc, out = sh("go build -o %s/nilaway ./cmd/nilaway" % BIN, cwd=REPO, timeout=1200)
            if rc != 0:
                return False, "building cmd/nilaway failed:\n" + out
            if not os.path.exists(os.path.join(BIN, "modelrun")) or self._stale_modelrun():
                ok, out = self.coq_make_nolock(["model/Engine.vo", "model/EngineSpec.vo"])
                if not ok:
                    return False, "building the Coq model failed:\n" + out
                rc, out = sh(os.path.join(VERIF, "ocaml", "build.sh"), timeout=900)
                if rc != 0:
                    return False, "extraction / OCaml build failed:\n" + out
        return True, ""

    def _stale_modelrun(self):
        mr = os.path.getmtime(os.path.join(BIN, "modelrun"))
        srcs = [os.path.join(VERIF, "ocaml", "modelrun.ml"), os.path.join(COQ, "extract", "Extract.v")]
        srcs += [os.path.join(COQ, "model", f) for f in os.listdir(os.path.join(COQ, "model")) if f.endswith(".v")]
        return any(os.path.getmtime(f) > mr for f in srcs)

    def coq_make_nolock(self, targets, timeout=1500):
        rc, out = sh(["timeout", str(timeout), os.path.join(COQ, "mk.sh")] + list(targets), timeout=timeout + 30)
        return rc == 0, out

    def regen(self, what="all"):
        with Lock():
            rc, out = sh([os.path.join(BIN, "gen"), "-repo", REPO, "-out", os.path.join(COQ, "gen"), what], timeout=300)
        return rc == 0, out

    def coq_make(self, targets, timeout=1500):
        """Full .vo build of the given targets (paths relative to coq/, e.g. props/C19.vo)."""
        with Lock():
            rc, out = sh(["timeout", str(timeout), os.path.join(COQ, "mk.sh")] + list(targets), timeout=timeout + 30)
        return rc == 0, out

    def hygiene(self):
        """No Admitted/admit/Axiom/Parameter/... anywhere in the development."""
        pat = r"\b(Admitted|admit|Axiom|Axioms|Parameter|Parameters|Conjecture|Admit Obligations|bypass_check|Unset Guard Checking|Unset Positivity Checking|Unset Universe Checking|type-in-type|impredicative-set)\b"
        bad = []
        for root, _, files in os.walk(COQ):
            if "/tmp" in root:
                continue
            for f in files:
                if not f.endswith(".v"):
                    continue
                p = os.path.join(root, f)
                txt = open(p).read()
                txt = re.sub(r"\(\*.*?\*\)", "", txt, flags=re.S)
                for m in re.finditer(pat, txt):
                    bad.append("%s: %s" % (os.path.relpath(p, VERIF), m.group(0)))
        # Variable/Hypothesis outside a section
        return bad

    def theorems_of(self, relpath):
        txt = open(os.path.join(COQ, relpath)).read()
        txt = re.sub(r"\(\*.*?\*\)", "", txt, flags=re.S)
        return re.findall(r"^\s*(?:Theorem|Example)\s+([A-Za-z0-9_']+)", txt, flags=re.M)

    def print_assumptions(self, module, names):
        """Run coqc on a scratch file that prints the assumptions of each theorem; returns {name: text}."""
        tmpd = os.path.join(COQ, "tmp")
        os.makedirs(tmpd, exist_ok=True)
        fn = os.path.join(tmpd, "Assm_%s.v" % self.pid)
        with open(fn, "w") as f:
            f.write("From NPR Require Import %s.\n" % module)
            for n in names:
                f.write('Goal True. idtac "@@%s". Abort.\nPrint Assumptions %s.\n' % (n, n))
        with Lock():
            rc, out = sh("coqc -Q model NM -Q gen NG -Q proofs NP -Q props NPR tmp/Assm_%s.v" % self.pid, cwd=COQ, timeout=600)
        res = {}
        cur = None
        for line in out.splitlines():
            if line.startswith("@@"):
                cur = line[2:].strip()
                res[cur] = ""
            elif cur is not None:
                res[cur] += line.strip() + " "
        for ext in (".v", ".vo", ".vok", ".vos", ".glob"):
            try:
                os.remove(os.path.join(tmpd, "Assm_%s%s" % (self.pid, ext)))
            except OSError:
                pass
        self.axioms = {k: v.strip() for k, v in res.items()}
        return rc == 0, self.axioms

    def prove(self, module_rel, module_name):
        """Regenerate, build props/<module>.vo, record one obligation per theorem + hygiene + axioms.
        Returns (ok, log)."""
        bad = self.hygiene()
        self.obligation("hygiene: no Admitted/admit/Axiom/Parameter/guard-off in coq/", not bad)
        if bad:
            return False, "forbidden constructs:\n" + "\n".join(bad)
        names = self.theorems_of(module_rel)
        ok, log = self.coq_make([module_rel + "o"])
        for n in names:
            self.obligation("theorem %s (%s)" % (n, module_rel), ok)
        if not ok:
            return False, log
        okA, ax = self.print_assumptions(module_name, names)
        closed = okA and all("Closed under the global context" in ax.get(n, "") for n in names)
        allowed = closed
        if okA and not closed:
            # standard-library axioms are permitted if named; anything else is not
            std_ok = ("functional_extensionality", "proof_irrelevance", "classic", "JMeq_eq", "Eqdep.Eq_rect_eq", "eq_rect_eq")
            allowed = True
            for n in names:
                t = ax.get(n, "")
                if "Closed under the global context" in t:
                    continue
                if not any(s in t for s in std_ok) or not t:
                    allowed = False
        self.obligation("Print Assumptions: every theorem of %s closed under the global context (or std-lib axioms only)" % module_rel, allowed)
        if not allowed:
            return False, "unexpected assumptions: %r" % ax
        if self.tier == "thorough":
            # the independent checker re-checks the compiled theory of this property and everything it depends on
            rc, out = sh("coqchk -silent -o -Q model NM -Q gen NG -Q proofs NP -Q props NPR NPR.%s" % module_name, cwd=COQ, timeout=3000)
            clean = rc == 0 and "Axioms: <none>" in out and "type-in-type: <none>" in out and "unsafe (co)fixpoints: <none>" in out and "positivity is assumed: <none>" in out
            self.obligation("coqchk re-checks %s and its dependencies: no axioms, no type-in-type, no unsafe fixpoints, no assumed positivity" % module_rel, clean)
            if not clean:
                return False, "coqchk:\n" + out[-2000:]
        return True, log

    # ---------------------------------------------------------------- bookkeeping
    def obligation(self, name, ok):
        self.obligations.append((name, bool(ok)))

    def sample(self, s):
        if len(self.samples) < 8:
            self.samples.append(s)

    def known_for(self):
        return [k for k in self.known_findings.get("findings", []) if k["property"] == self.pid]

    def known_finding(self, fid, what):
        print("KNOWN-FINDING: property=%s %s %s" % (self.pid, fid, what))
        self.known += 1

    def violation(self, name, text, found_input=True):
        self.violations += 1
        path = os.path.join(VERIF, "replays", "%s-%s-%d.txt" % (self.pid, re.sub(r"[^A-Za-z0-9_.-]", "_", name)[:40], self.violations))
        with open(path, "w") as f:
            f.write(text)
        tail = "" if found_input else " no-failing-input-found"
        print("VIOLATION property=%s replay=%s%s" % (self.pid, path, tail))
        sys.stdout.flush()

    def write_evidence(self, level="proof", extra=None, assumptions=None):
        cov = {
            "obligations": len(self.obligations),
            "discharged": sum(1 for _, ok in self.obligations if ok),
            "checker_cmd": "cd /verif/coq && ./mk.sh props/%s.vo   (coq_makefile + make, full .vo, coqc 8.16.1)" % self.pid,
            "trusted_base": TRUSTED_BASE + ["Print Assumptions: " + "; ".join("%s: %s" % kv for kv in sorted(self.axioms.items()))],
            "obligation_list": [{"name": n, "discharged": ok} for n, ok in self.obligations],
            "samples": self.samples or ["(no samples recorded)"],
        }
        cov.update(self.coverage)
        if extra:
            cov.update(extra)
        ev = {
            "property_id": self.pid,
            "tier": self.tier,
            "seed": self.seed,
            "level": level,
            "coverage": cov,
            "assumptions": (assumptions or []) + self.assumptions,
            "wall_s": round(time.time() - self.t0, 2),
            "violations": self.violations,
            "known_findings_reproduced": self.known,
            "notes": self.notes,
        }
        with open(os.path.join(VERIF, "evidence", "%s.json" % self.pid), "w") as f:
            json.dump(ev, f, indent=1)

    def scratch(self):
        import tempfile
        os.makedirs(SCRATCH_BASE, exist_ok=True)
        return tempfile.mkdtemp(prefix="verif-%s-" % self.pid, dir=SCRATCH_BASE)


def harness(args, timeout=600, inp=None, cwd=None, env=None):
    return sh2([os.path.join(BIN, "harness")] + list(args), timeout=timeout, inp=inp, cwd=cwd, env=env)


def coq_error_excerpt(log, n=40):
    lines = log.splitlines()
    for i, l in enumerate(lines):
        if l.startswith("Error") or "Error:" in l:
            return "\n".join(lines[max(0, i - 8): i + n])
    return "\n".join(lines[-n:])
