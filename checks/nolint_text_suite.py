"""M12 correspondence: nolintContainsNilAway (diagnostic/nolint.go) vs coq/model/Nolint.v (extracted), on comment texts:
structured directives (the domain of theorem C11_directive_text_decides) with their expected verdict, and mutated /
malformed texts."""
import os
import random

from . import common

LINTERS = ["nilaway", "all", "NilAway", "ALL", "errcheck", "gosec", "nilawayx", "al", "nil away", "", "lint", "unused"]


def structured(rng):
    lead = "".join(rng.choice("/ ") for _ in range(rng.choice([2, 2, 2, 3, 4, 0, 1])))
    txt = lead + "nolint"
    expect = True
    if rng.random() < 0.7:
        items = [rng.choice(LINTERS) for _ in range(rng.choice([0, 1, 1, 2, 2, 3]))]
        names = [i for i in items if " " not in i]           # names of the theorem's domain have no white space
        if len(names) == len(items):
            expect = any(i.lower() in ("nilaway", "all") for i in items)
        else:
            expect = None                                    # outside the structured domain: correspondence only
        txt += " " * rng.choice([0, 0, 0, 1, 2]) + ":" + ",".join(" " * rng.randrange(3) + i + " " * rng.randrange(3) for i in items)
    if rng.random() < 0.4:
        txt += " //" + rng.choice([" reason", "nolint:nilaway", " a: b, c", "", " //x"])
    return txt, expect


def mutated(rng):
    txt, _ = structured(rng)
    b = list(txt)
    for _ in range(rng.randint(1, 3)):
        k = rng.randrange(5)
        pos = rng.randrange(len(b) + 1)
        if k == 0 and b:
            del b[min(pos, len(b) - 1)]
        elif k == 1:
            b.insert(pos, rng.choice(":,/ \tnolintNOLINT-_.x"))
        elif k == 2 and b:
            b[min(pos, len(b) - 1)] = rng.choice(":,/ \tax")
        elif k == 3:
            b[pos:pos] = list(rng.choice(["lint", ":", " // ", "nolint", "\t", ",,", "::"]))
        else:
            b = b[:pos]
    return "".join(b), None


def correspond(seed, n):
    rng = random.Random(seed)
    cases = [structured(rng) if rng.random() < 0.6 else mutated(rng) for _ in range(n)]
    cases += [(t, e) for t, e in [("//nolint", True), ("nolint", True), ("", False), ("//", False), ("//nolintlint", False), ("// nolinting this", False),
                                  ("//nolint:", False), ("//nolint: , ,", False), ("//nolint\t:nilaway", True), ("//nolint TODO: remove", True),
                                  ("//nolint:nilaway: a reason", True), ("//nolint:errcheck // nolint:nilaway", False), ("/* nolint */", False)]]
    inp = "\n".join("999 " + " ".join(str(ord(c)) for c in t) for t, _ in cases) + "\n"
    rc1, impl, e1 = common.sh2([os.path.join(common.BIN, "harness"), "nolinttext"], inp=inp, timeout=600)
    rc2, model, e2 = common.sh2([os.path.join(common.BIN, "modelrun"), "nolint"], inp=inp, timeout=600)
    impl, model = impl.split(), model.split()
    res = dict(n=len(cases), errors=[], mism=[], wrong=[], structured=sum(1 for _, e in cases if e is not None), suppress=0)
    if rc1 != 0 or rc2 != 0 or len(impl) != len(cases) or len(model) != len(cases):
        res["errors"].append("harness nolinttext rc=%s (%d answers) %s / modelrun nolint rc=%s (%d answers) %s" % (rc1, len(impl), e1[-300:], rc2, len(model), e2[-300:]))
        return res
    for (t, e), a, b in zip(cases, impl, model):
        res["suppress"] += a == "1"
        if a != b:
            res["mism"].append((t, a, b))
        if e is not None and (a == "1") != e:
            res["wrong"].append((t, a, e))
    return res
