"""C01: clean means panic-free.  Theorems props/C01.v (flow_sound: M6 exec / M7 flow analysis / M1 engine) + progfuzz:
generated core-fragment programs through the model, the real NilAway (full triggers, diagnostics) and the compiled
program under every vector of opaque answers.  Correspondence ties M7 to the real function analysis (trigger sets) and
M6 to Go (panic sites); the property itself is evaluated on (real diagnostics, real panics)."""
import random

from . import common
from . import progfuzz as PF
from . import progcorpus as PC

ROOT_CAUSES = {
    "F2": "a package-level variable tracked across a call that re-assigns it is used (model flag gsafe=false)",
    "F4": "a function with an inferred contract is called from another package (model flag clocal=false)",
}


def classify(c, o, known_ids):
    """-> list of (kind, message, found_input); kind in corr-trig, corr-exec, corr-diag, unsound, lone, known:<id>"""
    out = []
    m = o["model"]
    if o["odd"]:
        out.append(("corr-trig", "triggers of the real analysis outside the vocabulary of the model: %r" % o["odd"][:2], False))
    if o["real_trig"] != o["model_trig"]:
        out.append(("corr-trig", "trigger sets differ", False))
    if o["exec_bad"]:
        out.append(("corr-exec", "model M6 and the compiled program disagree on an execution", False))
    if not (o["reports"] <= o["flagged"]) or bool(o["reports"]) != bool(o["flagged"]) or o["other"] or o["flow"] != bool(o["flagged"]):
        out.append(("corr-diag", "diagnostics of the real tool are not the dereferences the model's constraints flag", False))
    silent = not o["reports"] and not o["other"]
    if o["panics"] and silent:
        if not m["gsafe"] and "F2" in known_ids:
            out.append(("known:F2", ROOT_CAUSES["F2"], True))
        elif not m["clocal"] and "F4" in known_ids:
            out.append(("known:F4", ROOT_CAUSES["F4"], True))
        else:
            out.append(("unsound", "some execution dereferences nil at %s and no diagnostic is reported" % sorted(o["panics"], key=str), True))
    if c.lone is not None:
        if not (o["reports"] <= {c.lone}):
            out.append(("lone", "a diagnostic is reported at a dereference protected by a nil check: %s" % sorted(o["reports"] - {c.lone}), True))
        if c.lone in o["panics"] and c.lone not in o["reports"] and not silent:
            out.append(("lone", "the only unprotected dereference %d panics but the diagnostics are elsewhere" % c.lone, True))
    return out


def run(ctx):
    ok, msg = ctx.build_tools()
    if not ok:
        ctx.obligation("tools build against /repo (hooks enabled)", False)
        ctx.violation("build", msg, found_input=False)
        ctx.write_evidence()
        return
    ctx.regen("all")
    okp, log = ctx.prove("props/C01.v", "C01")
    known_ids = set(k["id"] for k in ctx.known_for())

    # the known false negatives, reproduced on every run
    # Go-source regression programs of repaired findings (parenthesised / converted nil, parenthesised callees,
    # package-level initialisers, init shadowing, endless loops, deferred calls)
    from . import markers
    markers.corpus_modules(ctx, "c01r", "nil flows through spellings of repaired findings")
    corpus = PC.cases()
    rc = PF.run_suite(ctx, corpus, nb=8)
    ctx.obligation("corpus of known false negatives ran", "error" not in rc)
    if "error" in rc:
        ctx.violation("corpus", rc["error"], found_input=False)
        ctx.write_evidence()
        return
    oc = rc["obs"]
    expect = {"kf1rot7": "F1", "kf2glob": "F2", "kf4xpkg": "F4", "kf30nest6": "F30"}
    for c in corpus:
        o = oc[c.name]
        silent = not o["reports"] and not o["other"]
        fid = expect.get(c.name)
        if fid:
            if o["panics"] and silent:
                if fid in known_ids:
                    ctx.known_finding(fid, "%s: clean in the real tool, panics at run time (corpus program %s)" % ([k["what"] for k in ctx.known_for() if k["id"] == fid][0][:160], c.name))
                else:
                    ctx.violation("corpus-" + c.name, "C01 fails: the program is clean in the real tool and panics\n" + PF.describe(c, o))
        else:
            if o["panics"] and silent:
                ctx.violation("corpus-" + c.name, "C01 fails on a control program (a variant of a known finding that used to be reported)\n" + PF.describe(c, o))
    ctx.obligation("controls of the corpus (3-variable rotation, 4 nested loops, same-package contracted callee) are reported", not any(
        oc[n]["panics"] and not oc[n]["reports"] for n in ("kf1rot3", "kf4same", "kf30nest4")))

    rng = random.Random(ctx.seed * 104729 + 1)
    n = 400 if ctx.tier == "quick" else 6000
    batch = 400 if ctx.tier == "quick" else 1000
    allc, allo = [], {}
    problems = []
    for b in range(0, n, batch):
        cases = PF.gen_cases(rng, min(batch, n - b), streams=("random", "random", "lone", "guarded"), prefix="b%d" % (b // batch))
        r = PF.run_suite(ctx, cases, styles_seed=ctx.seed + b)
        if "error" in r:
            ctx.obligation("progfuzz suite ran", False)
            ctx.violation("suite", r["error"], found_input=False)
            ctx.write_evidence()
            return
        for c in cases:
            for (kind, m, found) in classify(c, r["obs"][c.name], known_ids):
                problems.append((kind, m, found, c, r["obs"][c.name]))
        allc += cases
        allo.update(r["obs"])
    ctx.obligation("progfuzz suite ran", True)
    kinds = {}
    for p in problems:
        kinds.setdefault(p[0], []).append(p)
    ctx.obligation("correspondence M7: trigger sets of the real function analysis == model on %d programs" % len(allc), "corr-trig" not in kinds)
    ctx.obligation("correspondence M6: panic site of the compiled program == model exec on %d executions" % sum(len(allo[c.name]["truth"]) for c in allc), "corr-exec" not in kinds)
    ctx.obligation("correspondence M1: real diagnostics sit at dereferences the model's constraints flag, and exist iff a flow exists", "corr-diag" not in kinds)
    ctx.obligation("oracle on the real tool: every program with a panicking execution has a diagnostic", "unsound" not in kinds)
    ctx.obligation("oracle on the real tool: a lone unprotected dereference is the only place reported", "lone" not in kinds)
    st = PF.stats(allc, allo)
    ctx.coverage.update({"evaluations": st["executions"] + st["real_triggers"], "distinct_nontrivial": st["panicking"],
                         "rule": "generated MiniGo programs (1-5 functions, 1-3 packages, package-level variables, methods, nested calls, contracted one-parameter functions, loops, condition trees with dereferences; spellings of guards/switches/receivers randomised); each compared on trigger sets, on the panic site of 2^%d opaque vectors, and on diagnostics; non-trivial = some execution panics" % PF.NB,
                         "distribution": st})
    for c in allc[:2]:
        ctx.sample(PF.describe(c, allo[c.name])[:1500])

    # a divergence of the trigger sets: look for a concrete program on which the property fails
    if "corr-trig" in kinds and "unsound" not in kinds:
        vs = []
        srng = random.Random(ctx.seed + 4242)
        for i, (_, m, _, c, o) in enumerate(kinds["corr-trig"][:10]):
            # dereferences the model's constraints flag and the real tool does not report: make each the only
            # unprotected one, in variants where nil actually flows
            cand = sorted(o["flagged"] - o["reports"])[:3] or [None]
            for j, d in enumerate(cand):
                for k, (rets, args) in enumerate(((False, False), (True, True))):
                    q = PF.amplify(c.prog, rets, args) if (rets or args) else c.prog
                    if d is not None:
                        q = PF.guard_all(srng, q, keep={d})
                    vs.append(PF.Case("s%02d%d%d" % (i, j, k), q, "search", lone=d))
        rs = PF.run_suite(ctx, vs, styles_seed=ctx.seed + 99)
        if "error" not in rs:
            for c in vs:
                o = rs["obs"][c.name]
                for (kind, m, found) in classify(c, o, known_ids):
                    if kind == "unsound":
                        kinds.setdefault("unsound", []).append((kind, m, found, c, o))
    # known root causes first, then violations
    for kind in ("known:F2", "known:F4"):
        for (_, m, _, c, o) in kinds.get(kind, [])[:3]:
            fid = kind.split(":")[1]
            ctx.known_finding(fid, "%s: program %s is clean in the real tool and panics" % (m, c.name))
    for kind in ("unsound", "lone"):
        for (_, m, found, c, o) in kinds.get(kind, [])[:3]:
            ctx.violation(kind, "C01 fails on the real tool: %s\n%s" % (m, PF.describe(c, o)))
    if not ctx.violations:
        for kind in ("corr-trig", "corr-exec", "corr-diag"):
            for (_, m, found, c, o) in kinds.get(kind, [])[:2]:
                ctx.violation(kind, "the model and the implementation disagree (%s); theorems C01_* no longer speak about the code; no program with a panic and no diagnostic was found among %d.\n%s" % (m, len(allc), PF.describe(c, o)), found_input=False)
    if not okp and not ctx.violations:
        ctx.violation("proof", "a proof obligation of props/C01.v no longer checks:\n" + common.coq_error_excerpt(log), found_input=False)
    ctx.write_evidence(assumptions=[
        "C01_clean_means_panic_free is proved for single-package layouts (all triggers in one constraint system); multi-package programs rely on C03 (modular = whole-program) and are covered by the correspondence and the direct oracle",
        "side conditions r_gsafe / r_clocal / contract_true are necessary (C01_refuted_*): known findings F2, F4; F1 (round limit) is a divergence of the real analysis from the model's fixed point"])


def replay(ctx, path):
    print(open(path).read())
