"""C02: nil-checked dereferences are never reported.  Theorems props/C02.v (guarded => only never-firing producers
reach a dereference => no flow => no diagnostic) + progfuzz guarded / lone streams with randomised guard spellings."""
import random

from . import common
from . import progfuzz as PF
from . import progcorpus as PC


def run(ctx):
    ok, msg = ctx.build_tools()
    if not ok:
        ctx.obligation("tools build against /repo (hooks enabled)", False)
        ctx.violation("build", msg, found_input=False)
        ctx.write_evidence()
        return
    ctx.regen("all")
    okp, log = ctx.prove("props/C02.v", "C02")
    # Go-source corpus: nil-checked dereferences next to constructs outside the generator (channel receives, range,
    # map lookups, type assertions, closures, select, defer, labelled loops), two packages in one process, in both
    # scheduling modes
    import os
    from . import markers
    from . import wholetool as wt
    cd = os.path.join(common.VERIF, "corpus", "c02")
    nm, mbad = markers.check_markers(cd)
    for seq in (True, False):
        for _ in range(2):
            r, err = wt.analyze(cd, seq=seq)
            if r is None:
                mbad.append("run failed: %s" % err)
            elif any(d["file"].endswith("b.go") for d in r["diags"] or []):
                mbad.append("package b (only nil-checked dereferences) is reported when analysed %s in one process with package a: %s" % ("sequentially" if seq else "in parallel", [(d["file"], d["line"]) for d in r["diags"] if d["file"].endswith("b.go")][:3]))
    ctx.obligation("whole tool on corpus/c02: %d marked dereferences next to constructs outside the generator (channel receives, range, map lookups, type assertions, closures, select, defer): protected ones never reported, in every scheduling mode" % nm, nm > 0 and not mbad)
    for b in mbad[:3]:
        ctx.violation("context", "C02 fails on the real tool: %s\nreplay: bin/harness analyze -dir corpus/c02\n" % b)
    markers.corpus_modules(ctx, "c02r", "spellings of nil checks: converted nil, boolean-tagged switch, comparison with a boolean constant, re-checked prefix")
    known_ids = set(k["id"] for k in ctx.known_for())
    corpus = PC.c02_cases()
    rc = PF.run_suite(ctx, corpus, nb=4)
    ctx.obligation("corpus of known false positives ran", "error" not in rc)
    if "error" in rc:
        ctx.violation("corpus", rc["error"], found_input=False)
        ctx.write_evidence()
        return
    for c in corpus:
        o = rc["obs"][c.name]
        if o["complete"] and o["reports"] == {c.lone} and c.lone not in o["panics"]:
            if "F22" in known_ids:
                ctx.known_finding("F22", "%s (corpus program %s)" % ([k["what"] for k in ctx.known_for() if k["id"] == "F22"][0][:200], c.name))
            else:
                ctx.violation("corpus-" + c.name, "C02 fails: a diagnostic at the lone unprotected dereference although no execution panics there\n" + PF.describe(c, o))
    rng = random.Random(ctx.seed * 15485863 + 2)
    n = 400 if ctx.tier == "quick" else 6000
    batch = 400 if ctx.tier == "quick" else 1000
    allc, allo = [], {}
    bad = {"corr": [], "reported": [], "unguarded-model": [], "lone": [], "falsepos": []}
    for b in range(0, n, batch):
        cases = PF.gen_cases(rng, min(batch, n - b), streams=("guarded", "guarded", "lone", "lone-simple"), prefix="g%d" % (b // batch))
        r = PF.run_suite(ctx, cases, styles_seed=ctx.seed + 7 + b)
        if "error" in r:
            ctx.obligation("progfuzz suite ran", False)
            ctx.violation("suite", r["error"], found_input=False)
            ctx.write_evidence()
            return
        for c in cases:
            o = r["obs"][c.name]
            if o["odd"] or o["real_trig"] != o["model_trig"] or o["exec_bad"]:
                bad["corr"].append((c, o))
            if c.stream == "guarded":
                if not o["model"]["guarded"]:
                    bad["unguarded-model"].append((c, o))
                if o["reports"] or o["other"]:
                    bad["reported"].append((c, o))
            if c.lone is not None:
                if not (o["reports"] <= {c.lone}) or o["other"]:
                    bad["lone"].append((c, o))
                if c.stream == "lone-simple" and o["complete"] and o["reports"] == {c.lone} and c.lone not in o["panics"]:
                    bad["falsepos"].append((c, o))
        allc += cases
        allo.update(r["obs"])
    ctx.obligation("progfuzz suite ran", True)
    ng = sum(1 for c in allc if c.stream == "guarded")
    nprec = sum(1 for c in allc if c.stream == "lone-simple" and allo[c.name]["complete"] and allo[c.name]["reports"] == {c.lone})
    ctx.obligation("correspondence: trigger sets and panic sites, real == model, on %d programs" % len(allc), not bad["corr"])
    ctx.obligation("the syntactic predicate `guarded` of the model holds of the %d programs of the guarded stream" % ng, not bad["unguarded-model"])
    ctx.obligation("oracle on the real tool: zero diagnostics on %d programs whose dereferences are all nil-checked" % ng, not bad["reported"])
    ctx.obligation("oracle on the real tool: with one unprotected dereference no diagnostic sits at a protected one", not bad["lone"])
    ctx.obligation("oracle on the real tool (single call site per function, no package-level pointer, every path feasible): a diagnostic at the lone unprotected dereference implies a panicking execution (%d programs with such a diagnostic, all executions enumerated)" % nprec, not bad["falsepos"])
    st = PF.stats(allc, allo)
    ctx.coverage.update({"evaluations": st["dereferences"] + st["executions"], "distinct_nontrivial": ng,
                         "rule": "generated programs whose dereferences are wrapped in nil checks (if x != nil, early return on nil, && / || with opaque operands, negated disjunctions, inside loop conditions), printed with randomised spellings (x != nil, nil != x, !(x == nil), (x == nil) == false, De Morgan, swapped branches, switch x { case nil }, tagless switch); non-trivial = guarded stream program; plus streams with exactly one unprotected dereference",
                         "distribution": st})
    for c in allc[:2]:
        ctx.sample(PF.describe(c, allo[c.name])[:1500])
    for key, text in (("reported", "a dereference that is only reached after a successful nil check is reported"),
                      ("lone", "a diagnostic at a protected dereference"),
                      ("falsepos", "a diagnostic at the lone unprotected dereference although no execution panics there")):
        for (c, o) in bad[key][:3]:
            ctx.violation(key, "C02 fails on the real tool: %s\n%s" % (text, PF.describe(c, o)))
    if not ctx.violations:
        for (c, o) in (bad["corr"] + bad["unguarded-model"])[:3]:
            ctx.violation("correspondence", "the model and the implementation disagree; theorems C02_* no longer speak about the code; no reported protected dereference was found among %d programs.\n%s" % (len(allc), PF.describe(c, o)), found_input=False)
    if not okp and not ctx.violations:
        ctx.violation("proof", "a proof obligation of props/C02.v no longer checks:\n" + common.coq_error_excerpt(log), found_input=False)
    ctx.write_evidence(assumptions=[
        "the third sentence of C02 (a diagnostic at a lone unprotected dereference only if some execution panics there) is not proved: it is evaluated on the real tool against execution ground truth (lone-simple stream)"])


def replay(ctx, path):
    print(open(path).read())
