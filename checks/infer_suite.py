"""Contract-inference correspondence (model M10, coq/model/Infer.v  <->  assertion/function/functioncontracts/infer.go).
bin/harness infer renders, for every function on which NilAway's inference runs, the abstract SSA form (hook
functioncontracts.VerifInferAll) and the verdict of the REAL inferContracts; bin/modelrun infer runs the extracted
transcription on the same form.  Compared: contract(nonnil -> nonnil) inferred or not."""
import json
import os

from . import common

KINDS = {"param": 0, "nil": 1, "constunk": 2, "nonnil": 3, "chgiface": 4, "mkiface": 5, "slice": 6, "s2ap": 7, "append1": 8,
         "appendn": 9, "phi": 10, "other": 11}
FUEL = 60000


def model_line(d):
    out = [FUEL, d["Param"], len(d["Values"])]
    for v in d["Values"]:
        e = v.get("Edges") or []
        out += [KINDS[v["Kind"]], max(v.get("X", -1), 0), int(bool(v.get("LenPos"))), len(e)] + e
    out.append(len(d["Blocks"]))
    for b in d["Blocks"]:
        preds, succs, phis, defs = b.get("Preds") or [], b.get("Succs") or [], b.get("Phis") or [], b.get("Defs") or []
        hasif = b.get("HasIf") and b.get("Op") in ("==", "!=") and not b.get("BarsNil")
        out += [len(preds)] + preds + [len(succs)] + succs + [len(phis)] + phis + [len(defs)] + defs
        # `(x == y) == false` and the like: the branch is the inner comparison, negated
        out += [int(bool(hasif)), int((b.get("Op") == "==") != bool(b.get("Negated"))), max(b.get("X", -1), 0), max(b.get("Y", -1), 0)]
        out += [int(bool(b.get("EndsReturn"))), max(b.get("Ret", -1), 0)]
    return " ".join(map(str, out))


def dump(moddir, patterns=(), timeout=1800):
    rc, out, err = common.harness(["infer", "-dir", moddir] + list(patterns), timeout=timeout)
    if rc != 0:
        return None, "bin/harness infer failed on %s %r: %s" % (moddir, patterns, err[-400:])
    fs = []
    for l in out.splitlines():
        if l.startswith("{"):
            fs.append(json.loads(l))
    return fs, None


def run_model(lines, timeout=1800):
    rc, out, err = common.sh2([os.path.join(common.BIN, "modelrun"), "infer"], inp="\n".join(lines) + "\n", timeout=timeout)
    return rc, [l.split() for l in out.splitlines() if l.strip()], err


def correspond(targets):
    """targets: list of (module dir, patterns) -> dict(funcs, inferred, mism, errors, panics, nofuel, stats)"""
    res = dict(funcs=[], inferred=0, mism=[], errors=[], panics=[], nofuel=[], maxblocks=0, with_branch=0, with_phi=0,
               plain=0, semiplain=0, inferred_semiplain=0, illformed=[], unstable=[], inferred_plain=0, inferred_validated=0, unvalidated=[])
    for d, pats in targets:
        fs, err = dump(d, pats)
        if fs is None:
            res["errors"].append(err)
            continue
        res["funcs"] += fs
    if not res["funcs"]:
        return res
    rc, out, err = run_model([model_line(f) for f in res["funcs"]])
    if rc != 0 or len(out) != len(res["funcs"]):
        res["errors"].append("bin/modelrun infer failed: rc=%s, %d answers for %d functions: %s" % (rc, len(out), len(res["funcs"]), err[-300:]))
        return res
    for f, mm in zip(res["funcs"], out):
        m, bits = mm[0], (mm[1] if len(mm) > 1 else "00000")
        is_plain, is_wf, is_stable, is_checked, is_semi = (c == "1" for c in bits)
        res["plain"] += is_plain
        res["semiplain"] += is_semi
        if not is_wf:
            res["illformed"].append(f)
        if not is_stable:
            res["unstable"].append(f)
        if m == "I":
            res["inferred_plain"] += is_plain
            res["inferred_semiplain"] += is_semi
            res["inferred_validated"] += is_checked
            if not is_checked:
                res["unvalidated"].append(f)
        res["inferred"] += bool(f["Inferred"])
        res["maxblocks"] = max(res["maxblocks"], len(f["Blocks"]))
        res["with_branch"] += any(b.get("HasIf") and b.get("Op") in ("==", "!=") and not b.get("BarsNil") for b in f["Blocks"])
        res["with_phi"] += any(b.get("Phis") for b in f["Blocks"])
        if f.get("Panic"):
            res["panics"].append(f)
        elif m == "F":
            res["nofuel"].append(f)
        elif (m == "I") != bool(f["Inferred"]):
            res["mism"].append((f, m))
    return res


def describe(f):
    ls = ["function %s.%s: the real inference %s contract(nonnil -> nonnil)" % (f["Pkg"], f["Name"], "infers" if f["Inferred"] else "does not infer")]
    ls.append("  parameter = v%d" % f["Param"])
    for i, v in enumerate(f["Values"]):
        ls.append("  v%d: %s%s%s" % (i, v["Kind"], " v%d" % v["X"] if v.get("X", -1) >= 0 else "", " edges %s" % v["Edges"] if v.get("Edges") else ""))
    for i, b in enumerate(f["Blocks"]):
        ls.append("  block %d: preds %s succs %s phis %s defs %s%s%s" % (i, b.get("Preds") or [], b.get("Succs") or [], b.get("Phis") or [], b.get("Defs") or [],
                  " if v%d %s v%d%s" % (b["X"], b["Op"], b["Y"], " (cannot be nil)" if b.get("BarsNil") else "") if b.get("HasIf") else "",
                  " return v%d" % b["Ret"] if b.get("EndsReturn") else ""))
    ls.append("model-line: " + model_line(f))
    return "\n".join(ls)


def gen_module(ctx, rng, n):
    """a scratch module of n generated MiniGo programs with contract-prone one-parameter functions in every spelling
    of nil comparisons (checks/progfuzz.py); caller removes the directory"""
    import random
    from . import progfuzz as PF
    d = ctx.scratch()
    cases = PF.gen_cases(rng, n, streams=("random", "random", "lone"), prefix="i")
    PF.write_module(d, {c.name: c.prog for c in cases}, {c.name: random.Random(rng.random()) for c in cases})
    return d
