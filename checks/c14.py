"""C14: every diagnostic points at a real source line and carries a coherent flow (partial: file system and
drivers are outside the model)."""
import os
import random

from . import common
from . import diaggen as dg
from . import diag_suite as ds
from . import wholetool as wt


def run(ctx):
    ok, msg = ctx.build_tools()
    if not ok:
        ctx.obligation("tools build against /repo (hooks enabled)", False)
        ctx.violation("build", msg, found_input=False)
        ctx.write_evidence()
        return
    okg, outg = ctx.regen("all")
    ctx.obligation("translator ran (diagnostic/engine.go: _fakeFileMaxLines, shape of toPos)", okg)
    okp, log = ctx.prove("props/C14.v", "C14")
    n = 2000 if ctx.tier == "quick" else 50000
    res = ds.correspond(ctx, n, big_lines=True)
    ctx.obligation("correspondence suite ran", not res["errors"])
    if res["errors"]:
        ctx.violation("suite", "\n".join(res["errors"]), found_input=False)
        ctx.write_evidence()
        return
    ctx.obligation("correspondence: reported positions of the real diagnostic engine == model (incl. lines beyond 65536 in files outside the file set) on %d cases" % len(res["cases"]), not res["mism"])
    panics = [i for i, l in enumerate(res["impl"]) if l.startswith("PANIC")]
    badpos = []
    for i, c in enumerate(res["cases"]):
        d = dg.parse_out(res["impl"][i])
        if d is None:
            continue
        byid = {x["id"]: x for x in c.conflicts}
        for x in d:
            cf = byid.get(x["id"])
            flow_ok = x.get("flow", "-") == "-" or x["flow"].split(":")[:2] == [x["file"], str(x["line"])]
            if not x["valid"] or cf is None or not flow_ok or (x["file"], x["line"]) != (str(cf["pos"][0]), cf["pos"][1]):
                badpos.append((i, "diagnostic %r does not sit on the line of its conflict / of the last step of its flow" % x))
                break
    ctx.obligation("oracle on the real engine: every diagnostic has a valid position on its conflict's file and line; toPos never panics", not panics and not badpos)

    rng = random.Random(ctx.seed + 5)
    mods = ds.collect_modules(ctx, rng, 2 if ctx.tier == "quick" else 12)
    wbad, ndiag, ndep = [], 0, 0
    try:
        from . import texture
        variants = []
        for d, _ in mods:
            variants.append(d)
            # the same module as template-generated code looks: an empty first line in every file
            variants.append(texture.make(d, "blank", d + "_tx"))
        for d in variants:
            for full in ("false", "true"):
                r, err = wt.analyze(d, flags={"print-full-file-path": full})
                if r is None:
                    wbad.append("run failed: %s" % err)
                    continue
                ndiag += len(r["diags"] or [])
                ndep += sum(1 for g in r["diags"] or [] if not g["pkg"].endswith(os.path.dirname(g["file"])))
                for b in ds.coherence_oracle(d, r["diags"] or [], full == "true"):
                    wbad.append("print-full-file-path=%s, module %s: %s" % (full, d, b))
    finally:
        import shutil
        for d, _ in mods:
            shutil.rmtree(d + "_tx", ignore_errors=True)
        ds.cleanup(mods)
    # the standalone binary started in nested directories of a module with a root-level file: every step still names
    # an existing file (relative names resolve from the working directory, shortened ones are a suffix of a module file)
    from . import c18
    import re as _re
    nb_runs = 0
    base18 = ctx.scratch()
    try:
        root = os.path.realpath(os.path.join(base18, "m", "mod"))
        os.makedirs(root)
        c18.write_module(root)
        modfiles = [os.path.relpath(os.path.join(r, f), os.path.dirname(root)) for r, _, fs in os.walk(root) for f in fs if f.endswith(".go")]
        for sub in ("", "p/a", "q/c/d"):
            cwd = os.path.normpath(os.path.join(root, sub))
            for full in ((), ("-print-full-file-path",)):
                rc, diags, text = c18.run_binary(cwd, root, extra_flags=full)
                nb_runs += 1
                if not diags:
                    wbad.append("standalone binary started in %s: no diagnostics: %s" % (cwd, text[-300:]))
                for (f, l, c, msg) in diags:
                    for m in _re.finditer(r"^\t- ([^\s:]+\.go):(\d+):(\d+):", msg.replace("<M>/", "mod/"), flags=_re.M):
                        name = m.group(1)
                        ok = os.path.exists(os.path.normpath(os.path.join(cwd, name))) if name.startswith("..") or full else any(mf.endswith(name) for mf in modfiles)
                        if not ok:
                            wbad.append("standalone binary started in %s%s: the flow step %s:%s:%s names no existing file" % (cwd, " with -print-full-file-path" if full else "", name, m.group(2), m.group(3)))
    finally:
        import shutil as _sh
        _sh.rmtree(base18, ignore_errors=True)
    ctx.obligation("whole tool: %d diagnostics of %d modules, each also with an empty first line in every file (both path-printing modes): valid position on an existing line, >= 1 flow step, every file:line:col resolves, last step = reported position; %d of them are located in a dependency's file" % (ndiag, len(mods), ndep), ndiag > 0 and ndep > 0 and not wbad)
    ctx.coverage.update({"evaluations": len(res["cases"]) + ndiag, "distinct_nontrivial": len(set(c.line() for c in res["cases"])),
                         "rule": "synthetic conflict sets (positions in files the file set does not contain, some beyond line 65536) and real diagnostics of generated/hand-written modules; distinct by case line"})
    ctx.assumptions.append("partial: the in-process checker driver only; the go vet driver drops findings located in a dependency's file (finding F12, recorded under C03); the file system is not modelled")
    for c in res["cases"][:1]:
        ctx.sample(c.pretty())
    for i in panics[:2]:
        ctx.violation("topos", "C14 fails on the real diagnostic engine: Engine.Diagnostics panics (a driver would print an INTERNAL PANIC diagnostic at position 1 instead of the finding): %s\n%s" % (res["impl"][i], res["cases"][i].pretty()))
    for (i, o) in badpos[:2]:
        ctx.violation("position", "C14 fails on the real diagnostic engine: %s\n%s" % (o, ds.describe(res, i)))
    for b in wbad[:3]:
        ctx.violation("wholetool", "C14 fails on the real tool: %s\n" % b)
    if not ctx.violations:
        for i in res["mism"][:3]:
            ctx.violation("correspondence", "model and the real diagnostic engine disagree; theorems C14_* no longer speak about the code.\n" + ds.describe(res, i), found_input=False)
    if not okp and not ctx.violations:
        ctx.violation("proof", "a proof obligation of props/C14.v no longer checks (regenerated gen/Consts.v):\n" + common.coq_error_excerpt(log), found_input=False)
    ctx.write_evidence()


def replay(ctx, path):
    txt = open(path).read()
    print(txt)
    for l in txt.splitlines():
        if l.startswith("case-line: "):
            print("real engine:", dg.run_impl([l[len("case-line: "):]])[1])
