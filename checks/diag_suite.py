"""Shared pieces of the diagnostic-level checks (C11, C13, C14): correspondence of model M2 with the real
diagnostic engine, ground-truth oracles, pretty-printing oracle, position/flow coherence oracle."""
import json
import os
import random
import re
import shutil

from . import common
from . import diaggen as dg
from . import wholetool as wt

ANSI = re.compile(r"\x1b\[[0-9;]*m")


def correspond(ctx, n, big_lines=True):
    rng = random.Random(ctx.seed * 104729 + 11)
    cases = [dg.gen_case(rng) for _ in range(n)]
    if big_lines:
        # a few cases located beyond line 65536 of files the file set does not contain (finding F16)
        for k in range(max(3, n // 200)):
            c = dg.gen_case(rng, max_conf=3)
            big = 65530 + rng.randint(0, 200000)
            cs = list(c.conflicts)
            f, l, col, off = cs[0]["pos"]
            nn = [dict(x) for x in cs[0]["nonnil"]]
            if nn[-1]["cp"][0]:
                nn[-1]["cp"] = (True, f, big, col)
            cs[0] = dict(cs[0], pos=(f, big, col, big * 100 + col), nonnil=nn)
            cases.append(c.with_(conflicts=cs, ranges=[]))
    lines = [c.line() for c in cases]
    # the extracted model keeps line numbers as unary nat: the huge-line cases are checked against ground truth
    # (and the Z-valued to_pos model of props/C14.v) only
    small = [i for i, c in enumerate(cases) if all(x["pos"][1] < 5000 for x in c.conflicts)]
    rc1, impl, e1 = dg.run_impl(lines)
    rc2, model_small, e2 = dg.run_model([lines[i] for i in small])
    errors = []
    if rc1 != 0 or len(impl) != len(lines):
        errors.append("harness diag rc=%s lines=%d/%d %s" % (rc1, len(impl), len(lines), e1[-1000:]))
    if rc2 != 0 or len(model_small) != len(small):
        errors.append("modelrun diag rc=%s lines=%d/%d %s" % (rc2, len(model_small), len(small), e2[-1000:]))
    model = [None] * len(lines)
    if not errors:
        for i, m in zip(small, model_small):
            model[i] = m
    return dict(cases=cases, impl=impl, model=model, errors=errors,
                mism=[] if errors else [i for i in small if impl[i] != model[i]])


def describe(res, i):
    return "%s\nreal diagnostic engine: %s\nmodel (coq/model/Diag.v): %s\n" % (res["cases"][i].pretty(), res["impl"][i], res["model"][i])


def impl_fails(case, oracle):
    rc, out, _ = dg.run_impl([case.line()])
    if rc != 0 or not out:
        return None
    return oracle(case, dg.parse_out(out[0]))


def unquote(s):
    return re.sub(r'"(.*?)"', r"\1", s)


def pretty_oracle(messages):
    """-> (full_fail: list, partial_fail: list) over the given plain messages"""
    inp = "\n".join(json.dumps(m) for m in messages) + "\n"
    rc, out, err = common.harness(["pretty"], inp=inp)
    if rc != 0:
        return None, ["harness pretty failed: " + err[-500:]]
    full, partial = [], []
    for m, line in zip(messages, out.splitlines()):
        p = json.loads(line)
        stripped = ANSI.sub("", p)
        if stripped != "error: " + m:
            full.append(m)
            if stripped != "error: " + unquote(m):
                partial.append((m, p))
        if "\x1b" in stripped:
            partial.append((m, p))
    return full, partial


def pretty_model_tie(messages, workdir):
    """M15 tie: `pretty` of coq/model/Pretty.v, evaluated inside Coq by vm_compute, against the real PrettyPrintErrorMessage
    (bin/harness pretty), byte for byte. -> (number compared, list of (message, real, model-differs marker)) or (None, error)"""
    import subprocess
    inp = "\n".join(json.dumps(m) for m in messages) + "\n"
    rc, out, err = common.harness(["pretty"], inp=inp)
    if rc != 0:
        return None, "harness pretty failed: " + err[-500:]
    reals = [json.loads(line) for line in out.splitlines()]
    if len(reals) != len(messages):
        return None, "harness pretty: %d outputs for %d messages" % (len(reals), len(messages))
    def blist(t):
        return "[" + "; ".join(str(b) for b in t.encode("utf-8", "surrogateescape")) + "]"
    v = ["From Coq Require Import List NArith Bool.", "From NM Require Import Pretty.", "Import ListNotations.", "Open Scope N_scope.",
         "Fixpoint leq (a b : list N) : bool := match a, b with [] , [] => true | x :: a', y :: b' => (x =? y) && leq a' b' | _, _ => false end.",
         "Definition cases : list (nat * (list N * list N)) := ["]
    v.append(";\n".join("  (%d%%nat, (%s, %s))" % (i, blist(m), blist(r)) for i, (m, r) in enumerate(zip(messages, reals))))
    v += ["].", "Definition bad := Eval vm_compute in map fst (filter (fun c => negb (leq (pretty (fst (snd c))) (snd (snd c)))) cases).", "Print bad."]
    os.makedirs(workdir, exist_ok=True)
    open(os.path.join(workdir, "pretty_cases.v"), "w").write("\n".join(v) + "\n")
    p = subprocess.run(["coqc", "-Q", os.path.join(common.COQ, "model"), "NM", "pretty_cases.v"], cwd=workdir, capture_output=True, text=True, timeout=900)
    if p.returncode != 0:
        return None, (p.stderr + p.stdout)[-500:]
    txt = " ".join(p.stdout.split())
    if "bad = []" in txt:
        return len(messages), []
    body = txt[txt.index("= [") + 3:txt.rindex("]")]
    idx = [int(x.replace("%nat", "").strip()) for x in body.split(";") if x.strip()]
    return len(messages), [(messages[i], reals[i]) for i in idx]


def synthetic_messages(rng, n):
    words = ["Potential nil panic detected.", "Observed nil flow from source to dereference point:", "\t- a/b.go:3:4:", "literal `nil`",
             "returned from `f()`", "(found nilable)", "(must be nonnil)", "accessed field `x`", "\"a/b.go:10:2\"", "\"-\"", "`", "\"", "\n", "\t",
             "(Same nil source could also cause potential nil panic(s) at 2 other place(s): \"a.go:1:1\", and \"b.go:2:2\".)", "must be NONNIL", "found NILABLE"]
    out = []
    for _ in range(n):
        out.append(" ".join(rng.choice(words) for _ in range(rng.randint(1, 12))))
    return out


def collect_modules(ctx, rng, n_nolint=2):
    """a few real modules to run the whole tool on: the annotated corpus, generated nolint modules, the
    spellings package. yields (dir, cleanup)"""
    from . import nolint_suite, spellings
    mods = [(os.path.join(common.VERIF, "corpus", "c10"), False)]
    for _ in range(n_nolint):
        d = ctx.scratch()
        nolint_suite.gen_module(rng, d)
        mods.append((d, True))
    d = ctx.scratch()
    os.makedirs(os.path.join(d, "sp"))
    open(os.path.join(d, "go.mod"), "w").write("module ex.com/sp\n\ngo 1.23\n")
    open(os.path.join(d, "sp", "sp.go"), "w").write(spellings.generate()[0])
    mods.append((d, True))
    # generated multi-package programs of the core fragment: flows that cross package boundaries in both directions
    # (nil passed into a dependency that dereferences it, nil results of a dependency dereferenced locally, ...)
    from . import progfuzz as PF
    d = ctx.scratch()
    cases = PF.gen_cases(rng, 60 * max(1, n_nolint // 2), streams=("random",), prefix="w")
    PF.write_module(d, {c.name: c.prog for c in cases}, {c.name: random.Random(rng.random()) for c in cases})
    mods.append((d, True))
    return mods


def cleanup(mods):
    for d, tmp in mods:
        if tmp:
            shutil.rmtree(d, ignore_errors=True)


def coherence_oracle(moddir, diags, full_paths):
    """C14 on real output: valid position on an existing line; >= 1 flow step; every file:line:col of the message
    names an existing file and line; the last step's position is the reported position unless it has none"""
    files = {}
    for root, _, fs in os.walk(moddir):
        for f in fs:
            if f.endswith(".go"):
                p = os.path.join(root, f)
                files[os.path.relpath(p, moddir)] = len(open(p).read().splitlines())

    def resolve(name):
        name = name.lstrip("./")
        cands = [k for k in files if k == name or k.endswith("/" + name) or name.endswith("/" + k) or os.path.join(moddir, k).endswith(name)]
        return cands
    bad = []
    for d in diags:
        if "INTERNAL PANIC" in d["message"] or "INTERNAL ERROR" in d["message"]:
            bad.append("internal error diagnostic: %s" % d["message"][:200])
            continue
        if not d["valid"]:
            bad.append("diagnostic with an invalid position: %s" % d["message"][:120])
            continue
        c = resolve(d["file"])
        if not c:
            bad.append("diagnostic in a file that does not exist in the source tree: %s" % d["file"])
            continue
        if not (1 <= d["line"] <= files[c[0]]):
            bad.append("diagnostic at %s:%d but the file has %d lines" % (d["file"], d["line"], files[c[0]]))
        body = d["message"].split("\n\n(Same nil source")[0]
        steps = [l for l in body.split("\n") if l.startswith("\t- ")]
        if not steps:
            bad.append("diagnostic without a flow step: %r" % d["message"][:200])
            continue
        for m in re.finditer(r"([\w./-]+\.go):(\d+):(\d+)", d["message"]):
            cc = resolve(m.group(1))
            if not cc:
                bad.append("message names %s which is not a file of the source tree" % m.group(0))
            elif all(int(m.group(2)) > files[k] for k in cc):
                bad.append("message names %s but the file has fewer lines" % m.group(0))
        last = steps[-1]
        mm = re.match(r"\t- ([\w./-]+\.go):(\d+):(\d+):", last)
        if mm:
            if int(mm.group(2)) != d["line"] or int(mm.group(3)) != d.get("col", int(mm.group(3))) or not set(resolve(mm.group(1))) & set(c):
                bad.append("last flow step is at %s:%s:%s but the diagnostic is reported at %s:%d:%s" % (mm.group(1), mm.group(2), mm.group(3), d["file"], d["line"], d.get("col")))
    return bad
