"""MiniGo programs (model M6) as Python data: printer to Go source (with the guard/receiver/switch spellings chosen
by a PRNG), printer to the token line read by `modelrun minigo`, and the random generators of the progfuzz suite.

Statements:  ('skip',) ('seq', s1, s2) ('assign', var, atom) ('call', var|None, f, [atoms], cs) ('deref', id, var)
             ('if', cond, s1, s2) ('while', cond, s) ('return', atom)
Vars:        ('L', n) | ('G', n)          Atoms: 'nil' | 'new' | var
Conds:       ('opaque',) ('nonnil', var) ('cderef', id, var) ('not', c) ('and', c1, c2) ('or', c1, c2)
Program:     dict(funcs=[dict(nparams=n, body=stmt, pkg=k, method=bool)], ginit=[bool], gpkg=[k], npkgs=K)
"""
import random

# ---------------------------------------------------------------- token line for the model


def var_tok(v):
    return "%s %d" % (v[0], v[1])


def atom_tok(a):
    if a == "nil":
        return "n"
    if a == "new":
        return "w"
    return var_tok(a)


def cond_tok(c):
    k = c[0]
    if k == "opaque":
        return "o"
    if k == "nonnil":
        return "z " + var_tok(c[1])
    if k == "cderef":
        return "e %d %s" % (c[1], var_tok(c[2]))
    if k == "not":
        return "! " + cond_tok(c[1])
    if k == "and":
        return "& %s %s" % (cond_tok(c[1]), cond_tok(c[2]))
    if k == "or":
        return "| %s %s" % (cond_tok(c[1]), cond_tok(c[2]))
    raise ValueError(c)


def stmt_tok(s):
    k = s[0]
    if k == "skip":
        return "k"
    if k == "seq":
        return "q %s %s" % (stmt_tok(s[1]), stmt_tok(s[2]))
    if k == "assign":
        return "a %s %s" % (var_tok(s[1]), atom_tok(s[2]))
    if k == "call":
        return "c %d %s %d %d %s" % (s[4], "-" if s[1] is None else var_tok(s[1]), s[2], len(s[3]), " ".join(atom_tok(a) for a in s[3]))
    if k == "deref":
        return "d %d %s" % (s[1], var_tok(s[2]))
    if k == "if":
        return "i %s %s %s" % (cond_tok(s[1]), stmt_tok(s[2]), stmt_tok(s[3]))
    if k == "while":
        return "w %s %s" % (cond_tok(s[1]), stmt_tok(s[2]))
    if k == "return":
        return "r " + atom_tok(s[1])
    if k == "return2":
        return "R %s %s" % (atom_tok(s[1]), atom_tok(s[2]))
    if k == "call2":
        # ('call2', x, xe, f, args, cs)
        return "C %d %s %s %d %d %s" % (s[5], "-" if s[1] is None else var_tok(s[1]), "-" if s[2] is None else var_tok(s[2]),
                                        s[3], len(s[4]), " ".join(atom_tok(a) for a in s[4]))
    if k == "retcall":
        # ('retcall', f, args, cs)
        return "Q %d %d %d %s" % (s[3], s[1], len(s[2]), " ".join(atom_tok(a) for a in s[2]))
    if k == "conv":
        return "v %s %d %d" % (var_tok(s[1]), s[2], s[3])
    if k == "convi":
        # ('convi', x, y, k, k2): x (of interface type I_k) = y (of interface type I_k2)
        return "V %s %s %d %d" % (var_tok(s[1]), var_tok(s[2]), s[3], s[4])
    if k == "calli":
        # ('calli', x, xi, k, m, args, cs, d)
        return "j %d %d %s %s %d %d %d %s" % (s[6], s[7], "-" if s[1] is None else var_tok(s[1]), var_tok(s[2]), s[3], s[4], len(s[5]),
                                              " ".join(atom_tok(a) for a in s[5]))
    raise ValueError(s)


def expand(p):
    """nested call arguments ('nest', h, args) are a spelling of `tmp = h(args); f(.., tmp, ..)` with a fresh local"""
    def lift(alist, ctr, pre):
        args = []
        for a in alist:
            if isinstance(a, tuple) and a[0] == "nest":
                ctr[0] += 1
                tmp = ("L", 90 + ctr[0])
                inner = lift(a[2], ctr, pre)
                pre.append(("call", tmp, a[1], inner, a[3]))
                args.append(tmp)
            elif isinstance(a, tuple) and a[0] == "conv":
                ctr[1] += 1
                tmp = ("L", 70 + ctr[1])
                pre.append(("conv", tmp, a[1], a[2]))
                args.append(tmp)
            elif isinstance(a, tuple) and a[0] == "iconv":
                ctr[1] += 1
                tmp = ("L", 70 + ctr[1])
                pre.append(("convi", tmp, a[3], a[1], a[2]))
                args.append(tmp)
            else:
                args.append(a)
        return args

    def go(s, ctr):
        k = s[0]
        if k == "seq":
            return ("seq", go(s[1], ctr), go(s[2], ctr))
        if k == "call":
            pre = []
            args = lift(s[3], ctr, pre)
            return seq(pre + [("call", s[1], s[2], args, s[4])])
        if k == "calli":
            pre = []
            args = lift(s[5], ctr, pre)
            return seq(pre + [("calli", s[1], s[2], s[3], s[4], args, s[6], s[7])])
        if k == "call2":
            pre = []
            args = lift(s[4], ctr, pre)
            return seq(pre + [("call2", s[1], s[2], s[3], args, s[5])])
        if k == "retcall":
            pre = []
            args = lift(s[2], ctr, pre)
            return seq(pre + [("retcall", s[1], args, s[3])])
        if k == "assign" and isinstance(s[2], tuple) and s[2][0] == "conv":
            return ("conv", s[1], s[2][1], s[2][2])
        if k == "assign" and isinstance(s[2], tuple) and s[2][0] == "iconv":
            return ("convi", s[1], s[2][3], s[2][1], s[2][2])
        if k == "return" and isinstance(s[1], tuple) and s[1][0] == "iconv":
            ctr[1] += 1
            tmp = ("L", 70 + ctr[1])
            return ("seq", ("convi", tmp, s[1][3], s[1][1], s[1][2]), ("return", tmp))
        if k == "return" and isinstance(s[1], tuple) and s[1][0] == "conv":
            ctr[1] += 1
            tmp = ("L", 70 + ctr[1])
            return ("seq", ("conv", tmp, s[1][1], s[1][2]), ("return", tmp))
        if k == "if":
            return ("if", s[1], go(s[2], ctr), go(s[3], ctr))
        if k == "while":
            return ("while", s[1], go(s[2], ctr))
        return s
    q = dict(p)
    q["funcs"] = []
    for fd in p["funcs"]:
        q["funcs"].append(dict(fd, body=go(fd["body"], [0, 0])))
    return q


def prog_line(p, ctr=()):
    p = expand(p)
    out = ["P", str(len(p["ginit"]))] + ["1" if b else "0" for b in p["ginit"]] + [str(len(p["funcs"]))]
    for f, fd in enumerate(p["funcs"]):
        out += ["F", str(fd["nparams"]), str(fd["pkg"]), "1" if f in ctr else "0", stmt_tok(fd["body"])]
    if p.get("impls"):
        out += ["I", str(len(p["impls"]))]
        for im in p["impls"]:
            out += [str(len(im["funcs"]))] + [str(f) for f in im["funcs"]]
    if p.get("ifaces"):
        out += ["S", str(len(p["ifaces"]))]
        for itf in p["ifaces"]:
            out += [str(len(itf["methods"]))] + [str(len(md["ptypes"])) for md in itf["methods"]]
    return " ".join(" ".join(out).split())


# ---------------------------------------------------------------- helpers on the AST


def seq(stmts):
    stmts = [s for s in stmts if s != ("skip",)]
    if not stmts:
        return ("skip",)
    out = stmts[-1]
    for s in reversed(stmts[:-1]):
        out = ("seq", s, out)
    return out


def flatten(s):
    if s[0] == "seq":
        return flatten(s[1]) + flatten(s[2])
    if s[0] == "skip":
        return []
    return [s]


def falls(s):
    """may control fall off the end of s (syntactic, as Go's terminating-statement rules see it)"""
    k = s[0]
    if k in ("return", "return2", "retcall"):
        return False
    if k == "seq":
        return falls(s[1]) and falls(s[2])
    if k == "if":
        return falls(s[2]) or falls(s[3])
    return True


def locals_of(s, acc=None):
    acc = set() if acc is None else acc

    def v(x):
        if isinstance(x, tuple) and x[0] == "L":
            acc.add(x[1])
        if isinstance(x, tuple) and x[0] == "nest":
            for a in x[2]:
                v(a)
        if isinstance(x, tuple) and x[0] == "iconv":
            v(x[3])

    def c(cc):
        if cc[0] in ("nonnil",):
            v(cc[1])
        elif cc[0] == "cderef":
            v(cc[2])
        elif cc[0] == "not":
            c(cc[1])
        elif cc[0] in ("and", "or"):
            c(cc[1]); c(cc[2])

    k = s[0]
    if k == "seq":
        locals_of(s[1], acc); locals_of(s[2], acc)
    elif k == "assign":
        v(s[1]); v(s[2])
    elif k == "call":
        v(s[1])
        for a in s[3]:
            v(a)
    elif k == "deref":
        v(s[2])
    elif k == "if":
        c(s[1]); locals_of(s[2], acc); locals_of(s[3], acc)
    elif k == "while":
        c(s[1]); locals_of(s[2], acc)
    elif k == "return":
        v(s[1])
    elif k == "conv":
        v(s[1])
    elif k == "calli":
        v(s[1]); v(s[2])
        for a in s[5]:
            v(a)
    elif k == "return2":
        v(s[1]); v(s[2])
    elif k == "call2":
        v(s[1]); v(s[2])
        for a in s[4]:
            v(a)
    elif k == "retcall":
        for a in s[2]:
            v(a)
    return acc


def derefs_of(p):
    out = []

    def c(cc, f):
        if cc[0] == "cderef":
            out.append((cc[1], f))
        elif cc[0] == "not":
            c(cc[1], f)
        elif cc[0] in ("and", "or"):
            c(cc[1], f); c(cc[2], f)

    def go(s, f):
        k = s[0]
        if k == "seq":
            go(s[1], f); go(s[2], f)
        elif k == "deref":
            out.append((s[1], f))
        elif k == "calli":
            out.append((s[7], f))
        elif k == "if":
            c(s[1], f); go(s[2], f); go(s[3], f)
        elif k == "while":
            c(s[1], f); go(s[2], f)

    for i, fd in enumerate(p["funcs"]):
        go(fd["body"], i)
    return out


# ---------------------------------------------------------------- Go printer

MODULE = "ex.com/mg"


class Printer:
    """Prints one program as Go packages.  `style` (a random.Random or None) picks among equivalent spellings."""

    def __init__(self, p, name, style=None):
        self.p, self.name, self.style = p, name, style
        self.pos = {}  # deref id -> (relative file, line, col)
        self.cpos = {}  # call site id -> (relative file, line, col of the identifier naming the callee, col of its first argument)
        self.sret = set()  # (relative file, line) of the returns whose error operand is the sentinel

    def pick(self, n):
        return self.style.randrange(n) if self.style is not None else 0

    def pkgname(self, k):
        return "%sp%d" % (self.name, k)

    def pkgpath(self, k):
        return "%s/%s/p%d" % (MODULE, self.name, k)

    def fname(self, f):
        fd = self.p["funcs"][f]
        if fd.get("impl"):
            j, m = fd["impl"]
            return "X%dx%d" % (self.owner(self.p["impls"][j]["iface"], m), m)
        return ("M%d" if fd.get("method") else "F%d") % f

    def owner(self, ik, m):
        """the interface that first declares method m of I_ik (an interface may repeat the methods of its base)"""
        b = self.p["ifaces"][ik].get("base")
        if b is not None and m < len(self.p["ifaces"][b]["methods"]):
            return self.owner(b, m)
        return ik

    def tyname(self, ty, k):
        """Go type of a MiniGo type: 'T' -> *T, ('I', i) -> I<i> (declared in package 0)"""
        q = "" if k == 0 else self.pkgname(0) + "."
        if ty == "T":
            return "*" + q + "T"
        if ty == "E":
            return "error"
        if ty == "B":
            return "bool"
        return "%sI%d" % (q, ty[1])

    def implname(self, j, k):
        ip = self.p["impls"][j]["pkg"]
        return ("" if ip == k else self.pkgname(ip) + ".") + "S%d" % j

    def ltype(self, fd, n):
        if n < fd["nparams"]:
            return (fd.get("ptypes") or ["T"] * fd["nparams"])[n]
        return (fd.get("ltypes") or {}).get(n, "T")

    def var(self, v, k):
        if v[0] == "L":
            if v[1] < self.cur_np:
                return "p%d" % v[1]
            return {"T": "x%d", "E": "e%d", "B": "b%d"}.get(self.ltype(self.cur_fd, v[1]), "y%d") % v[1]
        gk = self.p["gpkg"][v[1]]
        return ("G%d" % v[1]) if gk == k else "%s.G%d" % (self.pkgname(gk), v[1])

    def atom(self, a, k):
        """-> (text, [(cs, offset of the call expression, offset of its first argument)])"""
        if a == "nil":
            return "nil", []
        if isinstance(a, tuple) and a[0] == "nest":
            return self.callexpr(a[1], a[2], k, a[3])
        if isinstance(a, tuple) and a[0] == "conv":
            return self.convexpr(a[1], a[2], k), []
        if isinstance(a, tuple) and a[0] == "iconv":
            # a value of interface type I_k2 where an I_k is expected: implicit, or spelled as a conversion
            y = self.var(a[3], k)
            it = self.tyname(("I", a[1]), k)
            # (not through a slice literal or append: the analysis takes what is read back from those for non-nil,
            # which is right for a fresh &S{} but not for a variable;
            # nor as an explicit conversion I(y): the analysis takes the result of a conversion expression for non-nil)
            return y, []
        if a == "new":
            return ["&%s{}", "new(%s)"][self.pick(2)] % self.T(k), []
        return self.var(a, k), []

    def T(self, k):
        return "T" if k == 0 else self.pkgname(0) + ".T"

    def convexpr(self, ik, j, k):
        """a value of the concrete type S_j where an interface is expected (an implicit conversion)"""
        im = self.p["impls"][j]
        if im.get("valrecv") and self.pick(2) == 1:
            v = "%s{}" % self.implname(j, k)
        else:
            v = "&%s{}" % self.implname(j, k)
        # the conversion may also happen inside a composite literal or an append (other conversion sites for the
        # analysis; the value that comes out is the same)
        sp = self.pick(9) if self.convsites else 0
        it = self.tyname(("I", ik), k)
        if sp == 8:
            return "%s(%s)" % (it, v)
        if sp == 4:
            return "[]%s{%s}[0]" % (it, v)
        if sp == 5:
            return "[1]%s{%s}[0]" % (it, v)
        if sp == 6:
            return "append([]%s(nil), %s)[0]" % (it, v)
        if sp == 7:
            return "append([]%s{}, %s)[0]" % (it, v)
        return v

    def calliexpr(self, xi, ik, m, args, k, cs):
        head = self.var(xi, k)
        text = head + ".X%dx%d(" % (self.owner(ik, m), m)
        sites = []
        for i, a in enumerate(args):
            if i:
                text += ", "
            t, ss = self.atom(a, k)
            sites += [(c, oc + len(text), oa + len(text), ff) for c, oc, oa, ff in ss]
            text += t
        return text + ")", sites

    def callexpr(self, f, args, k, cs):
        fd = self.p["funcs"][f]
        sites = []
        if fd.get("method"):
            # receiver = first argument; a nil literal receiver needs a typed conversion
            r = args[0]
            if r == "nil":
                head = "(*%s)(nil)" % self.T(k)
            elif r == "new":
                head = "(&%s{})" % self.T(k)
            else:
                head, rs = self.atom(r, k)
                sites += rs
            head += ".%s(" % self.fname(f)
            rest = args[1:]
        else:
            q = "" if fd["pkg"] == k else self.pkgname(fd["pkg"]) + "."
            head = "%s%s(" % (q, self.fname(f))
            rest = args
        text = head
        arg0 = None
        for i, a in enumerate(rest):
            if i:
                text += ", "
            if arg0 is None:
                arg0 = len(text)
            t, ss = self.atom(a, k)
            sites += [(c, oc + len(text), oa + len(text), ff) for c, oc, oa, ff in ss]
            text += t
        text += ")"
        # a call site is located by the identifier that names the callee (`F` in `p.F(x)`, `M` in `x.M(y)`): the calls of a
        # chain share the position of their leftmost operand (finding F108)
        sites.append((cs, len(head) - len(self.fname(f)) - 1, arg0 if arg0 is not None else 0, f))
        return text, sites

    # conditions: returns text; records deref columns relative to the start of the returned text
    def cond(self, c, k, neg=False):
        kind = c[0]
        if kind == "opaque":
            return ("!rt.Opaque()" if neg else "rt.Opaque()"), []
        if kind == "nonnil" and self.is_bool(c[1]):
            # an ok variable: "the error is non-nil" is "not ok"
            x = self.var(c[1], k)
            forms = (["%s", "%s == true", "true == %s"] if neg else ["!%s", "%s == false", "%s != true"])
            return forms[self.pick(len(forms)) if self.okforms else 0] % x, []
        if kind == "nonnil":
            x = self.var(c[1], k)
            if not neg:
                forms = ["%s != nil", "nil != %s", "!(%s == nil)", "(%s == nil) == false", "!(nil == %s)"]
            else:
                forms = ["%s == nil", "nil == %s", "!(%s != nil)", "(%s != nil) == false", "!(nil != %s)"]
            return forms[self.pick(len(forms))] % x, []
        if kind == "cderef":
            x = self.var(c[2], k)
            pre = "!rt.Is(" if neg else "rt.Is("
            return pre + x + ".V)", [(c[1], len(pre))]
        if kind == "not":
            if self.pick(3) == 2:
                t, ds = self.cond(c[1], k, neg)
                return "!(" + t + ")", [(d, o + 2) for d, o in ds]
            return self.cond(c[1], k, not neg)
        if kind in ("and", "or"):
            op = "&&" if kind == "and" else "||"
            if neg and self.pick(2) == 1:
                # De Morgan
                op = "||" if kind == "and" else "&&"
                a, da = self.cond(c[1], k, True)
                b, db = self.cond(c[2], k, True)
            elif neg:
                t, ds = self.cond(c, k, False)
                return "!(" + t + ")", [(d, o + 2) for d, o in ds]
            else:
                a, da = self.cond(c[1], k, False)
                b, db = self.cond(c[2], k, False)
            a, da = "(" + a + ")", [(d, o + 1) for d, o in da]
            b, db = "(" + b + ")", [(d, o + 1) for d, o in db]
            return a + " " + op + " " + b, da + [(d, o + len(a) + len(op) + 2) for d, o in db]
        raise ValueError(c)

    convsites = True   # spell conversions also through composite literals and append
    okforms = True     # spell ok tests also as comparisons with the constants

    def is_bool(self, v):
        return v[0] == "L" and v[1] >= self.cur_np and self.ltype(self.cur_fd, v[1]) == "B"

    def errexpr(self, ev, k, ok):
        """the second operand of a return / the right-hand side of an assignment to an error or ok variable"""
        if ok:
            return "true" if ev == "nil" else ("false" if ev == "new" else self.var(ev, k))
        if ev == "nil":
            return "nil"
        if ev == "new":
            if self.p.get("sentinel") and self.pick(2) == 1:
                sk = self.p["sentinel_pkg"]
                self.used_sentinel = True
                return ("" if sk == k else self.pkgname(sk) + ".") + "ErrS"
            return 'errors.New("x")'
        return self.var(ev, k)

    def emit(self, text, derefs=(), calls=()):
        self.lines.append(text)
        ln = len(self.lines)
        for d, col in derefs:
            self.pos[d] = (self.curfile, ln, col + 1)
        for cs, oc, oa, ff in calls:
            self.cpos[cs] = (self.curfile, ln, oc + 1, oa + 1, ff)

    def stmt(self, s, k, ind):
        t = "\t" * ind
        kind = s[0]
        if kind == "skip":
            return
        if kind == "seq":
            self.stmt(s[1], k, ind); self.stmt(s[2], k, ind)
        elif kind == "assign" and s[1][0] == "L" and self.ltype(self.cur_fd, s[1][1]) in ("E", "B") and s[1][1] >= self.cur_np:
            self.emit("%s%s = %s" % (t, self.var(s[1], k), self.errexpr(s[2], k, self.is_bool(s[1]))))
        elif kind == "assign" and isinstance(s[2], tuple) and s[2][0] == "conv" and self.convsites and self.pick(5) == 4:
            # a declaration with an initial value is a conversion site of its own
            self.ntmp = getattr(self, "ntmp", 0) + 1
            self.emit("%svar c%d %s = %s" % (t, self.ntmp, self.tyname(("I", s[2][1]), k), self.convexpr(s[2][1], s[2][2], k)))
            self.emit("%s%s = c%d" % (t, self.var(s[1], k), self.ntmp))
        elif kind == "assign":
            lhs, rhs = self.var(s[1], k), self.atom(s[2], k)[0]
            sp = self.pick(10)
            if sp == 8 and lhs != "_":
                # a tuple assignment whose other left-hand side is blank: the same single assignment
                self.emit("%s%s, _ = %s, 0" % (t, lhs, rhs))
            elif sp == 9 and lhs != "_":
                self.emit("%s_, %s = 0, %s" % (t, lhs, rhs))
            else:
                self.emit("%s%s = %s" % (t, lhs, rhs))
        elif kind == "call":
            lhs = "_" if s[1] is None else self.var(s[1], k)
            ct, sites = self.callexpr(s[2], s[3], k, s[4])
            if s[1] is None and self.pick(2) == 1:
                pre = t
            else:
                pre = "%s%s = " % (t, lhs)
            self.emit(pre + ct, calls=[(c, oc + len(pre), oa + len(pre), ff) for c, oc, oa, ff in sites])
        elif kind == "deref":
            x = self.var(s[2], k)
            pre = "%srt.Use(" % t
            fld = ".W)" if (self.cur_fd.get("impl") and s[2] == ("L", 0)) else ".V)"
            if self.pick(6) == 5:
                # the selector wrapped onto the next line: the dereference is still reported at the start of `x`
                self.emit(pre + x + ".", [(s[1], len(pre))])
                self.emit("%s\t%s" % (t, fld[1:]))
            else:
                self.emit(pre + x + fld, [(s[1], len(pre))])
        elif kind == "if":
            self.if_stmt(s, k, ind)
        elif kind == "while":
            c, ds = self.cond(s[1], k)
            pre = "%sfor " % t
            self.emit(pre + c + " {", [(d, o + len(pre)) for d, o in ds])
            self.stmt(s[2], k, ind + 1)
            self.emit(t + "}")
        elif kind == "return":
            # a spelling: the result in (redundant) parentheses
            self.emit(("%sreturn (%s)" if self.pick(6) == 5 else "%sreturn %s") % (t, self.atom(s[1], k)[0]))
        elif kind == "return2":
            self.used_sentinel = False
            et = self.errexpr(s[2], k, self.cur_fd.get("okform"))
            at = self.atom(s[1], k)[0]
            if self.pick(6) == 5:
                at = "(%s)" % at          # the value result in (redundant) parentheses
            sent = self.used_sentinel
            if self.cur_fd.get("named"):
                # (a bare return hides a constant ok operand in a variable: outside the convention as NilAway reads it)
                sp = 2 if self.cur_fd.get("okform") else self.pick(3)
                if sp == 0:
                    self.emit("%sr0, r1 = %s, %s" % (t, at, et))
                    self.emit("%sreturn" % t)
                elif sp == 1:
                    self.emit("%sr0 = %s" % (t, at))
                    self.emit("%sr1 = %s" % (t, et))
                    self.emit("%sreturn" % t)
                else:
                    self.emit("%sreturn %s, %s" % (t, at, et))
            else:
                self.emit("%sreturn %s, %s" % (t, at, et))
            if sent:
                self.sret.add((self.curfile, len(self.lines)))
        elif kind == "retcall":
            ct, sites = self.callexpr(s[1], s[2], k, s[3])
            pre = "%sreturn " % t
            self.emit(pre + ct, calls=[(c, oc + len(pre), oa + len(pre), ff) for c, oc, oa, ff in sites])
        elif kind == "call2":
            ct, sites = self.callexpr(s[3], s[4], k, s[5])
            pre = "%s%s, %s = " % (t, "_" if s[1] is None else self.var(s[1], k), "_" if s[2] is None else self.var(s[2], k))
            self.emit(pre + ct, calls=[(c, oc + len(pre), oa + len(pre), ff) for c, oc, oa, ff in sites])
        elif kind == "conv":
            if self.convsites and self.pick(5) == 4:
                # a declaration with an initial value is a conversion site of its own
                self.ntmp = getattr(self, "ntmp", 0) + 1
                self.emit("%svar c%d %s = %s" % (t, self.ntmp, self.tyname(("I", s[2]), k), self.convexpr(s[2], s[3], k)))
                self.emit("%s%s = c%d" % (t, self.var(s[1], k), self.ntmp))
            else:
                self.emit("%s%s = %s" % (t, self.var(s[1], k), self.convexpr(s[2], s[3], k)))
        elif kind == "calli":
            lhs = "_" if s[1] is None else self.var(s[1], k)
            ct, sites = self.calliexpr(s[2], s[3], s[4], s[5], k, s[6])
            pre = t if (s[1] is None and self.pick(2) == 1) else "%s%s = " % (t, lhs)
            self.emit(pre + ct, derefs=[(s[7], len(pre))], calls=[(c, oc + len(pre), oa + len(pre), ff) for c, oc, oa, ff in sites])

    def if_stmt(self, s, k, ind):
        t = "\t" * ind
        c, a, b = s[1], s[2], s[3]
        # switch spellings for a plain nil test
        base = c[1] if c[0] == "not" and c[1][0] == "nonnil" else c
        isnil_test = c[0] == "not" and c[1][0] == "nonnil"
        if base[0] == "nonnil" and not self.is_bool(base[1]) and self.pick(4) == 3:
            x = self.var(base[1], k)
            nilbr, nonbr = (a, b) if isnil_test else (b, a)
            if self.pick(2) == 0:
                self.emit("%sswitch %s {" % (t, x))
                self.emit("%scase nil:" % t)
                self.stmt(nilbr, k, ind + 1)
                self.emit("%sdefault:" % t)
                self.stmt(nonbr, k, ind + 1)
            else:
                self.emit("%sswitch {" % t)
                self.emit("%scase %s == nil:" % (t, x))
                self.stmt(nilbr, k, ind + 1)
                self.emit("%sdefault:" % t)
                self.stmt(nonbr, k, ind + 1)
            self.emit(t + "}")
            return
        neg = False
        if b != ("skip",) and self.pick(3) == 2:
            a, b, neg = b, a, True
        ct, ds = self.cond(c, k, neg)
        pre = "%sif " % t
        self.emit(pre + ct + " {", [(d, o + len(pre)) for d, o in ds])
        self.stmt(a, k, ind + 1)
        if b != ("skip",):
            self.emit(t + "} else {")
            self.stmt(b, k, ind + 1)
        self.emit(t + "}")

    def files(self):
        """-> {relative path: text}"""
        p = self.p
        out = {}
        for k in range(p["npkgs"]):
            self.lines = []
            self.curfile = "%s/p%d/a.go" % (self.name, k)
            self.emit("package %s" % self.pkgname(k))
            self.emit("")
            self.emit("import (")
            self.emit('\t"errors"')
            self.emit("")
            self.emit('\t"%s/rt"' % MODULE)
            for j in self.imports_of(k):
                self.emit('\t"%s"' % self.pkgpath(j))
            self.emit(")")
            self.emit("")
            self.emit("var _ = rt.Opaque")
            self.emit("var _ = errors.New")
            if k == 0:
                self.emit("type T struct{ V int }")
                for ik, itf in enumerate(p.get("ifaces") or []):
                    self.emit("")
                    self.emit("type I%d interface {" % ik)
                    for m, md in enumerate(itf["methods"]):
                        self.emit("\tX%dx%d(%s) *T" % (self.owner(ik, m), m, ", ".join("a%d %s" % (i, self.tyname(ty, 0)) for i, ty in enumerate(md["ptypes"]))))
                    self.emit("}")
            else:
                self.emit("var _ *%s" % self.T(k))
            for j, im in enumerate(p.get("impls") or []):
                if im["pkg"] == k:
                    if im.get("embed"):
                        # the methods are declared on an embedded struct and promoted
                        self.emit("type S%dB struct{ W int }" % j)
                        self.emit("type S%d struct{ S%dB }" % (j, j))
                    else:
                        self.emit("type S%d struct{ W int }" % j)
            if p.get("sentinel") and p["sentinel_pkg"] == k:
                self.emit('var ErrS = errors.New("s")')
            for g, gk in enumerate(p["gpkg"]):
                if gk == k:
                    if p["ginit"][g]:
                        self.emit("var G%d *%s = &%s{}" % (g, self.T(k), self.T(k)))
                    else:
                        self.emit("var G%d *%s" % (g, self.T(k)))
            self.emit("")
            # the driver runs the entry point many times in one process: put the package-level variables back
            self.emit("func Reset() {")
            for g, gk in enumerate(p["gpkg"]):
                if gk == k:
                    self.emit("\tG%d = %s" % (g, ("&%s{}" % self.T(k)) if p["ginit"][g] else "nil"))
            self.emit("}")
            self.emit("")
            for f, fd in enumerate(p["funcs"]):
                if fd["pkg"] != k:
                    continue
                self.cur_np = fd["nparams"]
                self.cur_fd = fd
                ptypes = fd.get("ptypes") or ["T"] * fd["nparams"]
                params = ["p%d %s" % (i, self.tyname(ptypes[i], k)) for i in range(fd["nparams"])]
                rty = self.tyname(fd.get("rtype", "T"), k)
                if fd.get("err"):
                    second = "bool" if fd.get("okform") else "error"
                    rty = ("(r0 %s, r1 %s)" if fd.get("named") else "(%s, %s)") % (rty, second)
                if fd.get("impl"):
                    j, m = fd["impl"]
                    recv = ("p0 S%d" if p["impls"][j].get("valrecv") else "p0 *S%d") % j + ("B" if p["impls"][j].get("embed") else "")
                    self.emit("func (%s) %s(%s) %s {" % (recv, self.fname(f), ", ".join(params[1:]), rty))
                elif fd.get("method"):
                    self.emit("func (p0 *T) %s(%s) %s {" % (self.fname(f), ", ".join(params[1:]), rty))
                else:
                    self.emit("func %s(%s) %s {" % (self.fname(f), ", ".join(params), rty))
                ls = sorted(x for x in locals_of(fd["body"]) if x >= fd["nparams"])
                bytype = {}
                for x in ls:
                    bytype.setdefault(self.tyname(self.ltype(fd, x), k), []).append(x)
                for tn in sorted(bytype):
                    names = [("x%d" if tn.startswith("*") else ("e%d" if tn == "error" else ("b%d" if tn == "bool" else "y%d"))) % x for x in bytype[tn]]
                    if tn == "bool":
                        # an unassigned error is nil: an unassigned ok is true
                        self.emit("\tvar %s %s = %s" % (", ".join(names), tn, ", ".join("true" for _ in names)))
                    else:
                        self.emit("\tvar %s %s" % (", ".join(names), tn))
                    self.emit("\t%s = %s" % (", ".join("_" for _ in names), ", ".join(names)))
                self.stmt(fd["body"], k, 1)
                if falls(fd["body"]):
                    self.emit(("\treturn nil, true" if fd.get("okform") else "\treturn nil, nil") if fd.get("err") else "\treturn nil")
                self.emit("}")
                self.emit("")
            out[self.curfile] = "\n".join(self.lines) + "\n"
        return out

    def imports_of(self, k):
        p = self.p
        deps = set([0]) if k != 0 else set()

        def v(x):
            if isinstance(x, tuple) and x[0] == "G" and p["gpkg"][x[1]] != k:
                deps.add(p["gpkg"][x[1]])
            if isinstance(x, tuple) and x[0] == "nest":
                fd = p["funcs"][x[1]]
                if fd["pkg"] != k and not fd.get("method"):
                    deps.add(fd["pkg"])
                for a in x[2]:
                    v(a)
            if isinstance(x, tuple) and x[0] == "conv":
                if p["impls"][x[2]]["pkg"] != k:
                    deps.add(p["impls"][x[2]]["pkg"])

        def c(cc):
            if cc[0] == "nonnil":
                v(cc[1])
            elif cc[0] == "cderef":
                v(cc[2])
            elif cc[0] == "not":
                c(cc[1])
            elif cc[0] in ("and", "or"):
                c(cc[1]); c(cc[2])

        def go(s):
            kind = s[0]
            if kind == "seq":
                go(s[1]); go(s[2])
            elif kind == "assign":
                v(s[1]); v(s[2])
            elif kind == "call":
                v(s[1])
                for a in s[3]:
                    v(a)
                fd = p["funcs"][s[2]]
                if fd["pkg"] != k and not fd.get("method"):
                    deps.add(fd["pkg"])
            elif kind == "deref":
                v(s[2])
            elif kind == "if":
                c(s[1]); go(s[2]); go(s[3])
            elif kind == "while":
                c(s[1]); go(s[2])
            elif kind == "return":
                v(s[1])
            elif kind == "return2":
                v(s[1]); v(s[2])
            elif kind == "call2":
                v(s[1]); v(s[2])
                for a in s[4]:
                    v(a)
                fd = p["funcs"][s[3]]
                if fd["pkg"] != k:
                    deps.add(fd["pkg"])
            elif kind == "retcall":
                for a in s[2]:
                    v(a)
                if p["funcs"][s[1]]["pkg"] != k:
                    deps.add(p["funcs"][s[1]]["pkg"])
            elif kind == "conv":
                v(s[1])
                if p["impls"][s[3]]["pkg"] != k:
                    deps.add(p["impls"][s[3]]["pkg"])
            elif kind == "calli":
                v(s[1]); v(s[2])
                for a in s[5]:
                    v(a)

        for fd in p["funcs"]:
            if fd["pkg"] == k:
                go(fd["body"])
        return sorted(deps)


RT_GO = """// Package rt is the run-time support of the generated MiniGo programs: the opaque conditions, answered from a bit vector set by the driver (false once it is used up).
package rt

var bits []bool
var overflow bool

// Marked is set by the driver's probes (e.g. "this call returned nil").
var Marked bool

func SetBits(b []bool) { bits = b; overflow = false; Marked = false }

// Overflowed reports whether a condition was asked after the answers were used up (the run is then only one of
// the executions that continue with "false").
func Overflowed() bool { return overflow }

func Opaque() bool {
	if len(bits) == 0 {
		overflow = true
		return false
	}
	b := bits[0]
	bits = bits[1:]
	return b
}

func Is(v int) bool { return Opaque() }

var sink int

func Use(v int) { sink += v }
"""
