"""C20: inferred nonnil->nonnil contracts are true and never hide a nil argument.  Theorems props/C20.v (infer_sem sound;
whole-analysis soundness with call-site sites and duplicated controlled triggers) + progfuzz with many one-parameter
functions: (a) every contract the real tool infers is accepted by the model's inference, (b) the real contract map
against run-time (argument non-nil, result nil?) probes, (c) the call-site bookkeeping (real triggers == model),
(d) the statement on (real diagnostics, real panics) for programs that call contracted functions."""
import os
import re
import random

from . import common
from . import wholetool as wt
from . import progfuzz as PF
from . import progcorpus as PC
from . import c01


def run(ctx):
    ok, msg = ctx.build_tools()
    if not ok:
        ctx.obligation("tools build against /repo (hooks enabled)", False)
        ctx.violation("build", msg, found_input=False)
        ctx.write_evidence()
        return
    ctx.regen("all")
    okp, log = ctx.prove("props/C20.v", "C20")
    known_ids = set(k["id"] for k in ctx.known_for())

    corpus = PC.c20_cases()
    rc = PF.run_suite(ctx, corpus, nb=4)
    ctx.obligation("corpus (known finding F4, regression programs of the repaired F3, F21, F23, F27, F28) ran", "error" not in rc)
    if "error" in rc:
        ctx.violation("corpus", rc["error"], found_input=False)
        ctx.write_evidence()
        return
    reg_bad = []
    for c in corpus:
        o = rc["obs"][c.name]
        silent = not o["reports"] and not o["other"]
        if c.name == "kf4xpkg":
            if o["panics"] and silent:
                if "F4" in known_ids:
                    ctx.known_finding("F4", "a nil argument passed to a contracted callee of another package is hidden: clean in the real tool, panics (corpus program kf4xpkg)")
                else:
                    ctx.violation("corpus-kf4xpkg", "C20 fails: a nil argument of a contracted callee is hidden\n" + PF.describe(c, o))
        elif o["panics"] and silent:
            reg_bad.append(c.name)
            ctx.violation("corpus-" + c.name, "C20 fails on a regression program (a repaired finding is back)\n" + PF.describe(c, o))
    ctx.obligation("regression programs of the repaired findings are reported", not reg_bad)

    # Go-source regression programs (spellings outside MiniGo: method expressions, error variables of undecided nilness)
    gd0 = os.path.join(common.VERIF, "corpus", "c20")
    gbad = []
    from . import texture
    import shutil
    tscratch = ctx.scratch()
    try:
        # the corpus as written, and as generated code tends to look (checks/texture.py): the call-site bookkeeping of
        # contracts keys sites by positions, which //line directives adjust
        for kind in (None,) + texture.TEXTURES:
            gd = gd0 if kind is None else texture.make(gd0, kind, tscratch)
            tag = "" if kind is None else " [texture %s]" % kind
            gr, gerr = wt.analyze(gd)
            if gr is None:
                gbad.append("the real tool failed on corpus/c20%s: %s" % (tag, gerr))
                continue
            afile = [f for f in os.listdir(os.path.join(gd, "a")) if f.endswith("a.go")][0]
            ranges = wt.func_ranges(os.path.join(gd, "a", afile))
            hit = lambda lo, hi: [d for d in gr["diags"] or [] if d["file"].endswith("a.go") and lo <= d["line"] <= hi]
            for fn, (lo, hi) in sorted(ranges.items()):
                if fn.startswith("Bad") and not hit(lo, hi):
                    gbad.append("%s (corpus/c20/a/a.go:%d-%d%s) dereferences the result of a contracted function called with a possibly-nil argument (or of a function that must not get a contract) and is not reported" % (fn, lo, hi, tag))
                mk = re.match(r"Known(F\d+)", fn)
                if mk and kind is None and not hit(lo, hi):
                    if any(k["id"] == mk.group(1) for k in ctx.known_for()):
                        ctx.known_finding(mk.group(1), "%s (corpus/c20/a/a.go:%d-%d) dereferences the result of a function with an inferred contract that returns nil for a non-nil argument, unreported" % (fn, lo, hi))
                    else:
                        gbad.append("%s (corpus/c20/a/a.go:%d-%d) is not reported" % (fn, lo, hi))
                if fn.startswith("Ok") and hit(lo, hi):
                    gbad.append("%s (corpus/c20/a/a.go:%d-%d%s) is reported: %s" % (fn, lo, hi, tag, hit(lo, hi)[0]["message"][:200]))
    finally:
        shutil.rmtree(tscratch, ignore_errors=True)
    ctx.obligation("Go-source regression programs of the repaired findings F27-F29, F42-F45 (corpus/c20), as written and under the five textures (empty first line, %-file name, //line directive, CRLF, redundant parentheses): every Bad* function reported, no Ok* function reported", not gbad)
    for m in gbad[:3]:
        ctx.violation("gocorpus", "C20 fails on the real tool: %s\nreplay: bin/harness analyze -dir corpus/c20\n" % m)

    # regression modules of repaired findings (marker corpora, all textures)
    from . import markers as _mk
    _mk.corpus_modules(ctx, "c20r", "contracts: repaired findings")

    # two-directional tie of the inference itself: the extracted transcription (model M10, coq/model/Infer.v) against the
    # real inferContracts on the abstract SSA form of every candidate function of the standard library, of nilaway's own
    # packages, of the corpora and of generated programs
    from . import infer_suite as IS
    import shutil
    irng = random.Random(ctx.seed * 15485863 + 20)
    gd = IS.gen_module(ctx, irng, 400 if ctx.tier == "quick" else 4000)
    try:
        targets = [(os.path.join(common.VERIF, "corpus", "c10"), ["std"]), (common.REPO, ["./..."]), (os.path.join(common.VERIF, "corpus", "c20"), []), (gd, [])]
        ir = IS.correspond(targets)
    finally:
        shutil.rmtree(gd, ignore_errors=True)
    ctx.obligation("inference correspondence suite ran", not ir["errors"] and len(ir["funcs"]) > 0)
    for e in ir["errors"][:2]:
        ctx.violation("infer-suite", e, found_input=False)
    ctx.obligation("correspondence (two-directional): real inferContracts == extracted model infer on %d functions (standard library, nilaway, corpora, generated programs; %d with a nil comparison, %d with phis, up to %d blocks; the real tool infers %d contracts)" % (
        len(ir["funcs"]), ir["with_branch"], ir["with_phi"], ir["maxblocks"], ir["inferred"]), not ir["mism"] and not ir["panics"] and not ir["nofuel"])
    # translation validation for theorem C20_inferred_contract_true: the final state of the transcribed work list is a
    # post-fixpoint (`stable`) on every function seen, the abstract SSA forms are well-formed, and every contract
    # inferred for a plain function passed infer_checked (= the theorem's hypothesis)
    ctx.obligation("inference soundness hypotheses: all %d abstract SSA forms are well-formed (wf_fn, wf_cfg), the final state of inferContracts is a post-fixpoint (stable) on each (as C20_worklist_ends_in_postfixpoint proves), and all %d contracts inferred satisfy the hypothesis of C20_inferred_contract_true; the in-step semantics of wrapper values is exact (semiplain) for %d functions, %d of the inferred ones (plain: %d / %d)" % (
        len(ir["funcs"]), ir["inferred"], ir["semiplain"], ir["inferred_semiplain"], ir["plain"], ir["inferred_plain"]),
        not ir["unstable"] and not ir["illformed"] and not ir["unvalidated"] and ir["inferred_validated"] == ir["inferred"])
    ctx.coverage.update({"inference_functions": len(ir["funcs"]), "inference_contracts": ir["inferred"],
                         "inference_plain_functions": ir["plain"], "inference_semiplain_functions": ir["semiplain"],
                         "inference_contracts_covered_by_soundness_theorem": ir["inferred_validated"], "inference_contracts_semiplain": ir["inferred_semiplain"]})
    imism = ir["mism"]

    rng = random.Random(ctx.seed * 32452843 + 20)
    n = 400 if ctx.tier == "quick" else 6000
    batch = 400 if ctx.tier == "quick" else 1000
    allc, allo = [], {}
    bad = {"infer": [], "untrue": [], "corr": [], "unsound": [], "known:F4": [], "known:F2": []}
    ncontracts = nprobed = nmodel = 0
    for b in range(0, n, batch):
        cases = PF.gen_cases(rng, min(batch, n - b), streams=("random", "random", "random", "lone"), prefix="k%d" % (b // batch))
        r = PF.run_suite(ctx, cases, styles_seed=ctx.seed + 20 + b)
        if "error" in r:
            ctx.obligation("progfuzz suite ran", False)
            ctx.violation("suite", r["error"], found_input=False)
            ctx.write_evidence()
            return
        for c in cases:
            o = r["obs"][c.name]
            ncontracts += len(o["ctr"])
            nmodel += len(o["model"]["infer"])
            for f in sorted(o["ctr"]):
                if f not in o["model"]["infer"]:
                    bad["infer"].append((c, o, f))
                if o["probes"].get(f) is not None:
                    nprobed += 1
                    if o["probes"][f]:
                        bad["untrue"].append((c, o, f))
            # a package-level variable re-assigned by a callee (F2) is C01's business, not a contract matter
            for (kind, m, found) in c01.classify(c, o, known_ids | {"F2"}):
                if kind in ("corr-trig", "corr-exec", "corr-diag"):
                    bad["corr"].append((c, o, m))
                elif kind == "unsound":
                    bad["unsound"].append((c, o, m))
                elif kind in ("known:F4", "known:F2"):
                    bad[kind].append((c, o, m))
        allc += cases
        allo.update(r["obs"])
    ctx.obligation("progfuzz suite ran", True)
    # the real inference accepts a body the model rejects: isolate the body (stubbed callees, free package-level
    # values) and look for a run that returns nil for a non-nil argument, and for the caller that panics silently
    if bad["infer"] and not bad["untrue"]:
        vs = [PF.Case("i%03d%d" % (i, j), PF.isolate(c.prog, f), "search") for i, (c, o, f) in enumerate(bad["infer"][:10]) for j in range(6)]   # 6 spellings each
        vs += [PF.Case("j%03d%d" % (i, j), PF.isolate_globals(c.prog, f), "search") for i, (c, o, f) in enumerate(bad["infer"][:10]) for j in range(4)]
        rs = PF.run_suite(ctx, vs, styles_seed=ctx.seed + 77, nb=6)
        if "error" not in rs:
            for c in vs:
                o = rs["obs"][c.name]
                if 1 in o["ctr"] and o["probes"].get(1):
                    bad["untrue"].append((c, o, 1))
    ctx.obligation("correspondence (inference): each of the %d contracts the real tool inferred is accepted by infer_sem (model accepts %d)" % (ncontracts, nmodel), not bad["infer"])
    ctx.obligation("oracle on the real tool: no inferred contract is contradicted at run time (%d contracted functions probed with a non-nil argument under all opaque vectors)" % nprobed, not bad["untrue"])
    ctx.obligation("correspondence (call-site bookkeeping): real triggers / diagnostics / executions == model on %d programs" % len(allc), not bad["corr"])
    ctx.obligation("oracle on the real tool: no program that calls contracted functions panics while clean", not bad["unsound"])
    st = PF.stats(allc, allo)
    st["contracts_inferred_by_real_tool"] = ncontracts
    st["contracts_accepted_by_model"] = nmodel
    ctx.coverage.update({"evaluations": st["executions"] + nprobed * (1 << PF.NB), "distinct_nontrivial": st["with_contracts"],
                         "rule": "generated programs with one-parameter functions of contract-prone shapes (guarded returns, early returns on nil, returning the parameter, loops overwriting it, opaque nil returns) called with literal, allocated and variable arguments from the same and other packages; non-trivial = the real tool inferred at least one contract in the program",
                         "distribution": st})
    for c in [c for c in allc if allo[c.name]["ctr"]][:2]:
        ctx.sample(PF.describe(c, allo[c.name])[:1500])
    for (c, o, m) in bad["known:F4"][:2]:
        ctx.known_finding("F4", "%s: program %s is clean in the real tool and panics" % (m, c.name))
    for (c, o, f) in bad["untrue"][:3]:
        ctx.violation("untrue", "C20 fails on the real tool: function F%d has an inferred nonnil->nonnil contract and returns nil for a non-nil argument\n%s" % (f, PF.describe(c, o)))
    for (c, o, m) in bad["unsound"][:3]:
        ctx.violation("unsound", "C20 fails on the real tool: %s\n%s" % (m, PF.describe(c, o)))
    if not ctx.violations:
        for (f, m) in imism[:2]:
            ctx.violation("infer-correspondence", "model M10 (coq/model/Infer.v) and the real inferContracts disagree (the model says %s): theorems about the inference no longer speak about the code; no run returning nil for a non-nil argument was found among the probes\n%s" % (
                {"I": "inferred", "N": "not inferred"}.get(m, m), IS.describe(f)), found_input=False)
        for f in (ir["unstable"] + ir["unvalidated"])[:1]:
            ctx.violation("infer-unstable", "the final state of the contract inference is not a post-fixpoint on this function (some table of a block, pushed over an edge, is missing from the successor): theorem C20_inferred_contract_true does not apply to what the inference returns; no run returning nil for a non-nil argument was found among the probes\n%s" % IS.describe(f), found_input=False)
        for f in ir["illformed"][:1]:
            ctx.violation("infer-illformed", "the abstract SSA form of this function is not well-formed (a nil comparison with equal successors, the parameter defined by an instruction, an entry block with predecessors, or a block with the same predecessor twice): the semantics of proofs/InferSound.v does not describe it\n%s" % IS.describe(f), found_input=False)
        for f in (ir["panics"] + ir["nofuel"])[:1]:
            ctx.violation("infer-run", "the real inference panicked / the model ran out of fuel on\n%s" % IS.describe(f), found_input=False)
        for (c, o, f) in bad["infer"][:3]:
            ctx.violation("inference", "the real tool infers a contract for F%d that the model's inference (the strongest sound intraprocedural one, C20_contract_true) rejects; no run returning nil for a non-nil argument was found among the probes\n%s" % (f, PF.describe(c, o)), found_input=False)
        for (c, o, m) in bad["corr"][:2]:
            ctx.violation("correspondence", "the model and the implementation disagree (%s); theorems C20_* no longer speak about the code\n%s" % (m, PF.describe(c, o)), found_input=False)
    if not okp and not ctx.violations:
        ctx.violation("proof", "a proof obligation of props/C20.v no longer checks:\n" + common.coq_error_excerpt(log), found_input=False)
    ctx.write_evidence(assumptions=[
        "infer_sem (model/Contract.v) is an upper bound of any sound intraprocedural inference over MiniGo, tied one-directionally (real => model) plus run-time probes; model M10 (model/Infer.v) is a transcription of functioncontracts/infer.go over the abstract SSA form rendered by the hook VerifInferAll, tied two-directionally",
        "C20_inferred_contract_true / C20_inference_is_sound: the semantics keeps a wrapper value (ChangeInterface, MakeInterface, Slice, SliceToArrayPointer, append) in step with its operand in every state; that is exact for semiplain functions (operand computed in the same block or never computed by an instruction; counted in the evidence) and an idealisation justified by SSA dominance, not formalised, for the others",
        "the semantics of the abstract SSA form (proofs/InferSound.v: envok, edge_ok, enters) is nilaway's notion of nilness: stated, not derived from the Go specification",
        "contracts about the first declared parameter of a method (receiver + one parameter) are outside the modelled fragment; the generator does not produce such methods"])


def replay(ctx, path):
    print(open(path).read())
