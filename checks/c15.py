"""C15: distinct sites never alias and a site has one identity everywhere."""
import os

from . import common
from . import keys_suite as K
from . import markers
from . import wholetool as wt


def identity_oracle(r):
    """over every InferredMap fact of a run: (a) stability: a site of package P described by (pkg, repr, deep,
    objectpath) has ONE position in all facts of all packages; (b) an importer never publishes, for a dependency's
    object, an identity the dependency itself published with a different verdict for the same tuple"""
    by_key = {}
    bad = []
    n = 0
    for f in r["facts"] or []:
        for s in f.get("sites") or []:
            n += 1
            key = (s["PkgPath"], s["Repr"], s["IsDeep"], s["Path"])
            pos = (s["File"], s["Line"], s["Col"], s["Offset"])
            if s["Path"]:
                if key in by_key and by_key[key][0] != pos:
                    bad.append("site %r has position %r in the fact of %s but %r in the fact of %s" % (key, by_key[key][0], by_key[key][1], pos, f["pkg"]))
                by_key.setdefault(key, (pos, f["pkg"]))
    # (c) injectivity inside one fact: the full tuple is the map key, so instead compare object paths: two entries of one
    # fact with the same (pkg, objectpath, deep, kind of repr) but different positions would be two objects sharing a path
    for f in r["facts"] or []:
        seen = {}
        for s in f.get("sites") or []:
            if not s["Path"]:
                continue
            k = (s["PkgPath"], s["Path"], s["IsDeep"], s["Repr"])
            pos = (s["File"], s["Offset"])
            if k in seen and seen[k] != pos:
                bad.append("fact of %s: object path %s.%s is attached to two different positions %r and %r" % (f["pkg"], s["PkgPath"], s["Path"], seen[k], pos))
            seen[k] = pos
    return n, bad


def run(ctx):
    ok, msg = ctx.build_tools()
    if not ok:
        ctx.obligation("tools build against /repo (hooks enabled)", False)
        ctx.violation("build", msg, found_input=False)
        ctx.write_evidence()
        return
    ctx.regen("all")
    okp, log = ctx.prove("props/C15.v", "C15")
    d = os.path.join(common.VERIF, "corpus", "c15")
    n, bad = markers.check_markers(d)
    ctx.obligation("whole tool on corpus/c15: %d marked uses of look-alike sites (same-named methods on different types, method vs function of one name, same-named fields/params/results/globals, same-named files in two packages), each with a twin of opposite nilability: reported iff nil reaches it" % n, n > 0 and not bad)
    # the same corpus under go vet -vettool (dependencies come from export data: positions of their objects are only
    # line-accurate there, so objects declared on one line share a token.Pos): what the in-process driver reports in
    # a package's own files must be reported there too
    from . import c03 as drivers
    a, ra = drivers.inproc(d, False)
    v, vtext = drivers.govet(d)
    vbad = []
    if a is None:
        vbad.append("in-process run failed: %s" % ra)
    else:
        for x in sorted(a - v):
            rep = [dg["pkg"] for dg in ra["diags"] if (dg["file"], dg["line"]) == (x[0], x[1])]
            if rep and any(rp.endswith(os.path.dirname(x[0])) for rp in rep):
                vbad.append("%s:%d (%s) is reported by the in-process driver while analysing its own package %s, but not under go vet -vettool: the site has another identity when its package comes from export data" % (x[0], x[1], x[2][:80], rep))
        for x in sorted(v - a):
            vbad.append("%s:%d is reported under go vet -vettool only: %s" % (x[0], x[1], x[2][:100]))
    ctx.obligation("corpus/c15 under go vet -vettool (one process per package, dependencies from export data): every finding the in-process driver reports in a package's own files is reported, and nothing else (%d findings)" % len(a or []), not vbad)
    for b in vbad[:3]:
        ctx.violation("govet-identity", "C15 fails on the real tool: %s\nreplay: cd corpus/c15 && go vet -vettool=$PWD/../../bin/nilaway ./...\n" % b)
    nsites, ibad, runs = 0, [], 0
    mods = [d, os.path.join(common.VERIF, "corpus", "c10")]
    for m in mods:
        for sanity in (False, True):
            r, err = wt.analyze(m, sanity=sanity, sites=True)
            runs += 1
            if r is None:
                ibad.append("run failed: %s" % err)
                continue
            k, b = identity_oracle(r)
            nsites += k
            ibad += ["%s (gob round trip of every fact: %s): %s" % (os.path.basename(m), sanity, x) for x in b]
    ctx.obligation("identity oracle over %d sites in the facts of %d runs (in-memory and gob round-tripped): one position per (package, repr, depth, object path) across all importers" % (nsites, runs), nsites > 0 and not ibad)
    # site-identity correspondence: real Key.String() / primitivizer.site against the extracted key_repr / site_of
    nk = 400 if ctx.tier == "quick" else 6000
    kr = K.correspond(ctx, nk)
    ctx.obligation("key correspondence suite ran", not kr["errors"])
    if kr["errors"]:
        ctx.violation("suite", "\n".join(kr["errors"]), found_input=False)
    ctx.obligation("correspondence: on %d synthetic universes (%d site queries: twelve key kinds, look-alike names across kinds / types / packages, call-site locations differing in one component, importers with exact / column-less / shifted beliefs about foreign positions, facts in memory and through gob) the real Key.String() has the model's equality pattern and the real primitivizer.site equals site_of field by field; object paths == objectpath.For" % (len(kr["cases"]), kr["nq"]),
                   not kr["errors"] and not kr["mism"] and not kr["panics"])
    ctx.obligation("oracle on the real primitivizer: injective inside every view, and a published site of a dependency has its home identity in every importer", not kr["errors"] and not kr["oracle"])
    for i, o in kr["oracle"][:2]:
        ctx.violation("identity-synthetic", "C15 fails on the real primitivizer: %s\n%s\n" % (o, kr["cases"][i].pretty()))
    if not kr["oracle"]:
        for i, d in (kr["mism"] + kr["panics"])[:2]:
            ctx.violation("correspondence", "model M3 and the real site identity disagree (theorems C15_* no longer speak about the code): %s\n%s\n" % (d, kr["cases"][i].pretty()), found_input=False)
    ctx.coverage.update({"key_queries": kr["nq"], "key_universes": len(kr["cases"])})
    ctx.coverage.update({"evaluations": n + nsites + kr["nq"], "distinct_nontrivial": n + len(set(c.line() for c in kr["cases"])),
                         "rule": "hand-written look-alike pairs; each marked line is a distinct use; non-trivial = its twin has the opposite nilability; plus every site identity found in exported facts"})
    ctx.sample("dep.Value() returns nil, (*dep.Box).Value() never does: app derefs both; only the first may be reported")
    for b in bad[:3]:
        ctx.violation("alias", "C15 fails on the real tool (two distinct sites share a verdict, or a verdict is lost): %s\nreplay: bin/harness analyze -dir corpus/c15\n" % b)
    for b in ibad[:3]:
        ctx.violation("identity", "C15 fails on the real tool: %s\n" % b)
    if not okp and not ctx.violations:
        ctx.violation("proof", "a proof obligation of props/C15.v no longer checks:\n" + common.coq_error_excerpt(log), found_input=False)
    # regression modules of repaired findings: call sites of a chain / of a selector / annotated call sites keep one identity each
    from . import markers as _mk
    _mk.corpus_modules(ctx, "c15r", "identity of call sites: chains, selector and parenthesised callees, call-site annotations")
    # known finding F111: call-site identities use //line-adjusted locations
    kf = []
    nk, bk = _mk.check_markers(os.path.join(common.VERIF, "corpus", "c15kf", "linedir"), known=kf)
    ctx.obligation("corpus/c15kf/linedir: the other %d marked uses behave as marked (two calls on different template lines are distinct sites)" % (nk - 1), nk > 1 and not bk)
    for b in bk[:2]:
        ctx.violation("corpus-c15kf", "C15 fails on the real tool: %s\nreplay: bin/harness analyze -dir corpus/c15kf/linedir\n" % b)
    if kf:
        if any(k["id"] == "F111" for k in ctx.known_for()):
            ctx.known_finding("F111", "two calls of a contracted function that `//line` directives map to one template position share one call-site identity: the nil verdict of `id(nil)` is read back for `id(x)`, %s is reported (corpus/c15kf/linedir)" % ", ".join(x[1] for x in kf))
        else:
            ctx.violation("linedir", "C15 fails on the real tool: two call sites mapped to one //line position alias: %s reported\nreplay: bin/harness analyze -dir corpus/c15kf/linedir\n" % ", ".join(x[1] for x in kf))
    # known finding F112: the object path of a field reachable through two type names differs between the dependency's own
    # view (source) and an importer's view through export data (go vet): the annotation of the field is not found
    d112 = os.path.join(common.VERIF, "corpus", "c15kf", "objpath")
    a112, ra112 = drivers.inproc(d112, False)
    v112, _ = drivers.govet(d112)
    lost = sorted(x for x in (a112 or set()) - v112 if x[0].startswith("use/"))
    ctx.obligation("corpus/c15kf/objpath: the in-process driver reports the dereference of the nilable-annotated field in the importer (reference for finding F112)", bool(a112) and any(x[0].startswith("use/") for x in a112))
    if lost:
        if any(k["id"] == "F112" for k in ctx.known_for()):
            ctx.known_finding("F112", "under go vet -vettool (dependencies from export data) the field `P` of `type \u00c4 struct{P *int}; type a \u00c4` gets the object path \u00c4.UF0 in the importer and a.UF0 in the dependency: `// nilable(P)` is not found, %s:%d is reported by the standalone driver only (corpus/c15kf/objpath)" % (lost[0][0], lost[0][1]))
        else:
            ctx.violation("objpath", "C15 fails on the real tool: %s:%d is reported by the in-process driver but not under go vet -vettool: the annotated field has another identity when its package comes from export data\nreplay: cd corpus/c15kf/objpath && go vet -vettool=$PWD/../../../bin/nilaway ./...\n" % (lost[0][0], lost[0][1]))
    ctx.write_evidence()


def replay(ctx, path):
    txt = open(path).read()
    print(txt)
    for l in txt.splitlines():
        if l.startswith("case-line: "):
            print("real:", K.run_impl([l[len("case-line: "):]])[1])
