"""C18: results do not depend on where the module lives or where the tool starts (partial: names only in the model)."""
import os
import random
import re
import shutil

from . import common
from .c12 import MOD_FILES

EXTRA = {
    "p/a/nl.go": """package a

func UseNL(p *T) int {
	return p.V //nolint:nilaway
}

func UseRep(p *T) int {
	return p.V
}
""",
    "q/c/d/deep.go": """package d

import "ex.com/sc/p/a"

func Deep() int { return a.UseNL(nil) + a.UseRep(nil) + a.Src(true).V }
""",
    # a file directly in the module root: its steps are printed as <module directory>/root.go (part of the path prefix)
    "root.go": """package sc

func RootSrc() *int { return nil }
""",
    "q/c/d/viaroot.go": """package d

import "ex.com/sc"

func ViaRoot() int { return *sc.RootSrc() }
""",
    # one nil source in package gb, dereferences in three packages of different directories, a fourth package that sees them
    # all: ONE grouped diagnostic whose head (position, text) must not depend on the start directory (finding F106)
    "g/ga/ga.go": """package ga

var G = new(int)
""",
    "g/gb/gb.go": """package gb

import "ex.com/sc/g/ga"

func Reset() { ga.G = nil }
""",
    "p/gc/gc.go": """package gc

import "ex.com/sc/g/ga"

func Read() int { return *ga.G }
""",
    "p/gc/inner/inner.go": """package inner

import "ex.com/sc/g/ga"

func Read() int { return *ga.G }
""",
    "q/gd/gd.go": """package gd

import "ex.com/sc/g/ga"

func Read() int { return *ga.G }
""",
    "g/ge/ge.go": """package ge

import (
	"ex.com/sc/g/gb"
	"ex.com/sc/p/gc"
	"ex.com/sc/p/gc/inner"
	"ex.com/sc/q/gd"
)

func Run() int {
	gb.Reset()
	return gc.Read() + inner.Read() + gd.Read()
}
""",
    # a package seven directories deep: started there, the relative name of a file elsewhere in the module ("../" seven
    # times) can be LONGER than its absolute name when the module lives at a short path
    "q/c/d/e/f/g/h/deep7.go": """package h

import "ex.com/sc/p/a"

func Deep7() int { return a.UseRep(nil) + a.Src(true).V }
""",
    "p/ab/ab.go": """package ab

import "ex.com/sc/p/a"

func Sibling() int { return a.Src(true).V }
""",
}


def write_module(root):
    for rel, txt in list(MOD_FILES.items()) + list(EXTRA.items()):
        os.makedirs(os.path.dirname(os.path.join(root, rel)), exist_ok=True)
        open(os.path.join(root, rel), "w").write(txt)


def run_binary(cwd, root, extra_flags=(), include=True):
    env = dict(common.GOENV)
    env["NO_COLOR"] = "1"
    env["PWD"] = cwd            # what a shell (or os/exec with Cmd.Dir) sets: the LOGICAL working directory
    env.pop("GOWORK", None)     # the run started above the module relies on the go.work file written there
    env.pop("GOFLAGS", None)    # -mod=mod is not allowed in workspace mode; the test module has no dependencies
    cmd = [os.path.join(common.BIN, "nilaway")] + (["-include-errors-in-files=" + root] if include else []) + ["-pretty-print=false"] + list(extra_flags) + ["ex.com/sc/..."]
    rc, out, err = common.sh2(cmd, cwd=cwd, env=env, timeout=600)
    diags = set()
    cur = None
    text = err + "\n" + out
    for m in re.finditer(r"^(/[^\n:]+\.go):(\d+):(\d+): (.*?)(?=^/[^\n:]+\.go:\d+:\d+: |\Z)", text, flags=re.M | re.S):
        f, l, c, msg = m.group(1), int(m.group(2)), int(m.group(3)), m.group(4).strip()
        # steps shorten paths to <last directory>/<file>: for a file directly in the module root that directory is
        # the module directory itself, i.e. part of the path prefix the statement abstracts from
        diags.add((f.replace(root, "<R>"), l, c, msg.replace(os.path.basename(root) + "/", "<M>/")))
    return rc, diags, text


def pathfuzz(ctx, n):
    rng = random.Random(ctx.seed * 17 + 3)
    base = ctx.scratch()
    bad, total = [], 0
    try:
        segs = ["a", "b", "ab", "x", "y", "mod", "p", "q", "a.b", "go"]
        cwds = []
        for depth in (1, 2, 4):
            d = os.path.join(base, *[rng.choice(segs) for _ in range(depth)])
            os.makedirs(d, exist_ok=True)
            cwds.append(os.path.realpath(d))
        for cwd in cwds:
            names = []
            cparts = cwd.strip("/").split("/")
            for _ in range(n):
                r = rng.random()
                if r < 0.45:      # below the cwd
                    parts = cparts + [rng.choice(segs) for _ in range(rng.randint(1, 4))]
                    names.append("/" + "/".join(parts))
                elif r < 0.8:     # shares a prefix with the cwd, then diverges
                    k = rng.randint(0, len(cparts))
                    parts = cparts[:k] + [rng.choice(segs) for _ in range(rng.randint(0, 3))]
                    names.append("/" + "/".join(parts) if parts else "/")
                elif r < 0.9:     # a relative name is returned as is
                    names.append("/".join(rng.choice(segs) for _ in range(rng.randint(1, 3))))
                else:
                    names.append(cwd)
            occs = [rng.choice([0, 1, 1, 2]) for _ in names]
            inp = "\n".join("%s\t%d" % (nm, oc) for nm, oc in zip(names, occs)) + "\n"
            rc1, impl, e1 = common.sh2([os.path.join(common.BIN, "harness"), "relcwd"], cwd=cwd, inp=inp)
            rc2, model, e2 = common.sh2([os.path.join(common.BIN, "modelrun"), "paths"], inp="\n".join("%s\t%s\t%d" % (cwd, nm, oc) for nm, oc in zip(names, occs)) + "\n")
            il, ml = impl.split("\n")[:len(names)], model.split("\n")[:len(names)]
            if rc1 != 0 or rc2 != 0 or len(il) != len(names) or len(ml) != len(names):
                bad.append(("runner", "relcwd/paths runner failed in %s: %s %s" % (cwd, e1[-300:], e2[-300:])))
                continue
            for nm, oc, a, b in zip(names, occs, il, ml):
                total += 1
                if nm == "/":
                    continue
                if a != b:
                    bad.append(("mismatch", "cwd=%s name=%s occ=%d: real RelToCwd/PortionAfterSep = %r, model = %r" % (cwd, nm, oc, a, b)))
            # injectivity on the real function: distinct absolute names get distinct relative names
            seen = {}
            for nm, a in zip(names, il):
                if nm.startswith("/") and nm != "/":
                    r = a.split("\t")[0]
                    key = os.path.normpath(nm)
                    if r in seen and seen[r] != key:
                        bad.append(("alias", "cwd=%s: %s and %s both become %r" % (cwd, seen[r], key, r)))
                    seen[r] = key
    finally:
        shutil.rmtree(base, ignore_errors=True)
    return total, bad


def relocation(ctx):
    base = ctx.scratch()
    bad, runs = [], 0
    shorts = []
    try:
        # the third location has a comma, a space and a percent sign in its directory names
        roots = [os.path.join(base, "one", "mod"), os.path.join(base, "two", "deeper", "nested", "mod2"), os.path.join(base, "with,comma", "sp ace%20x", "mod3")]
        results = {}
        # the fourth location is as short as a scratch directory can be (/var/tmp/v<8 characters>, the module directly in it)
        import tempfile
        short = tempfile.mkdtemp(prefix="v", dir="/var/tmp")
        os.rmdir(short)
        shorts.append(short)
        roots.append(short)
        for root in roots:
            os.makedirs(root)
            write_module(root)
            root = os.path.realpath(root)
            # a workspace file in the parent so that the tool can also be started above the module
            parent = os.path.dirname(root)
            is_short = root in [os.path.realpath(x) for x in shorts]
            if not is_short:
                open(os.path.join(parent, "go.work"), "w").write("go 1.23\n\nuse ./%s\n" % os.path.basename(root))
            for sub in ("", "p", "p/a", "q/c/d", "p/gc", "q/gd", "q/c/d/e/f/g/h", ".."):
                if is_short and sub == "..":
                    continue        # its parent is /var/tmp itself: nothing is written there
                cwd = os.path.normpath(os.path.join(root, sub))
                env_note = ""
                rc, diags, text = run_binary(cwd, root)
                runs += 1
                results[(root, sub)] = diags
                if not diags:
                    bad.append("started in %s (module at %s): no diagnostics at all; output: %s" % (cwd, root, text[-400:]))
            # the file filter left at its default (the working directory), started at the module root
            rc, diags, text = run_binary(root, root, include=False)
            runs += 1
            results[(root + " (file filter left at its default)", "")] = diags
        # the same module entered through a symbolic link (the logical path is what $PWD and the go command report):
        # with the file filter given explicitly, and left at its default (the working directory)
        link = os.path.join(base, "link")
        os.symlink(os.path.join(base, "one"), link)
        lroot = os.path.join(link, "mod")
        for sub, inc in (("", True), ("", False), ("p/a", True)):
            rc, diags, text = run_binary(os.path.normpath(os.path.join(lroot, sub)), lroot, include=inc)
            runs += 1
            phys = os.path.realpath(lroot)
            results[("%s (through a symlink, file filter %s)" % (lroot, "explicit" if inc else "default"), sub)] = {(d[0].replace(phys, "<R>"),) + d[1:] for d in diags}
            if not diags:
                bad.append("started in %s (a path through a symbolic link to %s, $PWD set to it, file filter %s): no diagnostics at all" % (os.path.join(lroot, sub), phys, "explicit" if inc else "left at its default"))
        ref_key = (os.path.realpath(roots[0]), "")
        ref = results.get(ref_key, set())
        for (root, sub), diags in results.items():
            if diags != ref:
                missing = sorted(ref - diags)[:3]
                extra = sorted(diags - ref)[:3]
                bad.append("module at %s, tool started in %r: diagnostics differ from (module at %s, started at its root): missing %r, extra %r" % (
                    root, sub or ".", ref_key[0], missing, extra))
        # expected cross-package findings are present in the reference
        need = ["nl.go", "deep.go"]
        files = {d[0] for d in ref}
        if not any(f.endswith("/p/a/nl.go") for f in files):
            bad.append("reference run lacks the cross-package finding reported into p/a/nl.go (UseRep)")
        if any(d[0].endswith("/p/a/nl.go") and d[1] == 4 for d in ref):
            bad.append("reference run reports the nolinted line p/a/nl.go:4")
    finally:
        shutil.rmtree(base, ignore_errors=True)
        for x in shorts:
            shutil.rmtree(x, ignore_errors=True)
    return runs, bad


def run(ctx):
    ok, msg = ctx.build_tools()
    if not ok:
        ctx.obligation("tools build against /repo (hooks enabled)", False)
        ctx.violation("build", msg, found_input=False)
        ctx.write_evidence()
        return
    ctx.regen("all")
    okp, log = ctx.prove("props/C18.v", "C18")
    total, pbad = pathfuzz(ctx, 400 if ctx.tier == "quick" else 8000)
    ctx.obligation("correspondence: real RelToCwd / PortionAfterSep / AbsFromCwd-of-RelToCwd (one process per working directory) == model on %d (cwd, name) pairs; relative names identify files" % total, total > 0 and not pbad)
    runs, rbad = relocation(ctx)
    ctx.obligation("whole tool: the real binary on the same 6-package module at 3 absolute locations (one with a comma, a space and a percent sign in its path) x 5 start directories, explicit and default file filter (root, sub-packages, parent via go.work): identical diagnostics up to the module prefix, cross-package and nolint flows included (%d runs)" % runs, runs > 0 and not rbad)
    ctx.coverage.update({"evaluations": total + runs, "distinct_nontrivial": total,
                         "rule": "absolute names below / beside / above 3 working directories of different depth, relative names, the cwd itself; all distinct by construction of the generator modulo collisions (counted as evaluations); plus whole-binary runs"})
    ctx.assumptions.append("partial: drivers that start one process per package in that package's directory (go vet) are not covered: finding F12")
    ctx.sample("cwd=/x/a/b name=/x/a/c/f.go -> ../c/f.go ; PortionAfterSep(name,1) -> c/f.go")
    for kind, b in pbad[:3]:
        if kind == "mismatch" or kind == "runner":
            ctx.violation("paths", "model and real path helpers disagree (theorems C18_* no longer speak about the code): %s" % b, found_input=(kind == "alias"))
        else:
            ctx.violation("alias", "C18 fails on the real RelToCwd: %s" % b)
    for b in rbad[:3]:
        ctx.violation("relocation", "C18 fails on the real tool: %s\n(module: checks/c12.py MOD_FILES + checks/c18.py EXTRA; binary bin/nilaway -include-errors-in-files=<root> ex.com/sc/...)\n" % b)
    if not okp and not ctx.violations:
        ctx.violation("proof", "a proof obligation of props/C18.v no longer checks:\n" + common.coq_error_excerpt(log), found_input=False)
    ctx.write_evidence()


def replay(ctx, path):
    print(open(path).read())
