"""M13 correspondence: propagateRichChecks (assertiontree/rich_check_effect.go) vs coq/model/RichFlow.v (extracted) on
random control-flow graphs: nested loops, diamonds, unreachable and non-live blocks; every effect created in one block."""
import os
import random

from . import common


def gen_case(rng):
    n = rng.randint(1, 9)
    succs = [[] for _ in range(n)]
    shape = rng.random()
    for b in range(n):
        k = rng.choice([0, 1, 1, 2, 2, 2])
        for _ in range(k):
            if shape < 0.5 and rng.random() < 0.7:
                t = min(n - 1, b + rng.randint(1, 2)) if rng.random() < 0.7 else rng.randint(0, b)     # mostly forward, some back edges
            else:
                t = rng.randrange(n)
            if t not in succs[b]:
                succs[b].append(t)
    live = [rng.random() < 0.93 for _ in range(n)]
    neff = rng.randint(1, 4)
    gen = [[] for _ in range(n)]
    for e in range(neff):
        gen[rng.randrange(n)].append(10 + e)
    kill = [[10 + e for e in range(neff) if rng.random() < 0.18] for _ in range(n)]
    return n, succs, live, gen, kill


def line(c):
    n, succs, live, gen, kill = c
    out = [n]
    for b in range(n):
        out += [len(succs[b])] + succs[b] + [1 if live[b] else 0] + [len(gen[b])] + gen[b] + [len(kill[b])] + kill[b]
    return " ".join(map(str, out))


def describe(c):
    n, succs, live, gen, kill = c
    return "\n".join("  block %d%s: succs %s creates %s invalidates %s" % (b, "" if live[b] else " (not live)", succs[b], gen[b], kill[b]) for b in range(n))


NESTED = [(5, [[1, 4], [2, 3], [1], [0], []], [True] * 5, [[], [], [7], [], []], [[], [], [], k, []]) for k in ([], [7])]


def correspond(seed, n):
    rng = random.Random(seed)
    cases = NESTED + [gen_case(rng) for _ in range(n)]
    inp = "\n".join(line(c) for c in cases) + "\n"
    rc1, impl, e1 = common.sh2([os.path.join(common.BIN, "harness"), "richflow"], inp=inp, timeout=900)
    rc2, model, e2 = common.sh2([os.path.join(common.BIN, "modelrun"), "richflow"], inp=inp, timeout=900)
    impl, model = impl.splitlines(), model.splitlines()
    res = dict(n=len(cases), errors=[], mism=[], panics=0, nofuel=0, with_loop=0, kept=0)
    if rc1 != 0 or rc2 != 0 or len(impl) != len(cases) or len(model) != len(cases):
        res["errors"].append("harness richflow rc=%s (%d lines) %s / modelrun richflow rc=%s (%d lines) %s" % (rc1, len(impl), e1[-300:], rc2, len(model), e2[-300:]))
        return res
    for c, a, b in zip(cases, impl, model):
        res["panics"] += a.startswith("PANIC")
        res["nofuel"] += b == "NOFUEL"
        res["with_loop"] += any(t <= s for s, ts in enumerate(c[1]) for t in ts)
        res["kept"] += sum(1 for x in a.replace(";", ",").split(",") if x.strip())
        if a.strip() != b.strip():
            res["mism"].append((c, a, b))
    return res
