"""C13: grouping and pretty-printing never lose or alter a finding."""
import random

from . import common

# tags whose findings legitimately stay separate (none at present)
UNGROUPED_OK = {"G41"}     # sameposition: line 14 carries two findings of different sources (one tag per line)

from . import diaggen as dg
from . import diag_suite as ds
from . import nolint_suite
from . import wholetool as wt


def run(ctx):
    ok, msg = ctx.build_tools()
    if not ok:
        ctx.obligation("tools build against /repo (hooks enabled)", False)
        ctx.violation("build", msg, found_input=False)
        ctx.write_evidence()
        return
    ctx.regen("all")
    okp, log = ctx.prove("props/C13.v", "C13")
    # which findings may share a diagnostic: corpus/c13 tags every dereference with its nil source (//G<n>)
    import os
    import re
    cd0 = os.path.join(common.VERIF, "corpus", "c13")
    from . import texture
    import shutil
    tscratch = ctx.scratch()
    gbad_all, tags = [], {}
    # the corpus as written, and with a `%` in every file name (a path must never be used as a format string)
    for cd in (cd0, texture.make(cd0, "percent", tscratch)):
        tags = {}
        for root, _, files in os.walk(cd):
            for f in files:
                if f.endswith(".go"):
                    rel = os.path.relpath(os.path.join(root, f), cd)
                    for i, l in enumerate(open(os.path.join(root, f)).read().splitlines(), 1):
                        m = re.search(r"//(G\d+)\b", l)
                        if m:
                            tags[(rel, i)] = m.group(1)
        gbad = []

        def norm(a):
            # entries are relative to the working directory of the tool (here /verif), positions to the module
            for basedir in (cd, common.VERIF, os.getcwd()):
                q = os.path.normpath(os.path.join(basedir, a))
                if os.path.exists(q):
                    return os.path.relpath(q, cd)
            return os.path.normpath(a)
        # full file paths, so that the entries of an 'other place(s)' list name their file unambiguously
        ru, e1 = wt.analyze(cd, flags={"group-error-messages": "false", "print-full-file-path": "true"})
        rg, e2 = wt.analyze(cd, flags={"group-error-messages": "true", "print-full-file-path": "true"})
        if ru is None or rg is None:
            gbad.append("run failed: %s %s" % (e1, e2))
        else:
            ulines = sorted((d["file"], d["line"]) for d in ru["diags"] or [])
            seen = []
            for d in rg["diags"] or []:
                others = (re.findall(r"other place\(s\): (.*)\.\)", d["message"]) or [""])[0]
                ls = [(d["file"], d["line"])] + [(norm(a), int(b)) for (a, b) in re.findall(r"\"([^\"]+\.go):(\d+):\d+\"", others)]
                seen += ls
                ts = set(tags.get(x, "untagged:%s:%d" % x) for x in ls)
                if len(ts) > 1:
                    gbad.append("the diagnostic at %s:%d groups %s whose nil sources differ (%s)" % (d["file"], d["line"], ls, sorted(ts)))
            if sorted(seen) != ulines:
                gbad.append("locations reported with grouping off %s, with grouping on (positions and lists) %s" % (ulines, sorted(seen)))
            # and findings with the same nil source in one package are grouped (the feature is still there)
            heads = {}
            for d in rg["diags"] or []:
                heads.setdefault((d["pkg"], tags.get((d["file"], d["line"]))), []).append(d["line"])
            for (pk, t), ls in heads.items():
                if t and t.startswith("G") and len(ls) > 1 and t not in UNGROUPED_OK:
                    gbad.append("findings with the same nil source %s are reported as %d separate diagnostics (lines %s)" % (t, len(ls), ls))

        gbad_all += [("[file names with %] " if cd != cd0 else "") + b for b in gbad]
    shutil.rmtree(tscratch, ignore_errors=True)
    gbad = gbad_all
    ctx.obligation("whole tool on corpus/c13 (%d tagged dereferences: same-named methods / functions with same-named locals, interleaved sources): every ungrouped location appears once, only findings with the same nil source share a diagnostic" % len(tags), bool(tags) and not gbad)
    for b in gbad[:2]:
        ctx.violation("grouping", "C13 fails on the real tool: %s\nreplay: bin/harness analyze -dir corpus/c13 [-flag group-error-messages=false]\n" % b)
    # known finding F78: the standalone driver filters by file AFTER grouping (corpus/c13kf: three dereferences of one
    # nil source in three files; excluding the head's file loses the whole group)
    import re as _re
    kfd = os.path.join(common.VERIF, "corpus", "c13kf")

    def driver_locations(grouping, excl):
        env = dict(common.GOENV)
        env["NO_COLOR"] = "1"
        rc, out, err = common.sh2([os.path.join(common.BIN, "nilaway"), "-pretty-print=false", "-group-error-messages=%s" % grouping,
                                   "-exclude-errors-in-files", os.path.join(kfd, excl), "./..."], cwd=kfd, env=env, timeout=600)
        text = err + "\n" + out
        locs = set(_re.findall(r"^/[^\n:]*/(\w+\.go):(\d+):\d+: Potential nil panic", text, flags=_re.M))
        for lst in _re.findall(r"other place\(s\): (.*)\.\)", text):
            locs |= set((os.path.basename(a), b) for a, b in _re.findall(r"\"([^\"]+\.go):(\d+):\d+\"", lst))
        return locs
    f78 = [k for k in ctx.known_for() if k["id"] == "F78"]
    f78bad = []
    for excl in ("b_gen.go", "c_main.go"):
        off, on = driver_locations("false", excl), driver_locations("true", excl)
        if off != on:
            f78bad.append("with -exclude-errors-in-files %s the standalone driver shows %s with grouping off and %s with grouping on" % (excl, sorted(off), sorted(on)))
    if f78bad:
        if f78:
            ctx.known_finding("F78", "%s -- %s (corpus/c13kf)" % (f78[0]["what"][:150], f78bad[0][:200]))
        else:
            for b in f78bad[:2]:
                ctx.violation("driver-filter", "C13 fails on the real tool: %s\nreplay: cd corpus/c13kf && bin/nilaway -pretty-print=false -group-error-messages=true|false -exclude-errors-in-files $PWD/<file> ./...\n" % b)
    ctx.obligation("standalone driver on corpus/c13kf with a file excluded: grouping on shows what grouping off shows (known finding F78 otherwise)", not f78bad or bool(f78))
    n = 3000 if ctx.tier == "quick" else 80000
    res = ds.correspond(ctx, n)
    ctx.obligation("correspondence suite ran", not res["errors"])
    if res["errors"]:
        ctx.violation("suite", "\n".join(res["errors"]), found_input=False)
        ctx.write_evidence()
        return
    ctx.obligation("correspondence: real diagnostic engine == model M2 on %d synthetic conflict sets" % len(res["cases"]), not res["mism"])
    bad, nontriv = [], set()
    # grouping on vs off on the REAL engine, same conflicts
    on = [c.with_(grouping=True) for c in res["cases"]]
    off = [c.with_(grouping=False) for c in res["cases"]]
    _, out_on, _ = dg.run_impl([c.line() for c in on])
    _, out_off, _ = dg.run_impl([c.line() for c in off])
    for i, c in enumerate(res["cases"]):
        d_on, d_off = dg.parse_out(out_on[i]), dg.parse_out(out_off[i])
        for (cc, d) in ((on[i], d_on), (off[i], d_off)):
            o = dg.oracle_locations(cc, d) or dg.oracle_same_source(cc, d)
            if o:
                bad.append((i, cc, o))
                break
        if d_on is not None and any(x["n"] for x in d_on):
            nontriv.add(c.line())
    ctx.obligation("ground-truth oracle on the real engine: grouping on shows exactly what grouping off shows; counts match; grouped locations share the nil source", not bad)

    # pretty printing: real messages + synthetic ones
    rng = random.Random(ctx.seed + 77)
    msgs = ds.synthetic_messages(rng, 300 if ctx.tier == "quick" else 5000)
    mods = ds.collect_modules(ctx, rng, 2)
    try:
        for d, _ in mods:
            r, err = wt.analyze(d)
            if r:
                msgs += [x["message"] for x in (r["diags"] or [])]
    finally:
        ds.cleanup(mods)
    full, partial = ds.pretty_oracle(msgs)
    f9_known = any(k["id"] == "F9" for k in ctx.known_findings.get("findings", []))
    ctx.obligation("pretty printing only inserts colour escapes and the `error: ` prefix: stripping them gives back the plain message, on %d messages (%d with double quotes)" % (len(msgs), sum('"' in m for m in msgs)),
                   full is not None and not partial and (f9_known or not full))
    if full:
        kf = [k for k in ctx.known_findings.get("findings", []) if k["id"] == "F9"]
        ex = full[0]
        if kf:
            ctx.known_finding("F9", "pretty printing re-emits each \"...\" span without its quotes, so stripping the escapes does not give back the plain message (%d of %d messages; e.g. %r)" % (len(full), len(msgs), ex[:80]))
        else:
            ctx.violation("pretty-quotes", "C13 fails on the real PrettyPrintErrorMessage: stripping the escape sequences and the `error: ` prefix does not give back the plain message: every matched pair of double quotes is gone (%d of %d messages), e.g.\n%r\n" % (len(full), len(msgs), ex))
    # M15 tie: the model of PrettyPrintErrorMessage, evaluated inside Coq, against the real function on the same messages
    tie_msgs = [m for m in msgs if "\x1b" not in m]
    if len(tie_msgs) > 2400:     # the real messages are at the end of the list; Coq evaluates about 20 messages a second
        tie_msgs = tie_msgs[:1800] + tie_msgs[-600:]
    ncmp, badp = ds.pretty_model_tie(tie_msgs, ctx.scratch())
    ctx.obligation("model M15 (coq/model/Pretty.v, evaluated inside Coq) == PrettyPrintErrorMessage, byte for byte, on %d messages" % (ncmp or 0), ncmp is not None and not badp)
    if ncmp is None:
        ctx.violation("pretty-model", "C13: the correspondence of the pretty-printing model could not be run: %s\n" % badp, found_input=False)
    elif badp:
        m, r = badp[0]
        o = ds.pretty_oracle([m])
        if o[0]:
            ctx.violation("pretty-model", "C13 fails on the real PrettyPrintErrorMessage: stripping the escape sequences and the `error: ` prefix does not give back the plain message\nmessage: %r\nreal:    %r\n" % (m, r))
        else:
            ctx.violation("pretty-model", "C13: the model of PrettyPrintErrorMessage (theorem C13_pretty_strip) no longer corresponds to the code, %d of %d messages differ; no message on which stripping fails was found\nmessage: %r\nreal:    %r\n" % (len(badp), ncmp, m, r), found_input=False)
    ctx.coverage.update({"evaluations": len(res["cases"]) * 3 + len(msgs), "distinct_nontrivial": len(nontriv),
                         "rule": "synthetic conflict sets as for C11, each run with grouping on and off; non-trivial = grouping actually merges conflicts; plus real and synthetic messages through PrettyPrintErrorMessage",
                         "messages_with_quotes": len(full or [])})
    for c in res["cases"][:1]:
        ctx.sample(c.pretty())
    for (i, cc, o) in bad[:3]:
        small = dg.shrink(cc, lambda c: (ds.impl_fails(c, dg.oracle_locations) or ds.impl_fails(c, dg.oracle_same_source)) is not None)
        ctx.violation("grouping", "C13 fails on the real diagnostic engine: %s\nminimised case:\n%s\nreal output: %s\n" % (o, small.pretty(), dg.run_impl([small.line()])[1]))
    for (m, p) in (partial or [])[:3]:
        ctx.violation("pretty", "C13 fails on the real PrettyPrintErrorMessage: stripping the escape sequences of\n%r\ngives neither the plain message nor the plain message without its matched quotes:\n%r\n" % (p, m))
    if not ctx.violations:
        for i in res["mism"][:3]:
            ctx.violation("correspondence", "model M2 and the real diagnostic engine disagree; theorems C13_* no longer speak about the code; the oracles still hold.\n" + ds.describe(res, i), found_input=False)
    if not okp and not ctx.violations:
        ctx.violation("proof", "a proof obligation of props/C13.v no longer checks:\n" + common.coq_error_excerpt(log), found_input=False)
    ctx.write_evidence()


def replay(ctx, path):
    print(open(path).read())
