"""C13: grouping and pretty-printing never lose or alter a finding."""
import random

from . import common
from . import diaggen as dg
from . import diag_suite as ds
from . import nolint_suite
from . import wholetool as wt


def run(ctx):
    ok, msg = ctx.build_tools()
    if not ok:
        ctx.obligation("tools build against /repo (hooks enabled)", False)
        ctx.violation("build", msg, found_input=False)
        ctx.write_evidence()
        return
    ctx.regen("all")
    okp, log = ctx.prove("props/C13.v", "C13")
    # which findings may share a diagnostic: corpus/c13 tags every dereference with its nil source (//G<n>)
    import os
    import re
    cd = os.path.join(common.VERIF, "corpus", "c13")
    tags = {}
    for i, l in enumerate(open(os.path.join(cd, "a", "a.go")).read().splitlines(), 1):
        m = re.search(r"//(G\d+)\b", l)
        if m:
            tags[i] = m.group(1)
    gbad = []
    ru, e1 = wt.analyze(cd, flags={"group-error-messages": "false"})
    rg, e2 = wt.analyze(cd, flags={"group-error-messages": "true"})
    if ru is None or rg is None:
        gbad.append("run failed: %s %s" % (e1, e2))
    else:
        ulines = sorted(d["line"] for d in ru["diags"] or [])
        seen = []
        for d in rg["diags"] or []:
            ls = [d["line"]] + [int(x) for x in re.findall(r"a\.go:(\d+):\d+\"", (re.findall(r"other place\(s\): (.*)\.\)", d["message"]) or [""])[0])]
            seen += ls
            ts = set(tags.get(x, "untagged:%d" % x) for x in ls)
            if len(ts) > 1:
                gbad.append("the diagnostic at a/a.go:%d groups lines %s whose nil sources differ (%s)" % (d["line"], ls, sorted(ts)))
        if sorted(seen) != ulines:
            gbad.append("locations reported with grouping off %s, with grouping on (positions and lists) %s" % (ulines, sorted(seen)))
    ctx.obligation("whole tool on corpus/c13 (%d tagged dereferences: same-named methods / functions with same-named locals, interleaved sources): every ungrouped location appears once, only findings with the same nil source share a diagnostic" % len(tags), bool(tags) and not gbad)
    for b in gbad[:2]:
        ctx.violation("grouping", "C13 fails on the real tool: %s\nreplay: bin/harness analyze -dir corpus/c13 [-flag group-error-messages=false]\n" % b)
    n = 3000 if ctx.tier == "quick" else 80000
    res = ds.correspond(ctx, n)
    ctx.obligation("correspondence suite ran", not res["errors"])
    if res["errors"]:
        ctx.violation("suite", "\n".join(res["errors"]), found_input=False)
        ctx.write_evidence()
        return
    ctx.obligation("correspondence: real diagnostic engine == model M2 on %d synthetic conflict sets" % len(res["cases"]), not res["mism"])
    bad, nontriv = [], set()
    # grouping on vs off on the REAL engine, same conflicts
    on = [c.with_(grouping=True) for c in res["cases"]]
    off = [c.with_(grouping=False) for c in res["cases"]]
    _, out_on, _ = dg.run_impl([c.line() for c in on])
    _, out_off, _ = dg.run_impl([c.line() for c in off])
    for i, c in enumerate(res["cases"]):
        d_on, d_off = dg.parse_out(out_on[i]), dg.parse_out(out_off[i])
        for (cc, d) in ((on[i], d_on), (off[i], d_off)):
            o = dg.oracle_locations(cc, d) or dg.oracle_same_source(cc, d)
            if o:
                bad.append((i, cc, o))
                break
        if d_on is not None and any(x["n"] for x in d_on):
            nontriv.add(c.line())
    ctx.obligation("ground-truth oracle on the real engine: grouping on shows exactly what grouping off shows; counts match; grouped locations share the nil source", not bad)

    # pretty printing: real messages + synthetic ones
    rng = random.Random(ctx.seed + 77)
    msgs = ds.synthetic_messages(rng, 300 if ctx.tier == "quick" else 5000)
    mods = ds.collect_modules(ctx, rng, 2)
    try:
        for d, _ in mods:
            r, err = wt.analyze(d)
            if r:
                msgs += [x["message"] for x in (r["diags"] or [])]
    finally:
        ds.cleanup(mods)
    full, partial = ds.pretty_oracle(msgs)
    ctx.obligation("pretty printing only inserts colour escapes, the `error: ` prefix and drops matched double quotes (proved domain of the statement; finding F9) on %d messages" % len(msgs),
                   full is not None and not partial)
    if full:
        kf = [k for k in ctx.known_findings.get("findings", []) if k["id"] == "F9"]
        ex = full[0]
        if kf:
            ctx.known_finding("F9", "pretty printing re-emits each \"...\" span without its quotes, so stripping the escapes does not give back the plain message (%d of %d messages; e.g. %r)" % (len(full), len(msgs), ex[:80]))
    ctx.coverage.update({"evaluations": len(res["cases"]) * 3 + len(msgs), "distinct_nontrivial": len(nontriv),
                         "rule": "synthetic conflict sets as for C11, each run with grouping on and off; non-trivial = grouping actually merges conflicts; plus real and synthetic messages through PrettyPrintErrorMessage",
                         "messages_with_quotes": len(full or [])})
    for c in res["cases"][:1]:
        ctx.sample(c.pretty())
    for (i, cc, o) in bad[:3]:
        small = dg.shrink(cc, lambda c: (ds.impl_fails(c, dg.oracle_locations) or ds.impl_fails(c, dg.oracle_same_source)) is not None)
        ctx.violation("grouping", "C13 fails on the real diagnostic engine: %s\nminimised case:\n%s\nreal output: %s\n" % (o, small.pretty(), dg.run_impl([small.line()])[1]))
    for (m, p) in (partial or [])[:3]:
        ctx.violation("pretty", "C13 fails on the real PrettyPrintErrorMessage: stripping the escape sequences of\n%r\ngives neither the plain message nor the plain message without its matched quotes:\n%r\n" % (p, m))
    if not ctx.violations:
        for i in res["mism"][:3]:
            ctx.violation("correspondence", "model M2 and the real diagnostic engine disagree; theorems C13_* no longer speak about the code; the oracles still hold.\n" + ds.describe(res, i), found_input=False)
    if not okp and not ctx.violations:
        ctx.violation("proof", "a proof obligation of props/C13.v no longer checks:\n" + common.coq_error_excerpt(log), found_input=False)
    ctx.write_evidence()


def replay(ctx, path):
    print(open(path).read())
