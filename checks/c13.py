"""C13: grouping and pretty-printing never lose or alter a finding."""
import random

from . import common
from . import diaggen as dg
from . import diag_suite as ds
from . import nolint_suite
from . import wholetool as wt


def run(ctx):
    ok, msg = ctx.build_tools()
    if not ok:
        ctx.obligation("tools build against /repo (hooks enabled)", False)
        ctx.violation("build", msg, found_input=False)
        ctx.write_evidence()
        return
    ctx.regen("all")
    okp, log = ctx.prove("props/C13.v", "C13")
    n = 3000 if ctx.tier == "quick" else 80000
    res = ds.correspond(ctx, n)
    ctx.obligation("correspondence suite ran", not res["errors"])
    if res["errors"]:
        ctx.violation("suite", "\n".join(res["errors"]), found_input=False)
        ctx.write_evidence()
        return
    ctx.obligation("correspondence: real diagnostic engine == model M2 on %d synthetic conflict sets" % len(res["cases"]), not res["mism"])
    bad, nontriv = [], set()
    # grouping on vs off on the REAL engine, same conflicts
    on = [c.with_(grouping=True) for c in res["cases"]]
    off = [c.with_(grouping=False) for c in res["cases"]]
    _, out_on, _ = dg.run_impl([c.line() for c in on])
    _, out_off, _ = dg.run_impl([c.line() for c in off])
    for i, c in enumerate(res["cases"]):
        d_on, d_off = dg.parse_out(out_on[i]), dg.parse_out(out_off[i])
        for (cc, d) in ((on[i], d_on), (off[i], d_off)):
            o = dg.oracle_locations(cc, d) or dg.oracle_same_source(cc, d)
            if o:
                bad.append((i, cc, o))
                break
        if d_on is not None and any(x["n"] for x in d_on):
            nontriv.add(c.line())
    ctx.obligation("ground-truth oracle on the real engine: grouping on shows exactly what grouping off shows; counts match; grouped locations share the nil source", not bad)

    # pretty printing: real messages + synthetic ones
    rng = random.Random(ctx.seed + 77)
    msgs = ds.synthetic_messages(rng, 300 if ctx.tier == "quick" else 5000)
    mods = ds.collect_modules(ctx, rng, 2)
    try:
        for d, _ in mods:
            r, err = wt.analyze(d)
            if r:
                msgs += [x["message"] for x in (r["diags"] or [])]
    finally:
        ds.cleanup(mods)
    full, partial = ds.pretty_oracle(msgs)
    ctx.obligation("pretty printing only inserts colour escapes, the `error: ` prefix and drops matched double quotes (proved domain of the statement; finding F9) on %d messages" % len(msgs),
                   full is not None and not partial)
    if full:
        kf = [k for k in ctx.known_findings.get("findings", []) if k["id"] == "F9"]
        ex = full[0]
        if kf:
            ctx.known_finding("F9", "pretty printing re-emits each \"...\" span without its quotes, so stripping the escapes does not give back the plain message (%d of %d messages; e.g. %r)" % (len(full), len(msgs), ex[:80]))
    ctx.coverage.update({"evaluations": len(res["cases"]) * 3 + len(msgs), "distinct_nontrivial": len(nontriv),
                         "rule": "synthetic conflict sets as for C11, each run with grouping on and off; non-trivial = grouping actually merges conflicts; plus real and synthetic messages through PrettyPrintErrorMessage",
                         "messages_with_quotes": len(full or [])})
    for c in res["cases"][:1]:
        ctx.sample(c.pretty())
    for (i, cc, o) in bad[:3]:
        small = dg.shrink(cc, lambda c: (ds.impl_fails(c, dg.oracle_locations) or ds.impl_fails(c, dg.oracle_same_source)) is not None)
        ctx.violation("grouping", "C13 fails on the real diagnostic engine: %s\nminimised case:\n%s\nreal output: %s\n" % (o, small.pretty(), dg.run_impl([small.line()])[1]))
    for (m, p) in (partial or [])[:3]:
        ctx.violation("pretty", "C13 fails on the real PrettyPrintErrorMessage: stripping the escape sequences of\n%r\ngives neither the plain message nor the plain message without its matched quotes:\n%r\n" % (p, m))
    if not ctx.violations:
        for i in res["mism"][:3]:
            ctx.violation("correspondence", "model M2 and the real diagnostic engine disagree; theorems C13_* no longer speak about the code; the oracles still hold.\n" + ds.describe(res, i), found_input=False)
    if not okp and not ctx.violations:
        ctx.violation("proof", "a proof obligation of props/C13.v no longer checks:\n" + common.coq_error_excerpt(log), found_input=False)
    ctx.write_evidence()


def replay(ctx, path):
    print(open(path).read())
