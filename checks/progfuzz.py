"""progfuzz: generated MiniGo programs through (1) the model (M6 exec, M7 flow analysis, M1 engine), (2) the real
NilAway (full triggers of the assertion analyzer, diagnostics) and (3) the Go compiler + run time under every
vector of opaque answers (ground truth).  Used by C01, C02 (and the contract / convention extensions)."""
import json
import os
import random
import re

from . import common
from . import enginegen as eg
from . import minigo as M

NB = 5  # opaque answers per run: 2^NB executions per program

L = lambda n: ("L", n)
G = lambda n: ("G", n)


# ---------------------------------------------------------------- generator

class Gen:
    def __init__(self, rng, methods=True, globals_=True, one_param=True, max_funcs=5, max_pkgs=3, deep_conds=True, simple=False):
        self.rng, self.methods, self.globals_, self.one_param = rng, methods, globals_, one_param
        self.max_funcs, self.max_pkgs, self.deep_conds = max_funcs, max_pkgs, deep_conds
        # simple: every function is called from exactly one call site, every condition is opaque (every path is
        # feasible), no package-level variables -- the class of the precision claim of C02
        self.simple = simple

    def program(self):
        r = self.rng
        nf = r.randint(1, self.max_funcs)
        npk = r.randint(1, self.max_pkgs)
        funcs = []
        for f in range(nf):
            pkg = npk - 1 if f == 0 else r.randrange(npk)
            method = self.methods and f != 0 and pkg == 0 and r.random() < 0.3
            if f == 0:
                nparams = 0
            else:
                nparams = r.choice([0, 2, 2, 3] if not self.one_param else [0, 1, 1, 2, 3])
                if method:
                    nparams = r.choice([1, 3])      # receiver + one parameter would be a contract candidate about the parameter: outside the modelled fragment
            funcs.append(dict(nparams=nparams, pkg=pkg, method=method, body=("skip",)))
        ngl = r.choice([0, 0, 1, 2]) if self.globals_ else 0
        self.p = dict(funcs=funcs, ginit=[r.random() < 0.5 for _ in range(ngl)], gpkg=[r.randrange(npk) for _ in range(ngl)], npkgs=npk)
        self.next_d = 1
        self.next_cs = 1
        self.resets = {}
        if self.simple:
            # a call tree: function g >= 1 is called once, from a function of smaller index and a package that sees it
            for g in range(1, nf):
                funcs[g]["pkg"] = r.randrange(npk)
            self.must_call = {f: [] for f in range(nf)}
            for g in range(1, nf):
                callers = [f for f in range(g) if funcs[f]["pkg"] >= funcs[g]["pkg"]]
                self.must_call[r.choice(callers)].append(g)
        for f in range(nf):
            self.f = f
            self.nloc = funcs[f]["nparams"] + r.randint(1, 3)
            if self.simple:
                funcs[f]["body"] = self.simple_body(f)
            elif funcs[f]["nparams"] == 1 and not funcs[f]["method"] and r.random() < 0.7:
                funcs[f]["body"] = self.contract_body()
            else:
                funcs[f]["body"] = self.block(r.randint(2, 6), 0, True)
            if f in getattr(self, "resets", {}):
                funcs[f]["body"] = M.seq([("assign", self.resets[f], "nil")] + M.flatten(funcs[f]["body"]))
        return self.p

    def simple_body(self, f):
        r = self.rng
        stmts = M.flatten(self.block(r.randint(2, 5), 0, False))
        for g in self.must_call[f]:
            fd = self.p["funcs"][g]
            args = [self.atom() for _ in range(fd["nparams"])]
            if fd["method"] and args[0] == "nil":
                args[0] = self.var()
            call = ("call", self.var() if r.random() < 0.8 else None, g, args, self.cs_id())
            stmts.insert(r.randint(0, len(stmts)), call)
        if r.random() < 0.6:
            stmts.append(("return", self.atom()))
        return M.seq(stmts)

    def noret_block(self, n):
        out = []
        for _ in range(n):
            s = self.stmt(1, False)
            out.append(s)
        return M.seq(out)

    def contract_body(self):
        """bodies for which a nonnil->nonnil contract is likely (or narrowly missed)"""
        r = self.rng
        p0 = L(0)
        good = lambda: r.choice(["new", p0, p0])
        any_ = lambda: r.choice(["nil", "new", p0, self.var()])
        shape = r.randrange(8)
        gvs = [v for v in self.vars() if v[0] == "G"]
        if shape == 7 and not gvs:
            shape = r.randrange(7)
        if shape == 7:
            # the same package-level variable is read twice, nil-checked the first time, with a call in between that may
            # re-assign it (an inference that carries the nilness of the first read over to the second is unsound)
            g0 = r.choice(gvs)
            fwd = [g for g in self.callees() if g > self.f and self.p["funcs"][g]["nparams"] == 0 and self.p["funcs"][g]["pkg"] >= self.p["gpkg"][g0[1]]]
            mid = []
            if fwd:
                g = r.choice(fwd)
                self.resets = getattr(self, "resets", {})
                self.resets[g] = g0
                mid = [("call", None, g, [], self.cs_id())]
            return M.seq([("if", ("not", ("nonnil", p0)), ("return", "nil"), ("skip",)),
                          ("if", ("not", ("nonnil", g0)), ("return", good()), ("skip",))] + mid + [("return", g0)])
        if shape >= 5:
            # a join of a path on which nothing is known about the returned value (package-level variable, call result)
            # with paths that decide it from the parameter (F27: the unknown path was dropped at the join)
            x = L(1)
            inner = ("if", ("nonnil", p0), ("assign", x, "new"), ("assign", x, "nil") if shape == 5 or r.random() < 0.5 else ("skip",))
            return M.seq([("assign", x, self.var() if r.random() < 0.7 else any_()), self.noret_block(r.randint(0, 1)),
                          ("if", ("opaque",), inner, ("skip",)), ("return", x)])
        if shape == 0:
            return M.seq([("if", ("nonnil", p0), M.seq([self.noret_block(r.randint(0, 2)), ("return", good())]), ("skip",)),
                          self.noret_block(r.randint(0, 2)), ("return", any_())])
        if shape == 1:
            return M.seq([("if", ("not", ("nonnil", p0)), M.seq([self.noret_block(r.randint(0, 1)), ("return", any_())]), ("skip",)),
                          self.noret_block(r.randint(0, 2)), ("return", good() if r.random() < 0.85 else any_())])
        if shape == 2:
            return M.seq([self.noret_block(r.randint(0, 2)), ("return", p0 if r.random() < 0.7 else any_())])
        if shape == 3:
            return M.seq([("if", ("opaque",), ("return", "new" if r.random() < 0.8 else any_()), ("skip",)),
                          ("if", ("not", ("nonnil", p0)), ("return", "nil"), ("skip",)),
                          ("return", p0)])
        x = L(1)
        return M.seq([("assign", x, p0), ("if", ("and", ("nonnil", p0), ("opaque",)), ("assign", x, "new"), ("skip",)),
                      ("if", ("nonnil", p0), ("return", x if r.random() < 0.7 else good()), ("skip",)), ("return", any_())])

    # variables visible in the current function
    def vars(self):
        k = self.p["funcs"][self.f]["pkg"]
        vs = [L(i) for i in range(self.nloc)]
        vs += [G(g) for g in range(len(self.p["ginit"])) if self.p["gpkg"][g] <= k]
        return vs

    def var(self):
        return self.rng.choice(self.vars())

    def atom(self):
        r = self.rng.random()
        if r < 0.2:
            return "nil"
        if r < 0.45:
            return "new"
        return self.var()

    def cs_id(self):
        c = self.next_cs
        self.next_cs += 1
        return c

    def deref_id(self):
        d = self.next_d
        self.next_d += 1
        return d

    def cond(self, depth=0):
        if self.simple:
            return ("opaque",)
        r = self.rng.random()
        if depth >= 2 or not self.deep_conds:
            r *= 0.62
        if r < 0.25:
            return ("opaque",)
        if r < 0.45:
            return ("nonnil", self.var())
        if r < 0.55:
            return ("not", ("nonnil", self.var()))
        if r < 0.62:
            return ("cderef", self.deref_id(), self.var())
        if r < 0.70:
            return ("not", self.cond(depth + 1))
        if r < 0.85:
            return ("and", self.cond(depth + 1), self.cond(depth + 1))
        return ("or", self.cond(depth + 1), self.cond(depth + 1))

    def callees(self):
        k = self.p["funcs"][self.f]["pkg"]
        return [g for g, fd in enumerate(self.p["funcs"]) if fd["pkg"] <= k and g != 0]

    def call(self, forward_only):
        cs = [g for g in self.callees() if (g > self.f) == forward_only]
        if not cs:
            return None
        g = self.rng.choice(cs)
        fd = self.p["funcs"][g]
        args = [self.atom() for _ in range(fd["nparams"])]
        if fd["method"] and args[0] in ("nil",):
            args[0] = self.var()      # a typed nil conversion as receiver is outside the fragment
        if args and forward_only and self.rng.random() < 0.3:
            # one argument is itself a call (a spelling of tmp = h(..); g(.., tmp, ..)); the other arguments
            # must not be package-level variables, whose read is not ordered with respect to the inner call
            hs = [h for h in self.callees() if h > self.f]
            h = self.rng.choice(hs)
            i = self.rng.randrange(len(args))
            hargs = [self.atom() for _ in range(self.p["funcs"][h]["nparams"])]
            if self.p["funcs"][h]["method"] and hargs[0] == "nil":
                hargs[0] = self.var()
            args = [a if not (isinstance(a, tuple) and a[0] == "G") else "new" for a in args]
            args[i] = ("nest", h, hargs, self.cs_id())
        x = self.var() if self.rng.random() < 0.7 else None
        return ("call", x, g, args, self.cs_id())

    def stmt(self, depth, tail):
        r = self.rng.random()
        if r < 0.22:
            return ("assign", self.var(), self.atom())
        if r < 0.42:
            return ("deref", self.deref_id(), self.var())
        if self.simple and 0.42 <= r < 0.62:
            return ("assign", self.var(), self.atom())
        if r < 0.56:
            c = self.call(True)
            if c is not None:
                return c
            return ("assign", self.var(), self.atom())
        if r < 0.62:
            c = self.call(False)          # possibly recursive: only under an opaque test (terminates with the oracle)
            if c is not None:
                return ("if", ("opaque",), c, ("skip",))
            return ("deref", self.deref_id(), self.var())
        if r < 0.80 and depth < 3:
            c = self.cond()
            a = self.block(self.rng.randint(1, 3), depth + 1, tail)
            b = self.block(self.rng.randint(0, 2), depth + 1, tail) if self.rng.random() < 0.5 else ("skip",)
            return ("if", c, a, b)
        if r < 0.88 and depth < 2:
            self.loops = getattr(self, "loops", 0) + 1
            c = ("opaque",) if self.rng.random() < 0.4 else ("and", ("opaque",), self.cond(1))
            w = ("while", c, self.block(self.rng.randint(1, 3), depth + 1, False))
            self.loops -= 1
            return w
        if tail and r < 0.97:
            return ("return", self.atom())
        return ("assign", self.var(), self.atom())

    def block(self, n, depth, tail):
        out = []
        for i in range(n):
            s = self.stmt(depth, tail and i == n - 1)
            out.append(s)
            if not M.falls(s):
                break
        return M.seq(out)


def guard_all(rng, p, keep=()):
    """wrap every dereference (except ids in `keep`) in a successful nil check of the same variable"""
    def gc(c):
        k = c[0]
        if k == "cderef":
            if c[1] in keep:
                return c
            return ("and", ("nonnil", c[2]), c) if rng.random() < 0.5 else ("not", ("or", ("not", ("nonnil", c[2])), ("not", c)))
        if k == "not":
            return ("not", gc(c[1]))
        if k in ("and", "or"):
            return (k, gc(c[1]), gc(c[2]))
        return c

    def go(s):
        k = s[0]
        if k == "seq":
            return M.seq(M.flatten(go(s[1])) + M.flatten(go(s[2])))
        if k == "deref":
            if s[1] in keep:
                return s
            x = s[2]
            r = rng.random()
            if r < 0.4:
                return ("if", ("nonnil", x), s, ("skip",))
            if r < 0.6:
                return ("if", ("not", ("nonnil", x)), ("skip",), s)
            if r < 0.8:
                return ("if", ("and", ("nonnil", x), ("opaque",)), s, ("skip",))
            return ("if", ("or", ("not", ("nonnil", x)), ("opaque",)), ("skip",), s)
        if k == "calli":
            if s[7] in keep:
                return s
            return ("if", ("nonnil", s[2]), s, ("skip",))
        if k == "if":
            return ("if", gc(s[1]), go(s[2]), go(s[3]))
        if k == "while":
            return ("while", gc(s[1]), go(s[2]))
        return s

    q = dict(p)
    q["funcs"] = [dict(fd, body=go(fd["body"])) for fd in p["funcs"]]
    return q


def respect_convention(p):
    """every `return a, nil` of an error-returning function returns a fresh value instead (the callee respects the
    (value, error) convention: a nil error comes with a non-nil value), and every such function may fail with
    (nil, fresh error)"""
    def go(s):
        k = s[0]
        if k == "seq":
            return M.seq(M.flatten(go(s[1])) + M.flatten(go(s[2])))
        if k == "if":
            return ("if", s[1], go(s[2]), go(s[3]))
        if k == "while":
            return ("while", s[1], go(s[2]))
        if k == "return2" and s[2] == "nil":
            return ("return2", "new", "nil")
        return s
    q = dict(p)
    def end(b):
        # ... and may fail: if opaque() { return nil, errors.New(..) } first
        b = M.seq([("if", ("opaque",), ("return2", "nil", "new"), ("skip",))] + M.flatten(b))
        return M.seq(M.flatten(b) + [("return2", "new", "nil")]) if M.falls(b) else b
    q["funcs"] = [dict(fd, body=end(go(fd["body"]))) if fd.get("err") else fd for fd in p["funcs"]]
    return q


class EGen(Gen):
    """programs with the (value, error) convention (C08): error-returning functions whose error operand is the
    literal nil, a fresh error, or an error variable inside its own `!= nil` check (forwarding); callers that check
    `err != nil` (early return) or `err == nil` (guarded use), use the value unchecked, overwrite the error before
    the check, or ignore it"""

    def program(self):
        r = self.rng
        nf = r.randint(2, 5)
        npk = r.randint(1, self.max_pkgs)
        funcs = []
        for f in range(nf):
            pkg = npk - 1 if f == 0 else r.randrange(npk)
            nparams = 0 if f == 0 else r.choice([0, 1, 2, 2])
            err = f != 0 and r.random() < 0.65
            if not err and nparams == 1:
                nparams = 2          # keep contracts out of this stream
            funcs.append(dict(nparams=nparams, pkg=pkg, method=False, body=("skip",), ptypes=["T"] * nparams, rtype="T",
                              ltypes={}, impl=None, err=err, okform=err and r.random() < self.p_ok,
                              named=err and r.random() < self.p_named))
        if not any(fd["err"] for fd in funcs):
            funcs.append(dict(nparams=1, pkg=0, method=False, body=("skip",), ptypes=["T"], rtype="T", ltypes={}, impl=None, err=True))
        self.p = dict(funcs=funcs, ginit=[], gpkg=[], npkgs=npk, sentinel=r.random() < self.p_sentinel, sentinel_pkg=0)
        self.next_d = 1
        self.next_cs = 1
        for f in range(len(funcs)):
            self.f = f
            fd = funcs[f]
            self.nloc = fd["nparams"] + r.randint(1, 3)
            for q in range(r.randint(1, 2)):
                fd["ltypes"][50 + q] = "E"
            if any(g["err"] and g.get("okform") for g in funcs):
                fd["ltypes"][52] = "B"
            fd["body"] = self.block(r.randint(2, 5), 0, True)
            if fd["err"] and M.falls(fd["body"]):
                gs = [g for g in self.errcallees(True) if self.form_of(g) == self.form_of(f)]
                if gs and r.random() < 0.6:
                    g = r.choice(gs)
                    fd["body"] = M.seq(M.flatten(fd["body"]) + [("retcall", g, [self.atom() for _ in range(funcs[g]["nparams"])], self.cs_id())])
                elif self.safe_returns:
                    fd["body"] = M.seq(M.flatten(fd["body"]) + [self.ret()])
        return self.p

    safe_returns = False   # stream err-safe: plain returns never return nil
    p_ok = 0.3        # share of error-returning functions spelled (value, ok bool)
    p_named = 0.3     # ... with named results
    p_forward = 0.4   # share of the returns of an error-returning function that forward a callee directly
    p_sentinel = 0.3  # share of programs in which a fresh error may be spelled as a package-level sentinel

    def evars(self, form="E"):
        fd = self.p["funcs"][self.f]
        return [L(n) for n, t in fd["ltypes"].items() if t == form]

    def form_of(self, g):
        return "B" if self.p["funcs"][g].get("okform") else "E"

    def ret(self, a=None):
        fd = self.p["funcs"][self.f]
        a = self.atom() if a is None else a
        if fd["err"] and self.rng.random() < self.p_forward:
            # direct forwarding `return g(args)` of a callee with the same result types
            gs = [g for g in self.errcallees(True) if self.form_of(g) == self.form_of(self.f)]
            if gs:
                g = self.rng.choice(gs)
                return ("retcall", g, [self.atom() for _ in range(self.p["funcs"][g]["nparams"])], self.cs_id())
        if fd["err"] and self.safe_returns:
            # every plain return hands back a fresh value, with or without an error ("always safe" functions)
            return ("return2", "new", "nil" if self.rng.random() < 0.6 else "new")
        if fd["err"]:
            r = self.rng.random()
            if r < 0.45:
                return ("return2", a, "nil")
            if r < 0.9:
                return ("return2", "nil" if self.rng.random() < 0.7 else a, "new")
            return ("return2", "nil", "nil")       # violates the convention
        return ("return", a)

    def fail_ret(self, xe):
        """the early return of a failed check"""
        fd = self.p["funcs"][self.f]
        if fd["err"]:
            # forwarding the callee's error (inside its own check); an ok result is only ever a constant
            same = self.p["funcs"][self.f]["ltypes"].get(xe[1]) == "E" and not fd.get("okform")
            return ("return2", "new" if self.safe_returns else "nil", xe if same and self.rng.random() < 0.6 else "new")
        return ("return", "nil")

    def errcallees(self, forward_only=True):
        k = self.p["funcs"][self.f]["pkg"]
        return [g for g, fd in enumerate(self.p["funcs"]) if fd["pkg"] <= k and g != 0 and fd["err"] and (g > self.f) == forward_only]

    def callees(self):
        k = self.p["funcs"][self.f]["pkg"]
        return [g for g, fd in enumerate(self.p["funcs"]) if fd["pkg"] <= k and g != 0 and not fd["err"]]

    def call2_pattern(self, tail):
        r = self.rng
        gs = self.errcallees(True)
        if not gs:
            return None
        g = r.choice(gs)
        fd = self.p["funcs"][g]
        args = [self.atom() for _ in range(fd["nparams"])]
        x = r.choice([v for v in self.vars() if v[0] == "L"])
        evs = self.evars(self.form_of(g))
        xe = r.choice(evs) if evs and r.random() < 0.9 else None
        call = ("call2", x, xe, g, args, self.cs_id())
        use = lambda: ("deref", self.deref_id(), x)
        shape = r.randrange(7)
        if xe is None or shape == 0:
            return M.seq([call, use()])                                    # unchecked
        if shape == 1 and tail:
            return M.seq([call, ("if", ("nonnil", xe), self.fail_ret(xe), ("skip",)), use(), self.stmt(1, False)])   # early return
        if shape == 2:
            return M.seq([call, ("if", ("not", ("nonnil", xe)), M.seq([use(), self.stmt(1, False)]), ("skip",))])     # err == nil { use }
        if shape == 3:
            return M.seq([call, ("if", ("or", ("nonnil", xe), ("opaque",)), ("skip",), use())])                      # compound
        if shape == 4:
            # the error is overwritten before the check
            same = [g2 for g2 in self.errcallees(True) if self.form_of(g2) == self.form_of(g)]
            over = ("assign", xe, "nil") if r.random() < 0.5 or not same else ("call2", None, xe, r.choice(same), None, None)
            if over[0] == "call2":
                g2 = over[3]
                over = ("call2", None, xe, g2, [self.atom() for _ in range(self.p["funcs"][g2]["nparams"])], self.cs_id())
            return M.seq([call, over, ("if", ("not", ("nonnil", xe)), use(), ("skip",))])
        if shape == 5:
            y = r.choice([v for v in self.vars() if v[0] == "L"])
            return M.seq([call, ("if", ("not", ("nonnil", xe)), M.seq([("assign", y, x), ("deref", self.deref_id(), y)]), ("skip",))])   # copy after check
        return M.seq([call, ("if", ("nonnil", xe), use(), ("skip",))])      # used on the failure path: unchecked

    def stmt(self, depth, tail):
        r = self.rng.random()
        if r < 0.3 and depth < 2:
            c = self.call2_pattern(tail)
            if c is not None:
                return c
        s = Gen.stmt(self, depth, tail)
        if s[0] == "return":
            return self.ret(s[1])
        return s

    def cond(self, depth=0):
        c = Gen.cond(self, depth)
        evs = self.evars("E") + self.evars("B")
        # (not inside a loop: a check of an error variable in a loop whose call precedes the loop is not honoured
        # by NilAway -- known finding F26 -- and would show up as a difference on every run)
        if c[0] == "nonnil" and evs and self.rng.random() < 0.25 and not getattr(self, "loops", 0):
            return ("nonnil", self.rng.choice(evs))
        return c


class IGen(Gen):
    """programs with interfaces (C09): interfaces I_k with methods X<k>x<m> (0 or 2 parameters, some of interface
    type), implementations S_j (pointer or value receivers, any package), interface-typed locals, parameters and
    results; conversions at assignments, call arguments (of functions and of interface methods) and returns"""

    def program(self):
        r = self.rng
        nf = r.randint(1, 3)
        npk = r.randint(1, self.max_pkgs)
        ni = r.randint(1, 2)
        ifaces = []
        for k in range(ni):
            methods = []
            for m in range(r.randint(1, 2)):
                if r.random() < 0.4:
                    pt = []
                else:
                    pt = [("I", r.randrange(ni)) if r.random() < 0.35 else "T", "T"]
                    r.shuffle(pt)
                methods.append(dict(ptypes=pt))
            if k > 0 and r.random() < self.p_extend:
                # I_k repeats the methods of I_(k-1) (same names and signatures) before its own: every I_k is an I_(k-1)
                base = k - 1
                own = methods[:r.randint(0, 1)]
                ifaces.append(dict(methods=[dict(ptypes=list(md["ptypes"])) for md in ifaces[base]["methods"]] + own, base=base))
            else:
                ifaces.append(dict(methods=methods))
        funcs = []
        for f in range(nf):
            pkg = npk - 1 if f == 0 else r.randrange(npk)
            nparams = 0 if f == 0 else r.choice([0, 1, 2, 2, 3])
            ptypes = ["T"] * nparams
            if nparams >= 2:
                for i in range(nparams):
                    if r.random() < 0.3:
                        ptypes[i] = ("I", r.randrange(ni))
            rtype = ("I", r.randrange(ni)) if (f != 0 and r.random() < 0.2) else "T"
            funcs.append(dict(nparams=nparams, pkg=pkg, method=False, body=("skip",), ptypes=ptypes, rtype=rtype, ltypes={}, impl=None))
        impls = []
        for k in range(ni):
            for _ in range(r.randint(1, 2)):
                j = len(impls)
                ipkg = r.randrange(npk)
                fs = []
                for m, md in enumerate(ifaces[k]["methods"]):
                    fs.append(len(funcs))
                    funcs.append(dict(nparams=1 + len(md["ptypes"]), pkg=ipkg, method=False, body=("skip",),
                                      ptypes=[("S", j)] + list(md["ptypes"]), rtype="T", ltypes={}, impl=(j, m)))
                impls.append(dict(iface=k, funcs=fs, pkg=ipkg, valrecv=r.random() < 0.35, embed=r.random() < 0.3))
        ngl = r.choice([0, 0, 1]) if self.globals_ else 0
        self.p = dict(funcs=funcs, ginit=[r.random() < 0.5 for _ in range(ngl)], gpkg=[r.randrange(npk) for _ in range(ngl)],
                      npkgs=npk, ifaces=ifaces, impls=impls)
        self.next_d = 1
        self.next_cs = 1
        for f in range(len(funcs)):
            self.f = f
            fd = funcs[f]
            self.nloc = fd["nparams"] + r.randint(1, 3)
            for q in range(r.randint(1, 2)):
                fd["ltypes"][40 + q] = ("I", r.randrange(ni))
            fd["body"] = self.block(r.randint(2, 6), 0, True)
        return self.p

    # typed variables
    def vars_t(self, ty):
        fd = self.p["funcs"][self.f]
        k = fd["pkg"]
        out = []
        for i in range(self.nloc):
            t = fd["ptypes"][i] if i < fd["nparams"] else "T"
            if t == ty:
                out.append(L(i))
        for n, t in fd["ltypes"].items():
            if t == ty:
                out.append(L(n))
        if ty == "T":
            out += [G(g) for g in range(len(self.p["ginit"])) if self.p["gpkg"][g] <= k]
        return out

    def vars(self):
        return self.vars_t("T")

    p_extend = 0.5     # share of the second interfaces that extend the first

    def extends(self, k2, ik):
        """is I_k2 (strictly) an extension of I_ik?"""
        b = self.p["ifaces"][k2].get("base")
        while b is not None:
            if b == ik:
                return True
            b = self.p["ifaces"][b].get("base")
        return False

    def impls_of(self, ik):
        k = self.p["funcs"][self.f]["pkg"]
        return [j for j, im in enumerate(self.p["impls"]) if (im["iface"] == ik or self.extends(im["iface"], ik)) and im["pkg"] <= k]

    def atom_t(self, ty):
        if ty == "T":
            return self.atom()
        r = self.rng.random()
        js = self.impls_of(ty[1])
        vs = self.vars_t(ty)
        if r < 0.15 or (not js and not vs):
            return "nil"
        # a variable of an interface type that extends this one: an interface-to-interface conversion
        wide = [(v, t[1]) for k2 in range(len(self.p["ifaces"])) if self.extends(k2, ty[1]) for v in self.vars_t(("I", k2)) for t in [("I", k2)]]
        if wide and r > 0.55:
            v, k2 = self.rng.choice(wide)
            return ("iconv", ty[1], k2, v)
        if js and (r < 0.6 or not vs):
            return ("conv", ty[1], self.rng.choice(js))
        return self.rng.choice(vs) if vs else "nil"

    def callees(self):
        k = self.p["funcs"][self.f]["pkg"]
        return [g for g, fd in enumerate(self.p["funcs"]) if fd["pkg"] <= k and g != 0 and not fd.get("impl")]

    def call(self, forward_only):
        cs = [g for g in self.callees() if (g > self.f) == forward_only]
        if not cs:
            return None
        g = self.rng.choice(cs)
        fd = self.p["funcs"][g]
        args = [self.atom_t(t) for t in fd["ptypes"]]
        xs = self.vars_t(fd["rtype"])
        x = self.rng.choice(xs) if xs and self.rng.random() < 0.8 else None
        return ("call", x, g, args, self.cs_id())

    def dispatch(self):
        fd = self.p["funcs"][self.f]
        ivars = [(v, t[1]) for v, t in [(L(n), t) for n, t in fd["ltypes"].items()] +
                 [(L(i), fd["ptypes"][i]) for i in range(fd["nparams"])] if isinstance(t, tuple) and t[0] == "I"]
        if not ivars:
            return None
        xi, ik = self.rng.choice(ivars)
        m = self.rng.randrange(len(self.p["ifaces"][ik]["methods"]))
        args = [self.atom_t(t) for t in self.p["ifaces"][ik]["methods"][m]["ptypes"]]
        x = self.var() if self.rng.random() < 0.8 else None
        return ("calli", x, xi, ik, m, args, self.cs_id(), self.deref_id())

    def stmt(self, depth, tail):
        r = self.rng.random()
        fd = self.p["funcs"][self.f]
        if r < 0.16:
            c = self.dispatch()
            if c is not None:
                # inside an implementation a dispatched call may come back to it: only under an opaque test
                # (the recursion then ends with the oracle)
                return ("if", ("opaque",), c, ("skip",)) if fd.get("impl") else c
        if r < 0.30:
            # assignment to an interface variable: conversion, nil or copy
            ivs = [(L(n), t) for n, t in fd["ltypes"].items()]
            if ivs:
                x, t = self.rng.choice(ivs)
                return ("assign", x, self.atom_t(t))
        if tail and r > 0.93 and fd["rtype"] != "T":
            return ("return", self.atom_t(fd["rtype"]))
        s = Gen.stmt(self, depth, tail)
        if s[0] == "return" and fd["rtype"] != "T":
            return ("return", self.atom_t(fd["rtype"]))
        if fd.get("impl") and not self.p["impls"][fd["impl"][0]].get("valrecv") and self.rng.random() < 0.15:
            return ("deref", self.deref_id(), L(0))     # the receiver's field (pointer receivers only)
        return s

    def var(self):
        vs = self.vars()
        fd = self.p["funcs"][self.f]
        if fd.get("impl"):
            vs = [v for v in vs if v != L(0)]
        return self.rng.choice(vs)

    def cond(self, depth=0):
        c = Gen.cond(self, depth)
        # nil tests of interface variables too
        fd = self.p["funcs"][self.f]
        if c[0] == "nonnil" and fd["ltypes"] and self.rng.random() < 0.3:
            return ("nonnil", L(self.rng.choice(sorted(fd["ltypes"]))))
        return c


# ---------------------------------------------------------------- building the module

MAIN_TMPL = """package main

import (
	"fmt"
	"runtime"
	"strings"

	"ex.com/mg/rt"
%(imports)s
)

type entry struct {
	name string
	run  func()
}

var entries = []entry{
%(entries)s
}

func runOne(e entry, v int, nb int) (line string) {
	bits := make([]bool, nb)
	for j := 0; j < nb; j++ {
		bits[j] = (v>>uint(j))&1 == 1
	}
	rt.SetBits(bits)
	defer func() {
		if r := recover(); r != nil {
			line = "?"
			pcs := make([]uintptr, 64)
			n := runtime.Callers(2, pcs)
			fr := runtime.CallersFrames(pcs[:n])
			for {
				f, more := fr.Next()
				base := e.name
				if j := strings.Index(base, "#"); j >= 0 {
					base = base[:j]
				}
				if strings.Contains(f.File, "/"+base+"/p") {
					i := strings.Index(f.File, "/"+base+"/p")
					line = fmt.Sprintf("%%s:%%d", f.File[i+1:], f.Line)
					break
				}
				if !more {
					break
				}
			}
			if _, ok := r.(runtime.Error); !ok {
				line = "other:" + fmt.Sprint(r)
			}
		}
	}()
	e.run()
	if rt.Marked {
		return "N"
	}
	if rt.Overflowed() {
		return "-!"
	}
	return "-"
}

func main() {
	nb := %(nb)d
	for _, e := range entries {
		out := make([]string, 0, 1<<uint(nb))
		for v := 0; v < 1<<uint(nb); v++ {
			out = append(out, runOne(e, v, nb))
		}
		fmt.Println(e.name + " " + strings.Join(out, " "))
	}
}
"""


def probed(fd):
    """one-parameter plain functions from *T to *T: candidates for a nonnil->nonnil contract"""
    return (fd["nparams"] == 1 and not fd.get("method") and not fd.get("impl") and not fd.get("err")
            and (fd.get("ptypes") or ["T"])[0] == "T" and fd.get("rtype", "T") == "T")


SRC = {}    # program name -> the Go source that was analysed and run (with the spellings chosen for it)
SRET = {}   # program name -> {(file, line)} of the return statements whose error operand is the package-level sentinel


def write_module(root, progs, styles):
    """progs: {name: program}; returns ({name: {deref id: (file, line, col)}}, {name: {call site: (file, line, col call, col arg)}})"""
    pos, cpos = {}, {}
    os.makedirs(os.path.join(root, "rt"), exist_ok=True)
    open(os.path.join(root, "rt", "rt.go"), "w").write(M.RT_GO)
    open(os.path.join(root, "go.mod"), "w").write("module %s\n\ngo 1.22\n" % M.MODULE)
    imports, entries = [], []
    for name, p in progs.items():
        pr = M.Printer(p, name, styles.get(name))
        pr.files_cache = pr.files()
        for rel, txt in pr.files_cache.items():
            fn = os.path.join(root, rel)
            os.makedirs(os.path.dirname(fn), exist_ok=True)
            open(fn, "w").write(txt)
        SRC[name] = "".join("// %s\n%s" % (rel, txt) for rel, txt in sorted(pr.files_cache.items()))
        pos[name] = dict(pr.pos)
        cpos[name] = dict(pr.cpos)
        SRET[name] = set(pr.sret)
        k = p["funcs"][0]["pkg"]
        for j in range(p["npkgs"]):
            imports.append('\t%s "%s"' % (pr.pkgname(j), pr.pkgpath(j)))
        resets = "; ".join("%s.Reset()" % pr.pkgname(j) for j in range(p["npkgs"]))
        entries.append('\t{"%s", func() { %s; %s.F0() }},' % (name, resets, pr.pkgname(k)))
        # probes of the one-parameter functions: called with a non-nil argument, is the result ever nil?
        for f, fd in enumerate(p["funcs"]):
            if probed(fd):
                entries.append('\t{"%s#%d", func() { %s; if %s.F%d(&%s.T{}) == nil { rt.Marked = true } }},' % (
                    name, f, resets, pr.pkgname(fd["pkg"]), f, pr.pkgname(0)))
    os.makedirs(os.path.join(root, "cmd", "run"), exist_ok=True)
    open(os.path.join(root, "cmd", "run", "main.go"), "w").write(MAIN_TMPL % dict(imports="\n".join(imports), entries="\n".join(entries), nb=NB))
    return pos, cpos


def run_truth(root):
    env = dict(os.environ, GOFLAGS="-mod=mod", GOPROXY="off", GOWORK="off")
    rc, out, err = common.sh2(["go", "build", "-gcflags=all=-l", "-o", os.path.join(root, "runbin"), "./cmd/run"], cwd=root, timeout=1200, env=env)
    if rc != 0:
        return None, "go build of the generated module failed:\n" + (out + err)[-3000:]
    rc, out, err = common.sh2([os.path.join(root, "runbin")], cwd=root, timeout=1200)
    if rc != 0:
        txt = out + err
        if "stack overflow" in txt:
            # a generated program that recurses without bound (the model's exec runs out of fuel): name it
            m = re.search(r"goroutine 1 .*?ex\.com/mg/(\w+)/p\d", txt, flags=re.S)
            if m:
                return None, "UNBOUNDED-RECURSION " + m.group(1)
        return None, "running the generated programs failed:\n" + txt[-3000:]
    res = {}
    for l in out.splitlines():
        parts = l.split(" ")
        res[parts[0]] = parts[1:]
    return res, None


def run_real(root, flags=None):
    fl = {"group-error-messages": "false"}
    fl.update(flags or {})
    args = ["analyze", "-dir", root, "-triggers"]
    for k, v in fl.items():
        args += ["-flag", "%s=%s" % (k, v)]
    args.append("./...")
    rc, out, err = common.harness(args, timeout=1800)
    if rc != 0:
        return None, "harness analyze failed rc=%s: %s" % (rc, err[-2000:])
    try:
        return json.loads(out.strip().splitlines()[-1]), None
    except Exception:  # noqa
        return None, "unparsable harness output: %s / %s" % (out[-300:], err[-300:])


# ---------------------------------------------------------------- model side

def enc(site):
    k = site[0]
    if k == "param":
        return 7 * (site[1] * 64 + site[2])
    if k == "result":
        return 7 * site[1] + 1
    if k == "global":
        return 7 * site[1] + 2
    if k == "callparam":
        return 7 * (site[2] * 64 + site[1]) + 3
    if k == "callresult":
        return 7 * (site[2] * 64 + site[1]) + 4
    if k == "iparam":
        return 7 * ((site[1] * 8 + site[2]) * 8 + site[3]) + 5
    return 7 * (site[1] * 8 + site[2]) + 6


def dec(n):
    r, q = n % 7, n // 7
    if r == 0:
        return ("param", q // 64, q % 64)
    if r == 1:
        return ("result", q)
    if r == 2:
        return ("global", q)
    if r == 3:
        return ("callparam", q % 64, q // 64)
    if r == 4:
        return ("callresult", q % 64, q // 64)
    if r == 5:
        return ("iparam", q // 64, (q // 8) % 8, q % 8)
    return ("iresult", q // 8, q % 8)


def parse_trigs(txt):
    out = []
    for t in txt.strip().split(";"):
        t = t.strip()
        if not t:
            continue
        a = [int(x) for x in t.split(",")]
        out.append(tuple(a))  # (id, pk, p, ck, c, ctrl)
    return out


def run_model(progs, ctrs=None):
    ctrs = ctrs or {}
    lines = ["NB %d %s" % (NB, M.prog_line(p, ctrs.get(n, ()))) for n, p in progs.items()]
    rc, out, err = eg.run_lines("modelrun", "minigo", lines)
    if rc != 0 or len(out) != len(lines):
        return None, "modelrun minigo failed rc=%s (%d/%d lines): %s" % (rc, len(out), len(lines), err[-1500:])
    res = {}
    for name, l in zip(progs, out):
        head, decl, funcs, dups, inferred, runs = [x.strip() for x in l.split("|")]
        flags = dict(kv.split("=") for kv in head.split())
        an = flags["an"] == "1"
        res[name] = dict(wf=flags["wf"] == "1", guarded=flags["guarded"] == "1", an=an, gsafe=flags["gsafe"] == "1", clocal=flags["clocal"] == "1", nodel=flags.get("nodel", "1") == "1",
                         decl=parse_trigs(decl), funcs=[parse_trigs(x) for x in funcs.split("/")] if an else [],
                         dups=[parse_trigs(x) for x in dups.split("/")] if an else [],
                         infer=set(int(x) for x in inferred.split(",") if x),
                         runs=[int(x) for x in runs.split(",")])
    return res, None


def site_pkg(p, s, cspkg=None):
    if s[0] in ("param", "result"):
        return p["funcs"][s[1]]["pkg"]
    if s[0] in ("callparam", "callresult"):
        return (cspkg or {}).get(s[2], p["funcs"][s[1]]["pkg"])
    if s[0] in ("iparam", "iresult"):
        return 0
    return p["gpkg"][s[1]]


def callsite_pkgs(p):
    """call site id -> package of the calling function"""
    out = {}
    q = M.expand(p)

    def go(s, k):
        kind = s[0]
        if kind == "seq":
            go(s[1], k); go(s[2], k)
        elif kind == "call":
            out[s[4]] = k
        elif kind == "if":
            go(s[2], k); go(s[3], k)
        elif kind == "while":
            go(s[2], k)

    for fd in q["funcs"]:
        go(fd["body"], fd["pkg"])
    return out


def stable_groups(p):
    """calls whose arguments are all literals are one `stable expression` per (calling function, callee) for the
    implementation: their call-site sites are interchangeable (same constraints); map each to the group's first"""
    rep = {}
    q = M.expand(p)

    def go(s, f, seen):
        kind = s[0]
        if kind == "seq":
            go(s[1], f, seen); go(s[2], f, seen)
        elif kind == "call":
            if all(a == "nil" for a in s[3]):
                key = (f, s[2], len(s[3]))
                seen.setdefault(key, s[4])
                rep[s[4]] = min(seen[key], s[4])
                seen[key] = rep[s[4]]
        elif kind == "if":
            go(s[2], f, seen); go(s[3], f, seen)
        elif kind == "while":
            go(s[2], f, seen)

    for f, fd in enumerate(q["funcs"]):
        go(fd["body"], f, {})
    return rep


def canon_triggers(ts, rep):
    def cs(site):
        if isinstance(site, tuple) and site and site[0] in ("callparam", "callresult"):
            return (site[0], site[1], rep.get(site[2], site[2]))
        return site
    # an edge from a site to itself (an interface value assigned to a variable of the same interface type is treated
    # as an implementation of the interface by itself) constrains nothing
    return set((cs(a), cs(b), cs(c)) for (a, b, c) in ts if not (c is None and a == b))


def scenario_of(p, m):
    """engine scenario (packages in dependency order, all sites exported) from the model's triggers"""
    npk = p["npkgs"]
    per = [[] for _ in range(npk)]
    cspkg = callsite_pkgs(p)
    # declaration triggers go to the package of the variable
    for t in m["decl"]:
        per[site_pkg(p, dec(t[4]))].append(t)
    for f, ts in enumerate(m["funcs"]):
        per[p["funcs"][f]["pkg"]] += ts
    for f, ts in enumerate(m["dups"]):      # per caller: duplicated triggers, then per function: affiliation triggers
        per[p["funcs"][f % len(p["funcs"])]["pkg"]] += ts
    sites = {}
    for ts in per:
        for (_, pk, pp, ck, cc, ctrl) in ts:
            for kk, ss in ((pk, pp), (ck, cc)):
                if kk == 2:
                    sites[ss] = dec(ss)
            if ctrl >= 0:
                sites[ctrl] = dec(ctrl)
    site_list = [(n, True, s[0] in ("param", "callparam", "iparam"), site_pkg(p, s, cspkg)) for n, s in sorted(sites.items())]
    pkgs = []
    tid = 1000
    for k in range(npk):
        trigs = []
        for (d, pk, pp, ck, cc, ctrl) in per[k]:
            if pk == 1:
                continue          # a never-nil producer constrains nothing
            if d == 0:
                tid += 1
                use = tid
            else:
                use = d
            trigs.append((use, {0: eg.A, 1: eg.N, 2: eg.C}[pk], {0: eg.A, 2: eg.C}[ck], pp, cc, ctrl))
        pkgs.append(dict(imports=list(range(k)), annots=[], trigs=trigs))
    return eg.Scenario(site_list, pkgs)


def whole_scenario(p, m):
    """all triggers of the program as one package (the whole-program constraint system of theorem flow_sound)"""
    q = dict(p, npkgs=1, funcs=[dict(fd, pkg=0) for fd in p["funcs"]], gpkg=[0 for _ in p["gpkg"]])
    return scenario_of(q, m)


def model_flagged(progs, model):
    """per program: the dereference ids that a nil source reaches (specification side of M1 on the model's triggers)"""
    names = list(progs)
    scs = [whole_scenario(progs[n], model[n]) for n in names]
    rc, out, err = eg.run_spec([s.line() for s in scs])
    if rc != 0 or len(out) != len(scs):
        return None, "modelrun enginespec failed: %s" % err[-1000:]
    res = {}
    for n, l in zip(names, out):
        mm = re.match(r"\{flow=(\d);N\[(.*?)\];M\[(.*?)\]\}", l.strip())
        nil = set(int(x) for x in mm.group(2).split(",") if x)
        fl = set()
        for ts in [model[n]["decl"]] + model[n]["funcs"] + model[n]["dups"]:
            for (d, pk, pp, ck, cc, ctrl) in ts:
                if ck == 0 and (pk == 0 or (pk == 2 and pp in nil)):
                    fl.add(d)
        res[n] = (fl, mm.group(1) == "1")
    return res, None


def model_reports(progs, model):
    """deref ids at which the engine model reports a conflict, per program"""
    names = list(progs)
    scs = [scenario_of(progs[n], model[n]) for n in names]
    rc, out, err = eg.run_model([s.line() for s in scs])
    if rc != 0 or len(out) != len(scs):
        return None, "modelrun engine failed: %s" % err[-1000:]
    res = {}
    for n, l in zip(names, out):
        r = eg.parse_result_line(l)
        if r is None:
            res[n] = None
            continue
        ids = set()
        for pk in r:
            for c in pk["conflicts"]:
                ids.add(sink_of(c))
        res[n] = ids
    return res, None


def sink_of(c):
    """deref id at the end of the non-nil explanation of a conflict as printed by modelrun"""
    if c.startswith("S"):
        return int(c[1:])
    m = re.match(r"O\((.*)\|(.*)\)", c)
    non = [int(x) for x in m.group(2).split(",")]
    return non[-2]


# ---------------------------------------------------------------- real side, abstracted

FN_RE = [
    (re.compile(r"^\S+\.F(\d+)$"), lambda m, p: ("func", int(m.group(1)), 0)),
    (re.compile(r"^\(\*\S+\.T\)\.M(\d+)$"), lambda m, p: ("func", int(m.group(1)), 1)),
    (re.compile(r"^\(\*?\S+\.S(\d+)B?\)\.X(\d+)x(\d+)$"), lambda m, p: ("func", p["impls"][int(m.group(1))]["funcs"][int(m.group(3))], 1)),
    (re.compile(r"^\(\S+\.I(\d+)\)\.X(\d+)x(\d+)$"), lambda m, p: ("imeth", int(m.group(1)), int(m.group(3)))),
]


def parse_fn(full, p):
    for rx, f in FN_RE:
        m = rx.match(full)
        if m:
            try:
                return f(m, p)
            except (IndexError, KeyError):
                return None
    return None


def parse_site(s, cp, p=None):
    """site key as printed by the driver (`<key type>:<String()>[|<qualified function name>]`) -> abstract site"""
    head, _, full = s.partition("|")
    kind, _, desc = head.partition(":")
    kind = kind.split(".")[-1]
    if kind == "GlobalVarAnnotationKey":
        m = re.search(r"Global Variable G(\d+)$", desc)
        if desc.endswith("Global Variable ErrS"):
            return ("sentinel",)
        return ("global", int(m.group(1))) if m else ("?", s)
    fn = parse_fn(full, p or {})
    if fn is None:
        return ("?", s)
    if kind == "ParamAnnotationKey":
        m = re.match(r"Param (\d+):", desc)
        if not m:
            return ("?", s)
        n = int(m.group(1))
        return ("iparam", fn[1], fn[2], n) if fn[0] == "imeth" else ("param", fn[1], n + fn[2])
    if kind == "RecvAnnotationKey":
        return ("param", fn[1], 0) if fn[0] == "func" else ("?", s)
    if kind == "RetAnnotationKey":
        m = re.match(r"Result (\d+) of", desc)
        if m and m.group(1) != "0":
            return ("eresult", fn[1]) if fn[0] == "func" else ("?", s)
        return ("iresult", fn[1], fn[2]) if fn[0] == "imeth" else ("result", fn[1])
    if kind in ("CallSiteParamAnnotationKey", "CallSiteRetAnnotationKey") and fn[0] == "func":
        m = re.search(r" at Location (\S+):(\d+):(\d+)$", desc)
        if not m:
            return ("?", s)
        which = "arg" if kind == "CallSiteParamAnnotationKey" else "call"
        cs = cp.get((which, fn[1], m.group(1), int(m.group(2)), int(m.group(3))))
        if cs is None:
            return ("?", s)
        return ("callparam" if which == "arg" else "callresult", fn[1], cs)
    return ("?", s)


def call_index(cpos):
    """locations as NilAway prints them (last directory + file name) -> call site id"""
    idx = {}
    for cs, (f, ln, cc, ca, callee) in cpos.items():
        short = "/".join(f.split("/")[-2:])
        idx[("call", callee, short, ln, cc)] = cs
        idx[("arg", callee, short, ln, ca)] = cs
    return idx


def real_triggers(res, name, pos, cpos=None, prog=None):
    """abstract triggers of program `name`: set of (producer, consumer, controller) with producer in {'nil', site},
    consumer in {('deref', id), site}, controller a site or None; never-nil producers are dropped"""
    rev = {}
    for d, (f, ln, col) in pos.items():
        rev[(f, ln, col)] = d
    cp = call_index(cpos or {})
    out, odd = set(), []
    for t in res.get("triggers") or []:
        parts = t["pkg"].split("/")
        if len(parts) < 4 or parts[2] != name:
            continue
        if t["pk"] == "4":
            continue
        if not t["pk"] and not t["ck"]:
            continue          # a placeholder trigger of the error-return machinery that was resolved away
        # the package-level sentinel error: its declaration, and the returns `return a, ErrS` -- whose error trigger
        # (sentinel -> error result, nilability unknown to the function analysis) is inert in the fragment and whose
        # value triggers the engine removes in its second phase (the sentinel is never determined nil-able); the model
        # has no trigger for a return with a non-nil error
        if t["ck"] == "2" and t["cs"].endswith("Global Variable ErrS") and t["pk"] == "4" or (
                t["ck"] == "2" and t["cs"].endswith("Global Variable ErrS") and "errors.New" in t["ps"]):
            continue
        if t["ct"] == "*annotation.UseAsNonErrorRetDependentOnErrorRetNilability":
            if (t["file"], t["line"]) in SRET.get(name, ()):
                continue
            odd.append(t); continue
        if t["ct"] == "*annotation.UseAsErrorRetWithNilabilityUnknown":
            if (t["file"], t["line"]) in SRET.get(name, ()) and t["pk"] == "2" and t["ps"].endswith("Global Variable ErrS"):
                continue
            odd.append(t); continue
        if t["pk"] == "2" and t["ps"].endswith("Global Variable ErrS") and t["ct"] == "*annotation.UseAsErrorResult" and "Result 1 of" in t["cs"]:
            continue          # `return a, ErrS` resolved inside the function analysis: sentinel -> error result, inert
        if t["pk"] == "1":
            prod = "nil"
        elif t["pk"] == "2":
            prod = parse_site(t["ps"], cp, prog)
        else:
            odd.append(t); continue
        if t["ck"] == "1":
            d = rev.get((t["file"], t["line"], t["col"]))
            if d is None:
                odd.append(t); continue
            cons = ("deref", d)
        elif t["ck"] == "2":
            cons = parse_site(t["cs"], cp, prog)
        else:
            odd.append(t); continue
        ctrl = parse_site(t["ctrl"], cp, prog) if t["ctrl"] else None
        if prod[0] == "?" or cons[0] == "?" or (ctrl is not None and ctrl[0] == "?"):
            odd.append(t); continue
        if prod[0] == "eresult" and cons[0] == "eresult" and ctrl is None:
            continue          # `return g()`: the callee's error result feeds this function's; inert in the fragment
        out.add((prod, cons, ctrl))
    return out, odd


def real_contracts(res, name):
    """function indices of program `name` for which the real tool has (inferred) a nonnil->nonnil contract"""
    out = set()
    for c in res.get("contracts") or []:
        parts = c["pkg"].split("/")
        if len(parts) < 4 or parts[2] != name:
            continue
        m = re.search(r"\.F(\d+)$", c["func"])
        if m and "[{[nonnil] [nonnil]}]" in c["text"]:
            out.add(int(m.group(1)))
    return out


def model_triggers(m):
    out = set()
    for ts in [m["decl"]] + m["funcs"] + m["dups"]:
        for (d, pk, pp, ck, cc, ctrl) in ts:
            if pk == 1:
                continue
            prod = "nil" if pk == 0 else dec(pp)
            cons = ("deref", d) if ck == 0 else dec(cc)
            out.add((prod, cons, dec(ctrl) if ctrl >= 0 else None))
    return out


def real_reports(res, name, pos):
    """deref ids at which the real tool reports, plus diagnostics it reports elsewhere"""
    rev = {}
    for d, (f, ln, col) in pos.items():
        rev[(f, ln, col)] = d
    ids, other = set(), []
    for dg in res["diags"] or []:
        parts = dg["pkg"].split("/")
        if len(parts) < 4 or parts[2] != name:
            continue
        d = rev.get((dg["file"], dg["line"], dg["col"]))
        if d is None:
            other.append("%s:%d:%d %s" % (dg["file"], dg["line"], dg["col"], dg["message"].splitlines()[0][:80]))
        else:
            ids.add(d)
    return ids, other


def truth_panics(truth, name, pos):
    """per oracle vector: set of candidate deref ids on the panicking line ('-' none)"""
    byline = {}
    for d, (f, ln, col) in pos.items():
        byline.setdefault("%s:%d" % (f, ln), set()).add(d)
    out = []
    for x in truth.get(name, []):
        if x in ("-", "-!", "N"):
            out.append(None)
        else:
            out.append(byline.get(x, {"?" + x}))
    return out


def truth_nil_result(truth, name, f):
    """some run of F_f(non-nil) returned nil (None if the function was not probed)"""
    rs = truth.get("%s#%d" % (name, f))
    if rs is None:
        return None
    return any(x == "N" for x in rs)


def truth_complete(truth, name):
    """did every run that ended without a panic get all the answers it asked for (so that the 2^NB runs are all the
    executions of the program)?"""
    return all(x != "-!" for x in truth.get(name, []))


def show(p, name, ctr=()):
    if name in SRC:
        return SRC[name] + "model-line: " + M.prog_line(p, ctr) + "\n"
    pr = M.Printer(p, name, None)
    return "".join("// %s\n%s" % (k, v) for k, v in pr.files().items()) + "model-line: " + M.prog_line(p, ctr) + "\n"


# ---------------------------------------------------------------- the suite

def lone_variant(rng, p):
    """guard everything except one dereference; returns (program, kept id) or (None, None)"""
    ds = [d for d, _ in M.derefs_of(M.expand(p))]
    if not ds:
        return None, None
    d = rng.choice(ds)
    return guard_all(rng, p, keep={d}), d


class Case:
    def __init__(self, name, prog, stream, lone=None):
        self.name, self.prog, self.stream, self.lone = name, prog, stream, lone


def gen_cases(rng, n, streams=("random", "guarded", "lone", "lone-simple"), prefix="q"):
    cases = []
    for i in range(n):
        stream = streams[i % len(streams)]
        simple = stream == "lone-simple"
        if stream.startswith("iface"):
            g = IGen(rng, methods=False)
        elif stream.startswith("err"):
            g = EGen(rng, methods=False, globals_=False)
            if stream == "err-safe":
                g.safe_returns = True
                g.max_pkgs = 1 if rng.random() < 0.7 else g.max_pkgs
        else:
            g = Gen(rng, globals_=not simple, max_funcs=3 if simple else 5, simple=simple, methods=not simple)
        p = g.program()
        lone = None
        if stream in ("guarded", "iface-guarded", "err-guarded"):
            p = guard_all(rng, p)
        elif stream in ("lone", "lone-simple", "iface-lone", "err-lone"):
            q, d = lone_variant(rng, p)
            if q is None:
                stream = "random"
            else:
                p, lone = q, d
        cases.append(Case("%s%04d" % (prefix, i), p, stream, lone))
    return cases


def run_suite(ctx, cases, styles_seed=0, nb=None):
    """-> dict with per-case observations, or {'error': msg}"""
    global NB
    old_nb = NB
    if nb is not None:
        NB = nb
    try:
        for _ in range(25):
            r = _run_suite(ctx, cases, styles_seed)
            if "error" in r and r["error"].startswith("UNBOUNDED-RECURSION "):
                # drop the program that never terminates (in place: the callers iterate over the same list)
                bad = r["error"].split()[1]
                cases[:] = [c for c in cases if c.name != bad]
                continue
            return r
        return r
    finally:
        NB = old_nb


def _run_suite(ctx, cases, styles_seed):
    progs = {c.name: c.prog for c in cases}
    styles = {c.name: (random.Random(styles_seed * 100003 + i) if c.stream != "corpus" else None) for i, c in enumerate(cases)}
    root = ctx.scratch()
    try:
        pos, cpos = write_module(root, progs, styles)
        truth, err = run_truth(root)
        if truth is None:
            return {"error": err}
        real, err = run_real(root)
        if real is None:
            return {"error": err}
        if real.get("errors"):
            return {"error": "the real analysis reported errors: %r" % real["errors"][:3]}
        ctrs = {n: real_contracts(real, n) for n in progs}
        model, err = run_model(progs, ctrs)
        if model is None:
            return {"error": err}
        flagged, err = model_flagged(progs, model)
        if flagged is None:
            return {"error": err}
    finally:
        import shutil
        shutil.rmtree(root, ignore_errors=True)
    obs = {}
    for c in cases:
        n = c.name
        m = model[n]
        rt_, odd = real_triggers(real, n, pos[n], cpos[n], c.prog)
        rep = stable_groups(c.prog)
        rtc, mtc = canon_triggers(rt_, rep), canon_triggers(model_triggers(m), rep)
        rr, other = real_reports(real, n, pos[n])
        tp = truth_panics(truth, n, pos[n])
        fl, flow = flagged[n]
        exec_bad = [(v, sorted(t) if t else None, mr) for v, (t, mr) in enumerate(zip(tp, m["runs"]))
                    if (t is None) != (mr == 0) or (t is not None and mr not in t)]
        probes = {f: truth_nil_result(truth, n, f) for f, fd in enumerate(c.prog["funcs"]) if probed(fd)}
        obs[n] = dict(model=m, ctr=ctrs[n], probes=probes, real_trig=rtc, model_trig=mtc, odd=odd, reports=rr, other=other,
                      truth=tp, complete=truth_complete(truth, n), flagged=fl, flow=flow, exec_bad=exec_bad,
                      panics=set().union(*[t for t in tp if t]) if any(tp) else set())
    return {"obs": obs}


def describe(c, o):
    lines = ["program %s (stream %s%s), contracted functions %s" % (c.name, c.stream, "" if c.lone is None else ", unprotected dereference %d" % c.lone, sorted(o["ctr"]))]
    lines.append(show(c.prog, c.name, o["ctr"]))
    lines.append("real diagnostics at dereferences: %s   elsewhere: %s" % (sorted(o["reports"]), o["other"]))
    lines.append("model: dereferences a nil source reaches: %s  gsafe=%s clocal=%s guarded=%s" % (sorted(o["flagged"]), o["model"]["gsafe"], o["model"]["clocal"], o["model"]["guarded"]))
    lines.append("run-time panics (over %d opaque vectors): %s%s" % (len(o["truth"]), sorted(o["panics"], key=str), "" if o["complete"] else "  (some runs asked for more answers)"))
    if o["real_trig"] != o["model_trig"]:
        lines.append("triggers only in the real analysis: %s" % sorted(o["real_trig"] - o["model_trig"], key=str))
        lines.append("triggers only in the model:         %s" % sorted(o["model_trig"] - o["real_trig"], key=str))
    if o["exec_bad"]:
        lines.append("executions where model M6 and the compiled program disagree (vector, real panic, model panic): %s" % o["exec_bad"][:5])
    return "\n".join(lines) + "\n"


def stats(cases, obs):
    st = {"programs": len(cases)}
    for c in cases:
        st["stream:" + c.stream] = st.get("stream:" + c.stream, 0) + 1
    st["functions"] = sum(len(c.prog["funcs"]) for c in cases)
    st["multi_package"] = sum(1 for c in cases if c.prog["npkgs"] > 1)
    st["with_globals"] = sum(1 for c in cases if c.prog["ginit"])
    st["with_contracts"] = sum(1 for c in cases if obs[c.name]["ctr"])
    st["panicking"] = sum(1 for c in cases if obs[c.name]["panics"])
    st["clean_in_real_tool"] = sum(1 for c in cases if not obs[c.name]["reports"] and not obs[c.name]["other"])
    st["dereferences"] = sum(len(M.derefs_of(M.expand(c.prog))) for c in cases)
    st["executions"] = sum(len(obs[c.name]["truth"]) for c in cases)
    st["real_triggers"] = sum(len(obs[c.name]["real_trig"]) for c in cases)
    return st


def amplify(p, returns=True, args=True):
    """search helper: a variant of p in which nil actually flows (every return returns nil / every literal or
    allocated argument becomes nil) -- used to turn a divergence of the trigger sets into a concrete program on
    which the property fails"""
    def at(a):
        if args and a == "new":
            return "nil"
        if isinstance(a, tuple) and a[0] == "nest":
            return ("nest", a[1], [at(x) for x in a[2]], a[3])
        return a

    def go(s):
        k = s[0]
        if k == "seq":
            return ("seq", go(s[1]), go(s[2]))
        if k == "call":
            fd = p["funcs"][s[2]]
            new = [at(a) for a in s[3]]
            if fd.get("method") and new and new[0] == "nil":
                new[0] = s[3][0]
            return ("call", s[1], s[2], new, s[4])
        if k == "calli":
            return ("calli", s[1], s[2], s[3], s[4], [at(a) for a in s[5]], s[6], s[7])
        if k == "if":
            return ("if", s[1], go(s[2]), go(s[3]))
        if k == "while":
            return ("while", s[1], go(s[2]))
        if k == "return" and returns:
            return ("return", "nil")
        return s

    q = dict(p)
    q["funcs"] = [dict(fd, body=go(fd["body"])) for fd in p["funcs"]]
    return q


def strip_guards(p):
    """search helper: replace every nil test by an opaque one (so that nothing is protected any more)"""
    def gc(c):
        k = c[0]
        if k == "nonnil":
            return ("opaque",)
        if k == "not":
            return ("not", gc(c[1]))
        if k in ("and", "or"):
            return (k, gc(c[1]), gc(c[2]))
        return c

    def go(s):
        k = s[0]
        if k == "seq":
            return ("seq", go(s[1]), go(s[2]))
        if k == "if":
            return ("if", gc(s[1]), go(s[2]), go(s[3]))
        if k == "while":
            return ("while", gc(s[1]), go(s[2]))
        return s

    q = dict(p)
    q["funcs"] = [dict(fd, body=go(fd["body"])) for fd in p["funcs"]]
    return q


def isolate_globals(p, f):
    """search helper: like isolate, but package-level variables stay package-level variables (renumbered, all
    initialised non-nil) and the stub every call goes to also re-assigns each of them, to nil or to a fresh value
    depending on opaque conditions: witnesses for inferences that trust a package-level variable across a call"""
    fd = p["funcs"][f]
    gl = sorted(set(x[1] for x in _vars_of(fd["body"]) if x[0] == "G"))
    idx = {g: i for i, g in enumerate(gl)}
    q = isolate(p, f)
    back = lambda x: ("G", idx[x[1] - 60]) if isinstance(x, tuple) and x[0] == "L" and x[1] >= 60 and (x[1] - 60) in idx else x

    def cd(c):
        k = c[0]
        if k == "nonnil":
            return ("nonnil", back(c[1]))
        if k == "cderef":
            return ("cderef", c[1], back(c[2]))
        if k == "not":
            return ("not", cd(c[1]))
        if k in ("and", "or"):
            return (k, cd(c[1]), cd(c[2]))
        return c

    def go(s):
        k = s[0]
        if k == "seq":
            return ("seq", go(s[1]), go(s[2]))
        if k == "assign":
            return ("assign", back(s[1]), back(s[2]))
        if k == "call":
            return ("call", back(s[1]) if s[1] is not None else None, s[2], s[3], s[4])
        if k == "deref":
            return ("deref", s[1], back(s[2]))
        if k == "if":
            return ("if", cd(s[1]), go(s[2]), go(s[3]))
        if k == "while":
            return ("while", cd(s[1]), go(s[2]))
        if k == "return":
            return ("return", back(s[1]))
        return s

    body = M.flatten(q["funcs"][1]["body"])[len(gl):]       # drop the calls that filled the local stand-ins
    q["funcs"][1]["body"] = M.seq([go(x) for x in body])
    stub = [("if", ("opaque",), ("assign", ("G", i), "nil"), ("assign", ("G", i), "new")) for i in range(len(gl))]
    q["funcs"][2]["body"] = M.seq(stub + M.flatten(q["funcs"][2]["body"]))
    q["ginit"], q["gpkg"] = [True] * len(gl), [0] * len(gl)
    return q


def isolate(p, f):
    """search helper: a three-function program around the body of function f of p: F0 calls F1 (= f's body) with a
    non-nil argument and dereferences the result; every call inside the body goes to a stub F2 that returns nil or
    not depending on an opaque condition; package-level variables become locals filled from the stub"""
    fd = p["funcs"][f]
    gl = sorted(set(x[1] for x in _vars_of(fd["body"]) if x[0] == "G"))
    cs = [100]

    def v(x):
        return ("L", 60 + x[1]) if isinstance(x, tuple) and x[0] == "G" else x

    def at(a):
        if isinstance(a, tuple) and a[0] == "nest":
            return "nil"
        return v(a)

    def cd(c):
        k = c[0]
        if k == "nonnil":
            return ("nonnil", v(c[1]))
        if k == "cderef":
            return ("cderef", c[1] + 100, v(c[2]))
        if k == "not":
            return ("not", cd(c[1]))
        if k in ("and", "or"):
            return (k, cd(c[1]), cd(c[2]))
        return c

    def go(s):
        k = s[0]
        if k == "seq":
            return ("seq", go(s[1]), go(s[2]))
        if k == "assign":
            return ("assign", v(s[1]), at(s[2]))
        if k == "call":
            cs[0] += 1
            return ("call", v(s[1]) if s[1] is not None else None, 2, [], cs[0])
        if k == "deref":
            return ("deref", s[1] + 100, v(s[2]))
        if k == "if":
            return ("if", cd(s[1]), go(s[2]), go(s[3]))
        if k == "while":
            return ("while", cd(s[1]), go(s[2]))
        if k == "return":
            return ("return", at(s[1]))
        return s

    pre = []
    for g in gl:
        cs[0] += 1
        pre.append(("call", ("L", 60 + g), 2, [], cs[0]))
    f0 = dict(nparams=0, pkg=0, method=False, body=M.seq([("call", L(0), 1, ["new"], 1), ("deref", 1, L(0))]))
    f1 = dict(nparams=1, pkg=0, method=False, body=M.seq(pre + M.flatten(go(M.expand(p)["funcs"][f]["body"]))))
    f2 = dict(nparams=0, pkg=0, method=False, body=M.seq([("if", ("opaque",), ("return", "nil"), ("skip",)), ("return", "new")]))
    return dict(funcs=[f0, f1, f2], ginit=[], gpkg=[], npkgs=1)


def _vars_of(s, acc=None):
    acc = [] if acc is None else acc

    def c(cc):
        if cc[0] == "nonnil":
            acc.append(cc[1])
        elif cc[0] == "cderef":
            acc.append(cc[2])
        elif cc[0] == "not":
            c(cc[1])
        elif cc[0] in ("and", "or"):
            c(cc[1]); c(cc[2])

    def a(x):
        if isinstance(x, tuple) and x[0] in ("L", "G"):
            acc.append(x)
        elif isinstance(x, tuple) and x[0] == "nest":
            for y in x[2]:
                a(y)

    k = s[0]
    if k == "seq":
        _vars_of(s[1], acc); _vars_of(s[2], acc)
    elif k == "assign":
        a(s[1]); a(s[2])
    elif k == "call":
        if s[1] is not None:
            a(s[1])
        for y in s[3]:
            a(y)
    elif k == "deref":
        a(s[2])
    elif k == "if":
        c(s[1]); _vars_of(s[2], acc); _vars_of(s[3], acc)
    elif k == "while":
        c(s[1]); _vars_of(s[2], acc)
    elif k == "return":
        a(s[1])
    return acc


def conv_witnesses(p):
    """search helper for C09: for every (interface, implementation) pair of p, small single-package programs in which
    the pair is witnessed at exactly one kind of conversion site (assignment, function argument, argument of an
    interface method, return), the implementation returns nil and dereferences its parameters, and the caller passes
    nil and dereferences the result"""
    ifaces, impls = p.get("ifaces") or [], p.get("impls") or []
    out = []

    def base():
        funcs = [dict(nparams=0, pkg=0, method=False, body=("skip",), ptypes=[], rtype="T", ltypes={}, impl=None)]
        nimpls = []
        d = [100]
        for j, im in enumerate(impls):
            fs = []
            for m, md in enumerate(ifaces[im["iface"]]["methods"]):
                fs.append(len(funcs))
                body = []
                for i, ty in enumerate(md["ptypes"]):
                    if ty == "T":
                        d[0] += 1
                        body.append(("deref", d[0], L(i + 1)))
                body.append(("return", "nil"))
                funcs.append(dict(nparams=1 + len(md["ptypes"]), pkg=0, method=False, body=M.seq(body),
                                  ptypes=[("S", j)] + list(md["ptypes"]), rtype="T", ltypes={}, impl=(j, m)))
            nimpls.append(dict(iface=im["iface"], funcs=fs, pkg=0, valrecv=im.get("valrecv", False)))
        return dict(funcs=funcs, ginit=[], gpkg=[], npkgs=1, ifaces=ifaces, impls=nimpls)

    def args_for(k, m, conv=None):
        return [("nil" if ty == "T" else (conv if conv is not None and ty == conv[3] else "nil")) for ty in ifaces[k]["methods"][m]["ptypes"]]

    for j, im in enumerate(impls):
        k = im["iface"]
        for m in range(len(ifaces[k]["methods"])):
            call = lambda xi, cs, d: ("calli", L(0), xi, k, m, ["nil"] * len(ifaces[k]["methods"][m]["ptypes"]), cs, d)
            # assignment
            q = base()
            q["funcs"][0]["ltypes"] = {40: ("I", k)}
            q["funcs"][0]["body"] = M.seq([("assign", L(40), ("conv", k, j)), call(L(40), 1, 1), ("deref", 2, L(0))])
            out.append(("assign", q))
            # argument of a function
            q = base()
            f1 = len(q["funcs"])
            q["funcs"].append(dict(nparams=2, pkg=0, method=False, ptypes=[("I", k), "T"], rtype="T", ltypes={}, impl=None,
                                   body=M.seq([("calli", L(2), L(0), k, m, ["nil"] * len(ifaces[k]["methods"][m]["ptypes"]), 1, 1), ("return", L(2))])))
            q["funcs"][0]["body"] = M.seq([("call", L(0), f1, [("conv", k, j), "nil"], 2), ("deref", 2, L(0))])
            out.append(("funcarg", q))
            # return
            q = base()
            f1 = len(q["funcs"])
            q["funcs"].append(dict(nparams=0, pkg=0, method=False, ptypes=[], rtype=("I", k), ltypes={}, impl=None,
                                   body=M.seq([("return", ("conv", k, j))])))
            q["funcs"][0]["ltypes"] = {40: ("I", k)}
            q["funcs"][0]["body"] = M.seq([("call", L(40), f1, [], 2), call(L(40), 1, 1), ("deref", 2, L(0))])
            out.append(("return", q))
            # argument of an interface method whose parameter has type I_k
            for a, ia in enumerate(ifaces):
                for ma, md in enumerate(ia["methods"]):
                    if ("I", k) not in md["ptypes"]:
                        continue
                    js = [ja for ja, ima in enumerate(impls) if ima["iface"] == a]
                    if not js:
                        continue
                    q = base()
                    ja = js[0]
                    fimpl = q["impls"][ja]["funcs"][ma]
                    pi = md["ptypes"].index(("I", k))
                    # the implementation of I_a.M_ma calls M_m on its I_k parameter with nil and returns the result
                    q["funcs"][fimpl]["body"] = M.seq([("calli", L(30), L(pi + 1), k, m, ["nil"] * len(ifaces[k]["methods"][m]["ptypes"]), 3, 3), ("return", L(30))])
                    q["funcs"][0]["ltypes"] = {40: ("I", a)}
                    args = ["nil" if ty == "T" else "nil" for ty in md["ptypes"]]
                    args[pi] = ("conv", k, j)
                    q["funcs"][0]["body"] = M.seq([("assign", L(40), ("conv", a, ja)), ("calli", L(0), L(40), a, ma, args, 1, 1), ("deref", 2, L(0))])
                    out.append(("ifacearg", q))
        # interface-to-interface: the value is made as an I_k and used through an interface I_b that I_k extends
        b = ifaces[k].get("base")
        while b is not None:
            for m in range(len(ifaces[b]["methods"])):
                q = base()
                q["funcs"][0]["ltypes"] = {40: ("I", k), 41: ("I", b)}
                q["funcs"][0]["body"] = M.seq([("assign", L(40), ("conv", k, j)), ("assign", L(41), ("iconv", b, k, L(40))),
                                               ("calli", L(0), L(41), b, m, ["nil"] * len(ifaces[b]["methods"][m]["ptypes"]), 1, 1),
                                               ("deref", 2, L(0))])
                out.append(("iface2iface", q))
            b = ifaces[b].get("base")
    return out
