"""Short-circuit value expressions: model M14 (coq/model/ShortCircuit.v = the BinaryExpr case of
RootAssertionNode.AddComputation, evaluated inside Coq by vm_compute) against the real tool.  Random trees of `&&` / `||`
over nil checks (in every shape AddNilCheck recognises through its recursion: either operand order, negations,
comparisons with boolean constants, nested), opaque booleans and dereferences of two pointer parameters, as a returned value, a right-hand side or an
argument, every leaf on a source line of its own; callers pass nil.  Compared per variable (the engine explains one of
several dereferences of one parameter): the variables with a reported dereference == the variables of `reported e`."""
import os
import random
import re
import shutil
import subprocess

from . import common
from . import wholetool as wt


def gen(rng, depth, counter, nv=2, no=2):
    if depth == 0 or rng.random() < 0.3:
        k = rng.random()
        if k < 0.4:
            return ("chk", rng.randrange(nv), gen_ncond(rng))
        if k < 0.55:
            return ("opq", rng.randrange(no))
        counter[0] += 1
        return ("der", rng.randrange(nv), counter[0])
    return ("and" if rng.random() < 0.5 else "or", gen(rng, depth - 1, counter, nv, no), gen(rng, depth - 1, counter, nv, no))


def gen_ncond(rng, depth=None):
    """a nested condition about one pointer: the shapes AddNilCheck recognises through its recursion"""
    depth = rng.choice([0, 0, 0, 1, 1, 2]) if depth is None else depth
    if depth == 0:
        return ("atom", rng.random() < 0.5, rng.random() < 0.3)
    if rng.random() < 0.4:
        return ("not", gen_ncond(rng, depth - 1))
    return ("eqb", gen_ncond(rng, depth - 1), rng.random() < 0.5, rng.random() < 0.5, rng.random() < 0.3)


def ncond_coq(c):
    b = lambda x: "true" if x else "false"
    if c[0] == "atom":
        return "(NAtom %s %s)" % (b(c[1]), b(c[2]))
    if c[0] == "not":
        return "(NNot %s)" % ncond_coq(c[1])
    return "(NEqB %s %s %s %s)" % (ncond_coq(c[1]), b(c[2]), b(c[3]), b(c[4]))


def ncond_go(c, v):
    if c[0] == "atom":
        op = "==" if c[1] else "!="
        return "nil %s p%d" % (op, v) if c[2] else "p%d %s nil" % (v, op)
    if c[0] == "not":
        return "!(%s)" % ncond_go(c[1], v)
    op, k = ("!=" if c[2] else "=="), ("true" if c[3] else "false")
    return "%s %s (%s)" % (k, op, ncond_go(c[1], v)) if c[4] else "(%s) %s %s" % (ncond_go(c[1], v), op, k)


def coq(e):
    if e[0] == "chk":
        return "(SCond %d (cond_of %s))" % (e[1], ncond_coq(e[2]))
    if e[0] == "opq":
        return "(SOpq %d)" % e[1]
    if e[0] == "der":
        return "(SDer %d %d)" % (e[1], e[2])
    return "(%s %s %s)" % ("SAnd" if e[0] == "and" else "SOr", coq(e[1]), coq(e[2]))


def golines(e, ind):
    t = "\t" * ind
    if e[0] == "chk":
        return [t + ncond_go(e[2], e[1])]
    if e[0] == "opq":
        return [t + "c%d" % e[1]]
    if e[0] == "der":
        return [t + "p%d.f == %d" % (e[1], e[2])]
    op = "&&" if e[0] == "and" else "||"
    a, b = golines(e[1], ind + 1), golines(e[2], ind + 1)
    a = [t + "(" + a[0].lstrip("\t")] + a[1:]
    a[-1] += ") " + op
    b = [t + "(" + b[0].lstrip("\t")] + b[1:]
    b[-1] += ")"
    return a + b


def leafvars(e, acc):
    if e[0] == "der":
        acc[e[2]] = e[1]
    elif e[0] in ("and", "or"):
        leafvars(e[1], acc)
        leafvars(e[2], acc)
    return acc


def module(cases, ctxs, d):
    os.makedirs(d, exist_ok=True)
    open(os.path.join(d, "go.mod"), "w").write("module ex.com/sc\n\ngo 1.23\n")
    src = ["package sc", "", "type T struct{ f int }", "", "func sink(b bool) bool { return b }", ""]
    where, callers = {}, []
    for i, (e, ctx) in enumerate(zip(cases, ctxs)):
        src.append("func F%d(p0, p1 *T, c0, c1 bool) bool {" % i)
        if isinstance(ctx, tuple):
            # the value is assigned and a dereference FOLLOWS the statement (leaf 999): it runs on every outcome
            pre, post = "\tb := (", ")\n\t_ = b\n\treturn p%d.f == 999" % ctx[1]
        else:
            pre, post = {"ret": ("\treturn (", ")"), "assign": ("\tb := (", ")\n\treturn b"), "arg": ("\treturn sink(", ")")}[ctx]
        src.append(pre)
        for l in golines(e, 2):
            m = re.search(r"p\d+\.f == (\d+)", l)
            if m:
                where[(i, int(m.group(1)))] = len(src) + 1
            src.append(l)
        posts = post.split("\n")
        src[-1] += posts[0]
        for pl in posts[1:]:
            if "== 999" in pl:
                where[(i, 999)] = len(src) + 1
            src.append(pl)
        src += ["}", ""]
        callers.append("\t_ = F%d(nil, nil, true, false)" % i)
    src.append("func callers() {\n" + "\n".join(callers) + "\n}")
    open(os.path.join(d, "a.go"), "w").write("\n".join(src) + "\n")
    return where


def COQDIR():
    return common.COQ


def run_model(cases, workdir, tails=None):
    v = ["From NM Require Import ShortCircuit.", "From NP Require Import ShortCircuitCmp.", "Require Import List. Import ListNotations.",
         "Definition cases : list (sexp * list consumer) := [",
         ";\n".join("  (%s, %s)" % (coq(e), "[(%d, 999)]" % t if t is not None else "[]") for e, t in zip(cases, tails or [None] * len(cases))), "].",
         "Definition out := Eval vm_compute in map (fun et => map snd (proc_stmt (fst et) (snd et)) ++ [if left_pure (fst et) then 9001 else 9000]) cases.", "Print out."]
    open(os.path.join(workdir, "sc_cases.v"), "w").write("\n".join(v) + "\n")
    p = subprocess.run(["coqc", "-Q", os.path.join(COQDIR(), "model"), "NM", "-Q", os.path.join(COQDIR(), "gen"), "NG", "-Q", os.path.join(COQDIR(), "proofs"), "NP", "sc_cases.v"], cwd=workdir, capture_output=True, text=True, timeout=900)
    if p.returncode != 0:
        return None, (p.stderr + p.stdout)[-500:]
    txt = " ".join(p.stdout.split())
    body = txt[txt.index("= [") + 3:txt.rindex("] :")]
    res = []
    for m in re.finditer(r"\[([0-9; ]*)\]", body):
        xs = [int(x) for x in m.group(1).replace(" ", "").split(";") if x]
        res.append((xs[:-1], xs[-1] == 9001))
    return res, ""


def run(ctx, n):
    """-> dict(n, pure, bad [descriptions], error)"""
    rng = random.Random(ctx.seed * 31 + 14)
    cases, ctxs = [], []
    for _ in range(n):
        c = [0]
        e = gen(rng, rng.randint(1, 3), c)
        if e[0] not in ("and", "or"):
            e = ("and", e, ("der", 0, c[0] + 1))
        cases.append(e)
        ctxs.append(rng.choice(["ret", "assign", "arg", ("then", rng.randrange(2))]))
    d = ctx.scratch()
    try:
        where = module(cases, ctxs, d)
        r, err = wt.analyze(d, flags={"group-error-messages": "false"})
        if r is None or r.get("errors"):
            return dict(n=0, pure=0, bad=[], error="whole-tool run failed: %s %s" % (err, (r or {}).get("errors")))
        real = set()
        for dg in r["diags"] or []:
            if "accessed field `f`" in dg["message"]:
                real.add(dg["line"])
        model, merr = run_model(cases, d, [c[1] if isinstance(c, tuple) else None for c in ctxs])
        if model is None or len(model) != len(cases):
            return dict(n=0, pure=0, bad=[], error="model evaluation in Coq failed: %s" % merr)
        bad = []
        for i, e in enumerate(cases):
            lv = leafvars(e, {})
            if isinstance(ctxs[i], tuple):
                lv[999] = ctxs[i][1]
            exp = set(lv[l] for l in model[i][0])
            got = set(lv[l] for (ci, l), ln in where.items() if ci == i and ln in real)
            if exp != got:
                body = "\n".join(golines(e, 2))
                bad.append("as %s:\n%s\nmodel term: %s\nparameters with a reported dereference: real %s, model %s%s" % (
                    {"ret": "a returned value", "assign": "a right-hand side", "arg": "an argument"}.get(ctxs[i], "a right-hand side followed by `return p%d.f == 999`" % (ctxs[i][1] if isinstance(ctxs[i], tuple) else 0)), body, coq(e),
                    sorted("p%d" % v for v in got), sorted("p%d" % v for v in exp),
                    "" if not model[i][1] else "  (the expression is in the class of theorem C19_short_circuit_attribution)"))
        return dict(n=len(cases), pure=sum(1 for m in model if m[1]), bad=bad, error=None)
    finally:
        shutil.rmtree(d, ignore_errors=True)
