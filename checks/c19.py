"""C19: comparison rewriting keeps meaning. Regenerated tables + proofs; translator validated against the
Go functions executed through the harness; search = enumerate operator x value grid on the real functions."""
from . import common
from . import spellings


def search(ctx):
    """Look for a concrete (op, a, b) on the REAL functions violating converse/inverse/involution."""
    rc, out, err = common.harness(["cmptable"])
    if rc != 0:
        return None, "harness cmptable failed: " + err
    conv, inv, ev = {}, {}, {}
    for line in out.splitlines():
        w = line.split()
        if w[0] == "conv":
            conv[w[1]] = w[2]
        elif w[0] == "inv":
            inv[w[1]] = w[2]
        elif w[0] == "eval":
            ev[(w[1], int(w[2]), int(w[3]))] = (w[4] == "true")
    n = 0
    for (o, a, b), v in sorted(ev.items()):
        n += 1
        if ev.get((conv[o], b, a)) != v:
            return ("converse", o, a, b), "%d %s %d = %s but %d %s %d = %s" % (a, o, b, v, b, conv[o], a, ev.get((conv[o], b, a)))
        if ev.get((inv[o], a, b)) != (not v):
            return ("inverse", o, a, b), "%d %s %d = %s but %d %s %d = %s (should be the negation)" % (a, o, b, v, a, inv[o], b, ev.get((inv[o], a, b)))
    for o in conv:
        if conv.get(conv[o]) != o:
            return ("converse-involution", o), "Converse(Converse(%s)) = %s" % (o, conv.get(conv[o]))
        if inv.get(inv[o]) != o:
            return ("inverse-involution", o), "Inverse(Inverse(%s)) = %s" % (o, inv.get(inv[o]))
    return None, "grid of %d rows clean" % n


def run(ctx):
    ok, msg = ctx.build_tools()
    if not ok:
        ctx.obligation("tools build against /repo", False)
        ctx.violation("build", msg, found_input=False)
        ctx.write_evidence()
        return
    okg, outg = ctx.regen("tables")
    ctx.obligation("translator ran on /repo (util/tokenhelper/tokenhelper.go, assertiontree/util.go)", okg)
    ok, log = ctx.prove("props/C19.v", "C19") if okg else (False, outg)

    # translator validation: generated tables == Go functions executed (36+12 rows)
    rc, out, err = common.harness(["cmptable"])
    gen = open(common.COQ + "/gen/Tables.v").read()
    rows = [l.split() for l in out.splitlines()]
    mism = []
    import re
    for w in rows:
        if w[0] in ("conv", "inv"):
            fn = "converse_gen" if w[0] == "conv" else "inverse_gen"
            body = gen.split("Definition %s" % fn)[1].split("end.")[0]
            m = re.search(r"\|\s*%s\s*=>\s*Some\s+(\w+)" % w[1], body)
            if not m or m.group(1) != w[2]:
                mism.append(" ".join(w))
    ctx.obligation("correspondence: generated Converse/Inverse tables agree with the executed Go functions (12 rows)", rc == 0 and not mism)
    ctx.coverage.update({"evaluations": len(rows), "distinct_nontrivial": len(rows),
                         "rule": "every row of Converse/Inverse (12) and of Go's own evaluation of the 6 operators on {-1,0,1}^2 (54); all distinct"})
    for w in rows[:3]:
        ctx.sample(" ".join(w))
    ctx.sample("theorem C19_branch_attribution: forall binop x y t f s, operand_ok x -> operand_ok y -> apply binop x y = Some (t,f,s) -> ...")

    # whole tool: every spelling of a nil / length check, in conditional and short-circuit positions
    nsp, sp_bad, sp_samples, sp_src = spellings.run_suite(ctx)
    ctx.obligation("whole tool: %d generated functions (4 nil spellings x negations and comparisons with boolean constants x 14 positions incl. value expressions followed by a use; 24 length spellings x negation x 9 positions): "
                   "the dereference is reported iff the check does not protect it" % nsp, nsp > 0 and not sp_bad)
    ctx.coverage["evaluations"] += nsp
    ctx.coverage["distinct_nontrivial"] += nsp
    ctx.coverage["rule"] += "; plus one generated Go function per (comparison spelling, negation depth, syntactic position), all distinct, expected verdict computed from the comparison's truth table"
    for smp in sp_samples[:2]:
        ctx.sample(smp)
    for b in sp_bad[:3]:
        name = b.split(" ")[0]
        fn = sp_src[sp_src.index("func %s(" % name) - 40:]
        fn = fn[fn.index("//"):]
        fn = fn[:fn.index("\n}\n") + 3]
        ctx.violation("spelling", "C19 fails on the real tool (a comparison is attributed to the wrong branch): %s\n\nprogram (package sp, plus a caller passing nil):\n%s\n"
                      "replay: put it in a module, add `func c() { _ = %s(nil) }`, run nilaway.\n" % (b, fn, name))

    # Go-source corpus: regression programs of repaired findings (shadowed true/false/nil; `c == true` with a compound c)
    from . import markers
    markers.corpus_modules(ctx, "c19", "comparison spellings of repaired findings")

    # model M14 (short-circuit value expressions) against the real tool, both directions
    from . import shortcircuit_suite as SC
    sc = SC.run(ctx, 150 if ctx.tier == "quick" else 1500)
    ctx.obligation("correspondence (two-directional): the parameters with a reported dereference in %d random `&&` / `||` value expressions (nil checks, opaque operands, dereferences; returned, assigned, passed) == model M14 evaluated in Coq; %d of them in the class of theorem C19_short_circuit_attribution" % (sc["n"], sc["pure"]), sc["n"] > 0 and not sc["bad"] and not sc["error"])
    if sc["error"]:
        ctx.violation("sc-suite", sc["error"], found_input=False)
    for b in sc["bad"][:3]:
        ctx.violation("shortcircuit", "the real tool and model M14 (the transcription of AddComputation's short-circuit case) disagree on a value expression -- theorem C19_short_circuit_attribution no longer speaks about the code:\n%s\nreplay: put the expression in `func F(p0, p1 *T, c0, c1 bool) bool { return (...) }` with a caller passing nil, run nilaway -group-error-messages=false\n" % b)
    ctx.coverage["evaluations"] += sc["n"]
    ctx.coverage["distinct_nontrivial"] += sc["n"]

    # known finding F104: the conclusion of a check nested in the left operand of a short-circuit VALUE expression lands
    # on the right operand whatever the outcome
    import os
    kf = []
    nk, bk = markers.check_markers(os.path.join(common.VERIF, "corpus", "c19kf", "nested"), known=kf)
    nkn = open(os.path.join(common.VERIF, "corpus", "c19kf", "nested", "n.go")).read().count("//KNOWN:")
    ctx.obligation("corpus/c19kf/nested: the other %d marked uses behave as marked (un-nested checks protect, no check reports)" % (nk - nkn), nk > nkn and not bk)
    for b in bk[:2]:
        ctx.violation("corpus-c19kf", "C19 fails on the real tool: %s\nreplay: bin/harness analyze -dir corpus/c19kf/nested\n" % b)
    if kf:
        if any(k["id"] == "F104" for k in ctx.known_for()):
            ctx.known_finding("F104", "`(p == nil || c) && p.f == 0` / `(p != nil && c) || p.f == 0` (also with a negated compound left operand) in a value expression: the inner check's conclusion is attributed to the right operand on both outcomes, the dereference is not reported: %s (corpus/c19kf/nested)" % ", ".join(x[1] for x in kf))
        else:
            ctx.violation("nested", "C19 fails on the real tool: a nil check nested in the left operand of a short-circuit value expression is attributed to the wrong outcome: %s unreported\nreplay: bin/harness analyze -dir corpus/c19kf/nested\n" % ", ".join(x[1] for x in kf))

    if not ok or mism:
        wit, why = search(ctx)
        if wit:
            ctx.violation("cmp", "C19 violated on the real functions: %s\nwitness: %r\nreplay: harness cmptable\n\nproof log:\n%s" % (why, wit, common.coq_error_excerpt(log)))
        else:
            ctx.violation("proof", "proof obligation or table correspondence for C19 no longer checks (props/C19.v / proofs/CmpProofs.v against regenerated gen/Tables.v).\n"
                          "search on the real Converse/Inverse: %s\nmismatching rows: %r\n\n%s" % (why, mism, common.coq_error_excerpt(log)), found_input=False)
    ctx.write_evidence()


def replay(ctx, path):
    print(open(path).read())
    run(ctx)
