"""Scenario generator and runners for the engine correspondence suite (model M1 vs real inference.Engine)."""
import itertools
import os
import random
import re

from . import common

A, N, C = 0, 1, 2  # kinds


class Scenario:
    """sites: list of (id, exported, param, pkg); pkgs: list of dict(imports, annots, trigs);
    trig = (id, pk, ck, p, c, ctrl)"""

    def __init__(self, sites, pkgs):
        self.sites, self.pkgs = sites, pkgs

    def line(self):
        out = [len(self.sites)]
        for s in self.sites:
            out += [s[0], int(s[1]), int(s[2]), s[3]]
        out.append(len(self.pkgs))
        for p in self.pkgs:
            out.append(len(p["imports"]))
            out += p["imports"]
            out.append(len(p["annots"]))
            for a in p["annots"]:
                out += [a[0], int(a[1])]
            out.append(len(p["trigs"]))
            for t in p["trigs"]:
                out += list(t)
        return " ".join(map(str, out))

    def pretty(self):
        k = "ANC"
        lines = ["sites: " + ", ".join("%d%s%s@p%d" % (s[0], "E" if s[1] else "u", "P" if s[2] else "G", s[3]) for s in self.sites)]
        for i, p in enumerate(self.pkgs):
            lines.append("package p%d imports=%s" % (i, p["imports"]))
            for a in p["annots"]:
                lines.append("  annot site %d := %s" % (a[0], "nilable" if a[1] else "nonnil"))
            for t in p["trigs"]:
                ps = "Always" if t[1] == A else ("Never" if t[1] == N else "site%d" % t[3])
                cs = "Always" if t[2] == A else "site%d" % t[4]
                lines.append("  trigger t%d: %s -> %s%s" % (t[0], ps, cs, "" if t[5] < 0 else "  [controlled by site%d]" % t[5]))
        return "\n".join(lines) + "\nscenario-line: " + self.line() + "\n"

    def size(self):
        return sum(len(p["trigs"]) + len(p["annots"]) for p in self.pkgs)

    def copy(self):
        return Scenario(list(self.sites), [dict(imports=list(p["imports"]), annots=list(p["annots"]), trigs=list(p["trigs"])) for p in self.pkgs])


def visible_sites(sites, k, imports=None):
    """sites a package can mention: its own, and exported sites of the packages it (transitively) imports"""
    if imports is None:
        imports = range(k)
    return [s for s in sites if s[3] == k or (s[3] in imports and s[1])]


def gen_random(rng, max_pkgs=5, max_sites=8, max_trigs=9, p_ctrl=0.2, p_annot=0.5):
    npk = rng.choice([1, 1, 2, 2, 3, 3, 4, 5][:max(1, min(8, 2 * max_pkgs - 1 + (3 if max_pkgs >= 5 else 0)))])
    nsites = rng.randint(2, max_sites)
    sites = []
    for i in range(1, nsites + 1):
        sites.append((i, rng.random() < 0.6, rng.random() < 0.35, rng.randrange(npk)))
    pkgs = []
    tid = 100
    closures = []
    for k in range(npk):
        # a random DAG: direct imports are a subset of the earlier packages; the driver hands over the facts of
        # the transitive closure, in an order of its own choosing
        if k > 0 and rng.random() < 0.35:
            direct = [j for j in range(k) if rng.random() < 0.5]
        else:
            direct = list(range(k))
        clo = set(direct)
        for j in direct:
            clo |= closures[j]
        closures.append(clo)
        imports = sorted(clo)
        rng.shuffle(imports)
        vis = visible_sites(sites, k, clo)
        local_params = [s[0] for s in sites if s[3] == k and s[2]]
        # controllers: a subset of the local call-site parameter sites
        ctrls = [s for s in local_params if rng.random() < 0.6]
        annots = []
        for s in sites:
            if s[3] == k and rng.random() < p_annot * 0.3:
                annots.append((s[0], rng.random() < 0.5))
        trigs = []
        if vis:
            for _ in range(rng.randint(0, max_trigs)):
                tid += 1
                pk = rng.choices([A, N, C], [20, 5, 75])[0]
                ck = rng.choices([A, C], [25, 75])[0]
                p = rng.choice(vis)[0] if pk == C else 0
                c = rng.choice(vis)[0] if ck == C else 0
                ctrl = -1
                if ctrls and rng.random() < p_ctrl:
                    ctrl = rng.choice(ctrls)
                    # wf: the consumer site of a controlled trigger is not itself a controller
                    if ck == C and c in ctrls:
                        ctrl = -1
                trigs.append((tid, pk, ck, p, c, ctrl))
        pkgs.append(dict(imports=imports, annots=annots, trigs=trigs))
    return Scenario(sites, pkgs)


def gen_chain(rng):
    """planted path: exported site -> k unexported sites -> exported site in package 0 (some edges possibly in a
    middle package), with extra random edges; an importer plants a nil source and a dereference at the two ends"""
    k = rng.randint(1, 6)
    n = k + 2
    sites = [(1, True, False, 0)] + [(i, False, rng.random() < 0.3, 0) for i in range(2, k + 2)] + [(n, True, False, 0)]
    extra = rng.randint(0, 2)
    for j in range(extra):
        sites.append((n + 1 + j, rng.random() < 0.5, False, 0))
    tid = 100
    trigs = []
    order = list(range(1, n))
    rng.shuffle(order)
    for i in order:                      # edges of the chain, observed in random order
        tid += 1
        trigs.append((tid, C, C, i, i + 1, -1))
    for _ in range(rng.randint(0, 4)):   # noise
        tid += 1
        a, b = rng.choice(sites)[0], rng.choice(sites)[0]
        trigs.append((tid, C, C, a, b, -1))
    rng.shuffle(trigs)
    pkgs = [dict(imports=[], annots=[], trigs=trigs)]
    npk = rng.choice([2, 2, 3])
    for j in range(1, npk - 1):          # a middle package that only forwards
        pkgs.append(dict(imports=list(range(j)), annots=[], trigs=[]))
    last = []
    if rng.random() < 0.8:
        last.append((tid + 1, A, C, 0, 1, -1))
    if rng.random() < 0.8:
        last.append((tid + 2, C, A, n, 0, -1))
    rng.shuffle(last)
    pkgs.append(dict(imports=list(range(npk - 1)), annots=[], trigs=last))
    return Scenario(sites, pkgs)


def gen_diamond(rng):
    """siblings: package 0 owns a few exported sites; 2..4 sibling packages import only package 0 and each contributes
    some sources, sinks and edges between those sites (none sees what the others know); the last package imports all
    of them, so what the siblings' facts imply together -- a conflict between a site one sibling determined nilable
    and one another sibling determined non-nil, over an edge a third one recorded -- arises only while importing.
    Which sibling (first, middle, last in the path order facts are replayed in) carries which part is random."""
    nbase = rng.randint(2, 5)
    sites = [(i, True, False, 0) for i in range(1, nbase + 1)]
    nsib = rng.randint(2, 4)
    sid = nbase
    tid = 100
    pkgs = [dict(imports=[], annots=[], trigs=[])]
    base = [s[0] for s in sites]
    # a planted chain source -> x1 -> ... -> xk -> sink over the base sites, its pieces dealt to random siblings
    k = rng.randint(1, min(3, nbase - 1))
    chain = rng.sample(base, k + 1)
    pieces = [(A, C, 0, chain[0])] + [(C, C, chain[i], chain[i + 1]) for i in range(k)] + [(C, A, chain[-1], 0)]
    if rng.random() < 0.3:
        pieces.pop(rng.randrange(len(pieces)))          # sometimes the chain is broken: no conflict
    deal = {j: [] for j in range(1, nsib + 1)}
    for pc in pieces:
        deal[rng.randint(1, nsib)].append(pc)
    for j in range(1, nsib + 1):
        own = []
        for _ in range(rng.randint(0, 2)):
            sid += 1
            own.append((sid, rng.random() < 0.5, False, j))
        sites += own
        vis = base + [s[0] for s in own]
        trigs = []
        for (pk, ck, p, c) in deal[j]:
            tid += 1
            trigs.append((tid, pk, ck, p, c, -1))
        for _ in range(rng.randint(0, 3)):               # noise
            tid += 1
            pk = rng.choices([A, N, C], [10, 10, 80])[0]
            ck = rng.choices([A, C], [10, 90])[0]
            trigs.append((tid, pk, ck, rng.choice(vis) if pk == C else 0, rng.choice(vis) if ck == C else 0, -1))
        rng.shuffle(trigs)
        pkgs.append(dict(imports=[0], annots=[], trigs=trigs))
    top = []
    for _ in range(rng.randint(0, 2)):
        tid += 1
        top.append((tid, C, C, rng.choice(base), rng.choice(base), -1))
    imports = list(range(nsib + 1))
    rng.shuffle(imports)
    pkgs.append(dict(imports=imports, annots=[], trigs=top))
    return Scenario(sites, pkgs)


def gen_exhaustive_single(nsites=3, ntrigs=2, with_ctrl=True):
    """All single-package scenarios over `nsites` sites (site 1 is a param site and the only possible
    controller), all trigger lists of length `ntrigs` over the kind matrix."""
    sites = [(1, True, True, 0)] + [(i, i % 2 == 0, False, 0) for i in range(2, nsites + 1)]
    kinds = [(A, 0), (N, 0)] + [(C, s[0]) for s in sites]
    ckinds = [(A, 0)] + [(C, s[0]) for s in sites]
    trig_shapes = []
    for (pk, p) in kinds:
        for (ck, c) in ckinds:
            trig_shapes.append((pk, ck, p, c, -1))
            if with_ctrl and not (ck == C and c == 1):
                trig_shapes.append((pk, ck, p, c, 1))
    for combo in itertools.product(trig_shapes, repeat=ntrigs):
        trigs = [(100 + i,) + sh for i, sh in enumerate(combo)]
        yield Scenario(sites, [dict(imports=[], annots=[], trigs=trigs)])


def run_lines(binary, mode, lines, extra=(), timeout=3600):
    inp = "\n".join(lines) + "\n"
    rc, out, err = common.sh2([os.path.join(common.BIN, binary), mode] + list(extra), timeout=timeout, inp=inp)
    return rc, out.splitlines(), err


def run_impl(lines, gob=False):
    return run_lines("harness", "engine", lines, ["-gob"] if gob else [])


def run_model(lines):
    return run_lines("modelrun", "engine", lines)


def run_spec(lines):
    return run_lines("modelrun", "enginespec", lines)


ENTRY_RE = re.compile(r"(\d+)=(D([01])\(([^)]*)\)|U\(i:([^;]*);o:([^)]*)\))")


def parse_map(s):
    out = []
    for m in ENTRY_RE.finditer(s):
        site = int(m.group(1))
        if m.group(3) is not None:
            out.append((site, "D", int(m.group(3)), m.group(4)))
        else:
            out.append((site, "U", m.group(5), m.group(6)))
    return out


PKG_RE = re.compile(r"\{C\[(.*?)\];M\[(.*?)\];X\[(.*?)\];F(-|!|\[.*?\])\}")


def parse_result_line(line):
    """-> list of dict(conflicts=[...], map=[...], chosen=[...], fact=None|'!'|[...]) or None if unparsable"""
    res = []
    parts = line.split(" ") if line else []
    for part in parts:
        m = PKG_RE.fullmatch(part)
        if not m:
            return None
        conflicts = [c for c in re.findall(r"S\d+|O\([^)]*\)", m.group(1))]
        fact = m.group(4)
        res.append(dict(conflicts=conflicts, map=parse_map(m.group(2)),
                        chosen=[int(x) for x in m.group(3).split(",") if x],
                        fact=None if fact == "-" else ("!" if fact == "!" else parse_map(fact[1:-1]))))
    return res


SPEC_RE = re.compile(r"\{flow=([01]);N\[(.*?)\];M\[(.*?)\]\}")


def parse_spec_line(line):
    return [(m.group(1) == "1", set(int(x) for x in m.group(2).split(",") if x), set(int(x) for x in m.group(3).split(",") if x))
            for m in SPEC_RE.finditer(line)]


def oracle_c05(pkg_result, spec):
    """The C05 statement evaluated on one package result (implementation output) against the spec."""
    flow, nset, mset = spec
    if (len(pkg_result["conflicts"]) > 0) != flow:
        return "conflict reported=%s but a source reaches a sink=%s" % (len(pkg_result["conflicts"]) > 0, flow)
    if flow:
        return None
    det = {}
    for e in pkg_result["map"]:
        if e[1] == "D":
            det[e[0]] = e[2]
    for s in nset:
        if det.get(s) != 1:
            return "site %d is reached by a nil source but its verdict is %r" % (s, det.get(s))
    for s in mset:
        if det.get(s) != 0:
            return "site %d reaches a non-nil sink but its verdict is %r" % (s, det.get(s))
    for s, v in det.items():
        if v == 1 and s not in nset:
            return "site %d is nilable but no source reaches it" % s
        if v == 0 and s not in mset:
            return "site %d is nonnil but it reaches no sink" % s
    return None


def shrink(sc, failing, budget=400):
    """Greedy delta debugging: drop triggers / annotations / trailing packages while `failing(sc)` holds."""
    cur = sc
    changed = True
    n = 0
    while changed and n < budget:
        changed = False
        for pi in range(len(cur.pkgs)):
            for field in ("trigs", "annots"):
                i = 0
                while i < len(cur.pkgs[pi][field]) and n < budget:
                    cand = cur.copy()
                    del cand.pkgs[pi][field][i]
                    n += 1
                    if failing(cand):
                        cur = cand
                        changed = True
                    else:
                        i += 1
        if len(cur.pkgs) > 1:
            cand = cur.copy()
            cand.pkgs.pop()
            cand.sites = [x for x in cand.sites if x[3] < len(cand.pkgs)]
            n += 1
            if failing(cand):
                cur = cand
                changed = True
    return cur


def stats(scs):
    n = len(scs)
    d = {"scenarios": n,
         "packages_hist": {}, "triggers_hist": {}, "controlled_triggers": 0, "annotations": 0,
         "kinds": {"A->A": 0, "A->C": 0, "C->A": 0, "C->C": 0, "N->*": 0}}
    for sc in scs:
        k = str(len(sc.pkgs))
        d["packages_hist"][k] = d["packages_hist"].get(k, 0) + 1
        nt = sum(len(p["trigs"]) for p in sc.pkgs)
        b = str(min(nt // 5 * 5, 25))
        d["triggers_hist"][b] = d["triggers_hist"].get(b, 0) + 1
        for p in sc.pkgs:
            d["annotations"] += len(p["annots"])
            for t in p["trigs"]:
                if t[5] >= 0:
                    d["controlled_triggers"] += 1
                key = "N->*" if t[1] == N else ("AC"[t[1] // 2] + "->" + "AC"[t[2] // 2])
                d["kinds"][key] += 1
    return d
