"""Hand-written MiniGo programs: the known false negatives of C01 / C20 (kept so that the checks reproduce them on
every run and notice when one disappears or a new one shows up)."""
from . import minigo as M
from .progfuzz import Case

L = lambda n: ("L", n)
G = lambda n: ("G", n)


def f1_rotation(k=7):
    """x0..x(k-1) allocated, xk nil; a loop shifts the values down by one per iteration; x0 is dereferenced after
    the loop: nil needs k iterations to arrive, the backward propagation stops after 5 stable rounds"""
    body = [("assign", L(i), "new") for i in range(k)] + [("assign", L(k), "nil")]
    rot = M.seq([("assign", L(i), L(i + 1)) for i in range(k)])
    body += [("while", ("opaque",), rot), ("deref", 1, L(0))]
    f0 = dict(nparams=0, pkg=0, method=False, body=M.seq(body))
    return dict(funcs=[f0], ginit=[], gpkg=[], npkgs=1)


def f30_nested_loops(k=6):
    """var x0 *T; k nested `for opaque()` loops around x0.V: the consumer needs one round per enclosing loop to reach
    the entry block, the rounds in between leave the entry triggers unchanged and count as stable: with k >= 6 the
    backward propagation stops (5 stable rounds) before the dereference is seen"""
    body = ("deref", 1, L(0))
    for _ in range(k):
        body = ("while", ("opaque",), body)
    f0 = dict(nparams=0, pkg=0, method=False, body=M.seq([body]))
    return dict(funcs=[f0], ginit=[], gpkg=[], npkgs=1)


def f2_global_across_call():
    """G0 = &T{}; F1(); G0.V   with F1 assigning nil to G0"""
    f0 = dict(nparams=0, pkg=0, method=False, body=M.seq([("assign", G(0), "new"), ("call", None, 1, [], 1), ("deref", 1, G(0))]))
    f1 = dict(nparams=0, pkg=0, method=False, body=M.seq([("assign", G(0), "nil")]))
    return dict(funcs=[f0, f1], ginit=[True], gpkg=[0], npkgs=1)


def f4_cross_package_contract():
    """x1 = p0.F1(x0) with x0 nil and func F1(p *T) *T { return p } (nonnil->nonnil contract) in another package"""
    f0 = dict(nparams=0, pkg=1, method=False, body=M.seq([("call", L(1), 1, [L(0)], 1), ("deref", 1, L(1))]))
    f1 = dict(nparams=1, pkg=0, method=False, body=M.seq([("return", L(0))]))
    return dict(funcs=[f0, f1], ginit=[], gpkg=[], npkgs=2)


def f4_same_package_control():
    """the same program with F1 in the caller's package: reported"""
    p = f4_cross_package_contract()
    p["funcs"][0]["pkg"] = 0
    p["npkgs"] = 1
    return p


def f22_infeasible_path():
    """var x0, x1 *T; if x0 != nil { x1.V }: the only unprotected dereference is dead code (x0 is always nil) but the
    analysis merges paths without looking at the values the nil comparisons exclude"""
    f0 = dict(nparams=0, pkg=0, method=False, body=M.seq([("if", ("nonnil", L(0)), ("deref", 1, L(1)), ("skip",))]))
    return dict(funcs=[f0], ginit=[], gpkg=[], npkgs=1)


def c02_cases():
    return [Case("kf22dead", f22_infeasible_path(), "corpus", lone=1)]


def cases():
    return [Case("kf1rot7", f1_rotation(7), "corpus"), Case("kf1rot3", f1_rotation(3), "corpus"),
            Case("kf2glob", f2_global_across_call(), "corpus"),
            Case("kf30nest6", f30_nested_loops(6), "corpus"), Case("kf30nest4", f30_nested_loops(4), "corpus"),
            Case("kf4xpkg", f4_cross_package_contract(), "corpus"), Case("kf4same", f4_same_package_control(), "corpus")]


def f21_literal_arg():
    """x0 = F1(nil); x0.V with func F1(p *T) *T { if opaque() { return &T{} }; return p } (fixed: F21)"""
    f0 = dict(nparams=0, pkg=0, method=False, body=M.seq([("call", L(0), 1, ["nil"], 1), ("deref", 1, L(0))]))
    f1 = dict(nparams=1, pkg=0, method=False, body=M.seq([("if", ("opaque",), ("return", "new"), ("skip",)), ("return", L(0))]))
    return dict(funcs=[f0, f1], ginit=[], gpkg=[], npkgs=1)


def f23_loop_overwrite():
    """x0 = F1(&T{}); x0.V with func F1(p *T) *T { var x *T; if p == nil { return G0 }; for opaque() { p = x }; return p }
    (fixed: F23, stale nilness of a phi value)"""
    f0 = dict(nparams=0, pkg=0, method=False, body=M.seq([("call", L(0), 1, ["new"], 1), ("deref", 1, L(0))]))
    f1 = dict(nparams=1, pkg=0, method=False, body=M.seq([
        ("if", ("not", ("nonnil", L(0))), ("return", G(0)), ("skip",)),
        ("while", ("opaque",), ("assign", L(0), L(1))), ("return", L(0))]))
    return dict(funcs=[f0, f1], ginit=[True], gpkg=[0], npkgs=1)


def f3_opaque_nil():
    """x0 = F1(&T{}); x0.V with func F1(p *T) *T { if opaque() { return nil }; if p == nil { return nil }; return p } (fixed: F3)"""
    f0 = dict(nparams=0, pkg=0, method=False, body=M.seq([("call", L(0), 1, ["new"], 1), ("deref", 1, L(0))]))
    f1 = dict(nparams=1, pkg=0, method=False, body=M.seq([
        ("if", ("opaque",), ("return", "nil"), ("skip",)),
        ("if", ("not", ("nonnil", L(0))), ("return", "nil"), ("skip",)), ("return", L(0))]))
    return dict(funcs=[f0, f1], ginit=[], gpkg=[], npkgs=1)


def f27_unknown_path_at_join():
    """x0 = F1(&T{}); x0.V with func F1(p *T) *T { x := G0; if opaque() { if p != nil { x = &T{} } else { x = nil } }; return x }
    and G0 nil (fixed: F27, the empty nilness table of the path around the outer `if` was dropped at the join)"""
    f0 = dict(nparams=0, pkg=0, method=False, body=M.seq([("call", L(0), 1, ["new"], 1), ("deref", 1, L(0))]))
    f1 = dict(nparams=1, pkg=0, method=False, body=M.seq([
        ("assign", L(1), G(0)),
        ("if", ("opaque",), ("if", ("nonnil", L(0)), ("assign", L(1), "new"), ("assign", L(1), "nil")), ("skip",)),
        ("return", L(1))]))
    return dict(funcs=[f0, f1], ginit=[False], gpkg=[0], npkgs=1)


def f28_controller_decided_in_second_pass():
    """x0, e50 = F1(); if e50 != nil { return }; x1 = F2(x0); x1.V  with F1 returning (G0, nil), G0 nil, and
    func F2(p *T) *T { if p == nil { return nil }; return &T{} } (fixed: F28, the controlled triggers of the call to F2
    were forgotten before the second inference pass decided that x0 is nilable)"""
    f0 = dict(nparams=0, pkg=0, method=False, ltypes={50: "E"}, ptypes=[], rtype="T", impl=None, err=False,
              body=M.seq([("call2", L(0), L(50), 1, [], 1),
                          ("if", ("nonnil", L(50)), ("return", "new"), ("skip",)),
                          ("call", L(1), 2, [L(0)], 2), ("deref", 1, L(1)), ("return", "new")]))
    f1 = dict(nparams=0, pkg=0, method=False, ltypes={50: "E"}, ptypes=[], rtype="T", impl=None, err=True,
              body=M.seq([("assign", L(50), "nil"), ("if", ("opaque",), ("assign", L(50), "new"), ("skip",)), ("return2", G(0), L(50))]))
    f2 = dict(nparams=1, pkg=0, method=False, ltypes={}, ptypes=["T"], rtype="T", impl=None, err=False,
              body=M.seq([("if", ("not", ("nonnil", L(0))), ("return", "nil"), ("skip",)), ("return", "new")]))
    return dict(funcs=[f0, f1, f2], ginit=[False], gpkg=[0], npkgs=1)


def c20_cases():
    return [Case("kf4xpkg", f4_cross_package_contract(), "corpus"), Case("kf4same", f4_same_package_control(), "corpus"),
            Case("kf21lit", f21_literal_arg(), "corpus"), Case("kf23loop", f23_loop_overwrite(), "corpus"),
            Case("kf3opq", f3_opaque_nil(), "corpus"), Case("kf27join", f27_unknown_path_at_join(), "corpus"),
            Case("kf28pass", f28_controller_decided_in_second_pass(), "corpus")]


def f26_check_inside_loop():
    """x0, e50 = F1(); for opaque() { if e50 == nil { x0.V } } with a convention-respecting F1: every path to the
    dereference has passed the check, yet NilAway reports `lacking guarding` (the check is in a loop, the call before it)"""
    f0 = dict(nparams=0, pkg=0, method=False, ltypes={50: "E"}, ptypes=[], rtype="T", impl=None, err=False,
              body=M.seq([("call2", L(0), L(50), 1, [], 1),
                          ("while", ("opaque",), ("if", ("not", ("nonnil", L(50))), ("deref", 1, L(0)), ("skip",)))]))
    f1 = dict(nparams=0, pkg=0, method=False, ltypes={}, ptypes=[], rtype="T", impl=None, err=True,
              body=M.seq([("if", ("opaque",), ("return2", "nil", "new"), ("skip",)), ("return2", "new", "nil")]))
    return dict(funcs=[f0, f1], ginit=[], gpkg=[], npkgs=1)


def f26_control():
    """the same check and use without the loop: clean"""
    p = f26_check_inside_loop()
    p["funcs"][0]["body"] = M.seq([("call2", L(0), L(50), 1, [], 1), ("if", ("not", ("nonnil", L(50))), ("deref", 1, L(0)), ("skip",))])
    return p


def c08_cases():
    return [Case("kf26loop", f26_check_inside_loop(), "corpus"), Case("kf26ctl", f26_control(), "corpus")]
