"""Whole-tool nolint suite (C11, C13): generated packages with dereferences of one or several nil sources and
//nolint comments in every spelling/placement; both values of the grouping flag; same-package and cross-package."""
import os
import random
import re
import shutil

from . import common
from . import wholetool as wt

SPELLINGS_ON = ["//nolint:nilaway", "//nolint:all", "//nolint", "// nolint:nilaway // reason", "//nolint:errcheck,nilaway",
                "//nolint:errcheck, nilaway", "//nolint: nilaway , errcheck", "//nolint TODO: remove", "//nolint:nilaway: a reason"]
SPELLINGS_OFF = ["//nolint:errcheck", "// not a nolint comment", "//nolintlint", "// nolinting this would be wrong", "//nolint:errcheck, gosec"]


def gen_module(rng, d):
    """writes module ex.com/nl with packages a (upstream), b (importer) and c (imports b only). returns expectations:
    list of (file, line, suppressed: bool) for every dereference that can see nil"""
    os.makedirs(os.path.join(d, "a"))
    os.makedirs(os.path.join(d, "b"))
    open(os.path.join(d, "go.mod"), "w").write("module ex.com/nl\n\ngo 1.23\n")
    exp = []
    # ---- package a
    L = ["package a", "", "type T struct{ V int }", ""]
    nsrc = rng.randint(1, 3)
    for i in range(nsrc):
        L += ["func src%d(c bool) *T {" % i, "\tif c {", "\t\treturn nil", "\t}", "\treturn &T{}", "}", ""]
    nfun = rng.randint(2, 7)
    for i in range(nfun):
        s = rng.randrange(nsrc)
        kind = rng.random()
        L.append("func F%d(c bool) int {" % i)
        L.append("\tp := src%d(c)" % s)
        if kind < 0.6:
            # end-of-line comment on the dereferencing statement
            r = rng.random()
            if r < 0.45:
                cm, sup = " " + rng.choice(SPELLINGS_ON), True
            elif r < 0.6:
                cm, sup = " " + rng.choice(SPELLINGS_OFF), False
            else:
                cm, sup = "", False
            L.append("\treturn p.V%s" % cm)
            exp.append(("a/a.go", len(L), sup))
        elif kind < 0.8:
            # comment on its own line above the statement -- alone, or as one line of a comment group (the directive first
            # and the justification after it, or the other way round), directly after the previous statement
            sup = rng.random() < 0.6
            cm = "\t" + (rng.choice(SPELLINGS_ON) if sup else rng.choice(SPELLINGS_OFF))
            shape = rng.randrange(4)
            if shape == 1:
                L += [cm, "\t// the value cannot be nil here: see src"]
            elif shape == 2:
                L += ["\t// the value cannot be nil here: see src", cm]
            elif shape == 3:
                L += [cm, "\t// first line of the justification", "\t// second line of the justification"]
            else:
                L.append(cm)
            L.append("\treturn p.V")
            exp.append(("a/a.go", len(L), sup))
        else:
            # comment above a multi-line statement: the whole statement's line range is covered
            sup = rng.random() < 0.7
            if sup:
                L.append("\t" + rng.choice(SPELLINGS_ON))
            L.append("\tif c {")
            L.append("\t\treturn p.V")
            exp.append(("a/a.go", len(L), sup))
            L.append("\t}")
            L.append("\treturn 0")
        L.append("}")
        L.append("")
    # nested ranges: a nolint comment on a whole function (or on a multi-line statement) that contains another
    # nolint comment on one of its lines; every dereference inside the outer range stays suppressed
    for i in range(rng.randint(0, 2)):
        s = rng.randrange(nsrc)
        outer_func = rng.random() < 0.5
        if outer_func:
            L.append(rng.choice(SPELLINGS_ON))
        L.append("func N%d(c bool) int {" % i)
        L.append("\tp := src%d(c)" % s)
        if not outer_func:
            L.append("\t" + rng.choice(SPELLINGS_ON))
        L.append("\tif c {")
        L.append("\t\t_ = p.V %s" % rng.choice(SPELLINGS_ON))
        exp.append(("a/a.go", len(L), True))
        L.append("\t\t_ = p.V")
        exp.append(("a/a.go", len(L), True))
        L.append("\t\treturn p.V")
        exp.append(("a/a.go", len(L), True))
        L.append("\t}")
        if outer_func:
            L.append("\treturn p.V")
            exp.append(("a/a.go", len(L), True))
        else:
            L.append("\treturn 0")
        L.append("}")
        L.append("")
    # an exported function whose parameter is dereferenced; the importer passes nil
    sup_x = rng.random() < 0.5
    L.append("func Use(p *T) int {")
    L.append("\treturn p.V%s" % (" //nolint:nilaway" if sup_x else ""))
    use_line = len(L)
    L.append("}")
    open(os.path.join(d, "a", "a.go"), "w").write("\n".join(L) + "\n")
    # ---- package b
    B = ["package b", "", 'import "ex.com/nl/a"', "", "func G() int {", "\treturn a.Use(nil)", "}", "",
         "// Via hands its argument on to a.Use (the second parameter keeps contract inference away)",
         "func Via(p *a.T, n int) int {", "\treturn a.Use(p) + n", "}"]
    open(os.path.join(d, "b", "b.go"), "w").write("\n".join(B) + "\n")
    # ---- package c imports b only: the finding it causes is located in the file of a package it does not import
    os.makedirs(os.path.join(d, "c"))
    C = ["package c", "", 'import "ex.com/nl/b"', "", "func H() int {", "\treturn b.Via(nil, 0)", "}"]
    open(os.path.join(d, "c", "c.go"), "w").write("\n".join(C) + "\n")
    exp.append(("a/a.go", use_line, sup_x, 2))      # two flows end here: from b.G and from c.H
    return exp


def shown_lines(diags, fname):
    """all lines of `fname` that appear as a diagnostic position or in an 'other place(s)' list"""
    out = []
    for dg in diags:
        if dg["file"].endswith(fname):
            out.append(dg["line"])
        m = re.search(r"at (\d+) other place\(s\): (.*)\.\)", dg["message"])
        if m:
            places = re.findall(r'"([^"]*)"', m.group(2))
            if int(m.group(1)) != len(places):
                out.append(("count-mismatch", int(m.group(1)), len(places)))
            for pl in places:
                mm = re.match(r"(.*):(\d+):(\d+)$", pl)
                if mm and (mm.group(1).endswith(fname) or fname.endswith(mm.group(1))):
                    out.append(int(mm.group(2)))
    return out


def run_suite(ctx, n_modules):
    rng = random.Random(ctx.seed * 31 + 5)
    bad, total, samples = [], 0, []
    for m in range(n_modules):
        d = ctx.scratch()
        try:
            exp = gen_module(rng, d)
            for grouping in ("true", "false"):
                r, err = wt.analyze(d, flags={"group-error-messages": grouping})
                if r is None or r.get("errors"):
                    bad.append(("driver", "run failed: %s %r" % (err, r and r.get("errors")), ""))
                    continue
                shown = shown_lines(r["diags"] or [], "a/a.go")
                cm = [x for x in shown if isinstance(x, tuple)]
                lines = [x for x in shown if not isinstance(x, tuple)]
                src = open(os.path.join(d, "a", "a.go")).read()
                for e in exp:
                    (f, line, sup), maxcnt = e[:3], (e[3] if len(e) > 3 else 1)
                    total += 1
                    cnt = lines.count(line)
                    if sup and cnt:
                        bad.append(("nolint", "grouping=%s: a/a.go:%d carries a nolint comment but is still reported" % (grouping, line), src))
                    if not sup and cnt == 0:
                        bad.append(("hidden", "grouping=%s: the nil dereference at a/a.go:%d has no (matching) nolint comment but is shown nowhere" % (grouping, line), src))
                    if cnt > maxcnt:
                        bad.append(("dup", "grouping=%s: a/a.go:%d is shown %d times" % (grouping, line, cnt), src))
                if cm:
                    bad.append(("count", "grouping=%s: stated count differs from the list: %r" % (grouping, cm), src))
                extra = set(lines) - {e[1] for e in exp}
                if extra:
                    bad.append(("new", "grouping=%s: locations %r are reported but hold no dereference that can see nil" % (grouping, sorted(extra)), src))
            if m < 1:
                samples.append(open(os.path.join(d, "a", "a.go")).read()[:600])
        finally:
            shutil.rmtree(d, ignore_errors=True)
    return total, bad, samples
