"""C17: driver-shared inputs are treated as read-only (partial)."""
import json
import os
import random

from . import common
from . import det_suite as ds

FLAGSETS = [{}, {"exclude-file-docstrings": "Code generated,@generated"}, {"experimental-struct-init": "true"}, {"experimental-anonymous-function": "true"}, {"experimental-struct-init-v2": "true"},
            {"group-error-messages": "false", "pretty-print": "true"}]


def run(ctx):
    ok, msg = ctx.build_tools()
    if not ok:
        ctx.obligation("tools build against /repo (hooks enabled)", False)
        ctx.violation("build", msg, found_input=False)
        ctx.write_evidence()
        return
    okg, outg = ctx.regen("all")
    ctx.obligation("translator ran (go/types inventory of writes through driver-shared types)", okg)
    okp, log = ctx.prove("props/C17.v", "C17")
    rng = random.Random(ctx.seed + 31)
    mods = ds.modules(ctx, rng, 1 if ctx.tier == "quick" else 4)
    mods.append((os.path.join(common.VERIF, "corpus", "c17"), False))      # templ component functions (finding F18)
    # generated programs of the core fragment, interfaces and the error convention in every spelling of the
    # conditions (literals on either side, negations, switches): the forms the preprocessing rewrites
    from . import progfuzz as PF
    d = ctx.scratch()
    cases = PF.gen_cases(rng, 45 if ctx.tier == "quick" else 300, streams=("random", "iface", "err"), prefix="r")
    PF.write_module(d, {c.name: c.prog for c in cases}, {c.name: random.Random(rng.random()) for c in cases})
    mods.append((d, True))
    extra = []
    if ctx.tier == "thorough":
        extra = [(common.REPO, ["./inference/...", "./diagnostic/...", "./annotation/...", "./assertion/function/preprocess/..."])]
    bad, npk = [], 0
    try:
        for d, _ in mods:
            for flags in (FLAGSETS if ctx.tier == "thorough" else FLAGSETS[:4]):
                args = ["readonly", "-dir", d]
                for k, v in flags.items():
                    args += ["-flag", "%s=%s" % (k, v)]
                rc, out, err = common.harness(args + ["./..."], timeout=900)
                if rc != 0:
                    bad.append("%s %r: run failed: %s" % (d, flags, err[-400:]))
                    continue
                for row in json.loads(out.strip().splitlines()[-1]) or []:
                    npk += 1
                    if row["changed"]:
                        bad.append("module %s, flags %r, package %s: NilAway changed the shared %s" % (d, flags, row["pkg"], ", ".join(row["changed"])))
        for d, pats in extra:
            rc, out, err = common.harness(["readonly", "-dir", d] + pats, timeout=1800)
            if rc == 0:
                for row in json.loads(out.strip().splitlines()[-1]) or []:
                    npk += 1
                    if row["changed"]:
                        bad.append("%s package %s: NilAway changed the shared %s" % (d, row["pkg"], ", ".join(row["changed"])))
    finally:
        ds.cleanup(mods)
    ctx.obligation("structural snapshot (syntax trees incl. slice headers and child pointers, types.Info maps, ctrlflow CFGs incl. Nodes/Succs slice headers, SSA instructions) taken before and after NilAway in the same driver: unchanged for %d (package, flag set) pairs" % npk, npk > 0 and not bad)
    ctx.coverage.update({"evaluations": npk, "distinct_nontrivial": len(mods),
                         "rule": "every package of the corpus and generated modules under the default configuration and the experimental flags; distinct non-trivial case = a module"})
    ctx.assumptions.append("partial: aliasing in the real heap is only sampled by the snapshot; the Coq theorem is about the modelled primitives, tied to the code by the classified inventory of writes through shared types")
    ctx.sample("corpus/c10 under the default flags and -experimental-struct-init")
    for b in bad[:3]:
        ctx.violation("readonly", "C17 fails on the real tool: %s\nreplay: bin/harness readonly -dir <module> [-flag k=v] ./...\n" % b)
    if not okp and not ctx.violations:
        ctx.violation("proof", "a proof obligation of props/C17.v no longer checks (e.g. an unclassified write through a shared type):\n" + common.coq_error_excerpt(log), found_input=False)
    ctx.write_evidence()


def replay(ctx, path):
    print(open(path).read())
