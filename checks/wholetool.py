"""Helpers to run the real NilAway (in-process driver, through bin/harness analyze) on a module directory."""
import json
import re

from . import common


def analyze(dirpath, flags=None, seq=False, sanity=False, patterns=(), timeout=900, env=None, sites=False, fileorder=None):
    args = ["analyze", "-dir", dirpath]
    for k, v in (flags or {}).items():
        args += ["-flag", "%s=%s" % (k, v)]
    if seq:
        args.append("-seq")
    if sanity:
        args.append("-sanity")
    if sites:
        args.append("-sites")
    if fileorder:
        args += ["-fileorder", fileorder]
    args += list(patterns)
    rc, out, err = common.harness(args, timeout=timeout, env=env)
    if rc != 0:
        return None, "harness analyze failed rc=%s: %s" % (rc, err[-2000:])
    try:
        return json.loads(out.strip().splitlines()[-1]), None
    except Exception as e:  # noqa
        return None, "unparsable output: %s / %s" % (out[-500:], err[-500:])


def func_ranges(go_file):
    """very small Go reader: top-level func name -> (first line, last line), by brace counting"""
    lines = open(go_file).read().splitlines()
    out = {}
    i = 0
    while i < len(lines):
        m = re.match(r"func\s+(?:\([^)]*\)\s*)?([A-Za-z_0-9]+)\s*\(", lines[i])
        if m:
            depth, j, started = 0, i, False
            while j < len(lines):
                depth += lines[j].count("{") - lines[j].count("}")
                if "{" in lines[j]:
                    started = True
                if started and depth == 0:
                    break
                j += 1
            out[m.group(1)] = (i + 1, j + 1)
            i = j
        i += 1
    return out


def lines_mentioned(diag, fname):
    """lines of file `fname` that a diagnostic touches: its position plus every file:line:col in its message"""
    ls = set()

    def same(a, b):
        # one path is a suffix of the other at a path-component boundary (messages shorten paths to <dir>/<file>)
        pa, pb = a.split("/"), b.split("/")
        k = min(len(pa), len(pb))
        return pa[-k:] == pb[-k:]
    if same(diag["file"], fname):
        ls.add(diag["line"])
    for m in re.finditer(r"([\w./%-]+\.(?:go|y|tmpl|templ)):(\d+)(?::(\d+))?", diag["message"]):
        if same(m.group(1), fname):
            ls.add(int(m.group(2)))
    return ls
