"""Case generator, runners and ground-truth oracles for the diagnostic engine suite (model M2 vs real
diagnostic.Engine through the verif hook)."""
import os
import random
from collections import Counter

from . import common


class Case:
    """conflicts: list of dict(id, pos=(file,line,col,off), nil=[node], nonnil=[node]);
    node = dict(pp=(valid,file,line,col), cp=(valid,file,line,col), pr=int, cr=int)"""

    def __init__(self, grouping, excl, test_files, ranges, conflicts):
        self.grouping, self.excl, self.test_files, self.ranges, self.conflicts = grouping, excl, test_files, ranges, conflicts

    def line(self):
        out = [int(self.grouping), int(self.excl), len(self.test_files)] + list(self.test_files) + [len(self.ranges)]
        for r in self.ranges:
            out += list(r)

        def nodes(ns):
            o = [len(ns)]
            for n in ns:
                st = n.get("st", NOPOS)
                o += [int(n["pp"][0])] + list(n["pp"][1:]) + [int(n["cp"][0])] + list(n["cp"][1:]) + [n["pr"], n["cr"]] + [int(st[0])] + list(st[1:])
            return o
        out.append(len(self.conflicts))
        for c in self.conflicts:
            src = c.get("src", NOPOS)
            out += [c["id"]] + list(c["pos"]) + nodes(c["nil"]) + nodes(c["nonnil"]) + [int(src[0])] + list(src[1:])
        return " ".join(map(str, out))

    def with_(self, **kw):
        d = dict(grouping=self.grouping, excl=self.excl, test_files=self.test_files, ranges=self.ranges, conflicts=self.conflicts)
        d.update(kw)
        return Case(**d)

    def pretty(self):
        def ps(p):
            return "f%d:%d:%d" % tuple(p[1:]) if p[0] else "-"
        ls = ["grouping=%s exclude-test-files=%s test-files=%s" % (self.grouping, self.excl, self.test_files)]
        for r in self.ranges:
            ls.append("  nolint range f%d lines %d..%d" % tuple(r))
        for c in self.conflicts:
            ls.append("  conflict #%d at f%d:%d:%d (offset %d)%s" % ((c["id"],) + tuple(c["pos"]) + ((" source object at %s" % ps(c["src"])) if c.get("src", NOPOS)[0] else "",)))
            for n in c["nil"]:
                ls.append("      nil-path node producer=%s consumer=%s reprs=(p%d,c%d) site=%s" % (ps(n["pp"]), ps(n["cp"]), n["pr"], n["cr"], ps(n.get("st", NOPOS))))
            for n in c["nonnil"]:
                ls.append("      nonnil-path node producer=%s consumer=%s reprs=(p%d,c%d)" % (ps(n["pp"]), ps(n["cp"]), n["pr"], n["cr"]))
        return "\n".join(ls) + "\ncase-line: " + self.line() + "\n"


NOPOS = (False, 0, 0, 0)


def gen_case(rng, max_conf=9):
    nfiles = rng.randint(1, 4)
    test_files = [f for f in range(1, nfiles + 1) if rng.random() < 0.2]
    # shared nil sources
    sources = []
    short = lambda f: 2 if f >= 3 else f     # v/util.go, w/v/util.go, x/w/v/util.go all print as v/util.go
    twin = None
    for i in range(rng.randint(1, 3)):
        kind = rng.random()
        f = rng.randint(1, nfiles)
        if twin is not None and rng.random() < 0.5:
            # a look-alike of an earlier source: the same printed path in another file with the same <dir>/<file> name
            path = [(dict(n, st=(True, 5 - n["st"][1], n["st"][2], n["st"][3])) if n.get("st", NOPOS)[0] and n["st"][1] in (2, 3) else dict(n)) for n in twin]
            sources.append(path)
            continue
        sf = short(f)
        if kind < 0.4:      # a nil literal flowing through an assignment: producer+consumer positions
            l = rng.randint(1, 40)
            path = [dict(pp=(True, sf, l, 2), cp=(True, sf, l, 5), pr=10 + i, cr=20 + i, st=(True, f, l, 2))]
        elif kind < 0.8:    # annotation node: no consumer; producer position may or may not be known
            l = rng.randint(1, 40)
            pp = (True, sf, l, 1) if rng.random() < 0.7 else NOPOS
            path = [dict(pp=pp, cp=NOPOS, pr=30, cr=0, st=(True, f, l, 1) if rng.random() < 0.8 else NOPOS)]
        else:
            l = rng.randint(1, 40)
            path = [dict(pp=(True, sf, l, 2), cp=(True, sf, l, 5), pr=10 + i, cr=20 + i, st=(True, f, l, 2)),
                    dict(pp=NOPOS, cp=(True, sf, l + 1, 3), pr=40, cr=41, st=(True, f, l + 1, 3))]
        sources.append(path)
        if f in (2, 3) and nfiles >= 3:
            twin = path
    conflicts = []
    used = set()
    n = rng.randint(1, max_conf)
    for i in range(1, n + 1):
        f = rng.randint(1, nfiles)
        while True:
            l, c = rng.randint(1, 60), rng.randint(1, 9)
            same = [u for u in used if u[0] == f]
            if same and rng.random() < 0.3:     # a second finding on a line that already has one (seed c13g)
                l = rng.choice(sorted(same))[1]
            if (f, l, c) not in used:      # reported positions are unique: a diagnostic identifies its conflict
                used.add((f, l, c))
                break
        off = l * 100 + c
        if rng.random() < 0.75:
            nil = list(rng.choice(sources))
            cp = (True, f, l, c) if rng.random() < 0.85 else NOPOS
            nonnil = []
            if rng.random() < 0.3:
                nonnil.append(dict(pp=NOPOS, cp=(True, f, max(1, l - 1), 1), pr=50, cr=51))
            nonnil.append(dict(pp=NOPOS, cp=cp, pr=60, cr=61))
        else:
            nil = []
            # producers from a small pool: same line with different columns, same column on different lines
            pp = (True, f, rng.choice([3, 3, 4, 17]), rng.choice([1, 1, 6, 9])) if rng.random() < 0.6 else NOPOS
            nonnil = [dict(pp=pp, cp=(True, f, l, c), pr=rng.choice([70, 71]), cr=rng.choice([80, 81]))]
        # the object a single-assertion conflict reads nil from: a small pool of declaration positions (same-named locals)
        src = (True, f, rng.choice([2, 2, 8]), rng.choice([1, 4])) if (not nil and rng.random() < 0.7) else NOPOS
        conflicts.append(dict(id=i, pos=(f, l, c, off), nil=nil, nonnil=nonnil, src=src))
    # conflicts that share a line are told apart by their dereference point (the last flow step): give each one its own
    online = Counter((c["pos"][0], c["pos"][1]) for c in conflicts)
    for c in conflicts:
        if online[(c["pos"][0], c["pos"][1])] > 1:
            c["nonnil"][-1] = dict(c["nonnil"][-1], cp=(True, c["pos"][0], c["pos"][1], c["pos"][2]))
    # a few conflicts share the exact sort key (file, offset) with another one
    if len(conflicts) >= 2 and rng.random() < 0.3:
        a, b = rng.sample(range(len(conflicts)), 2)
        pa, pb = conflicts[a]["pos"], conflicts[b]["pos"]
        if pa[0] == pb[0]:
            conflicts[b] = dict(conflicts[b], pos=(pb[0], pb[1], pb[2], pa[3]))
    ranges = []
    for _ in range(rng.choice([0, 1, 1, 2, 3])):
        c = rng.choice(conflicts)
        lo = max(1, c["pos"][1] - rng.choice([0, 0, 1, 3]))
        hi = c["pos"][1] + rng.choice([0, 0, 2, 5])
        f = c["pos"][0] if rng.random() < 0.85 else rng.randint(1, nfiles)
        ranges.append((f, lo, hi))
    return Case(rng.random() < 0.6, rng.random() < 0.3, test_files, ranges, conflicts)


def run_impl(lines):
    rc, out, err = common.sh2([os.path.join(common.BIN, "harness"), "diag"], inp="\n".join(lines) + "\n", timeout=1800)
    return rc, out.split("\n")[:len(lines)], err


def run_model(lines):
    rc, out, err = common.sh2([os.path.join(common.BIN, "modelrun"), "diag"], inp="\n".join(lines) + "\n", timeout=1800)
    return rc, out.split("\n")[:len(lines)], err


def parse_out(line):
    """-> list of dict(id, file, line, n, places=[str]) or None"""
    if line.startswith("PANIC"):
        return None
    out = []
    if not line.strip():
        return out
    for part in line.split(" ; "):
        kv = dict(x.split("=", 1) for x in part.split(" ")[1:])
        f, l = kv["pos"].split(":")
        out.append(dict(id=int(kv["id"]), file=f, line=int(l), valid=kv["valid"] == "true", n=int(kv["n"]),
                        places=[p for p in kv["places"].split("|") if p], flow=kv.get("flow", "-")))
    return out


# ---------------- ground truth (independent of the Coq model) ----------------
def suppressed(case, c):
    f, l = c["pos"][0], c["pos"][1]
    if any(r[0] == f and r[1] <= l <= r[2] for r in case.ranges):
        return True
    if case.excl:
        if f in case.test_files:
            return True
        for n in c["nil"] + c["nonnil"]:
            for p in (n["pp"], n["cp"]):
                if p[0] and p[1] in case.test_files:
                    return True
    return False


def place_form(c):
    cp = c["nonnil"][-1]["cp"]
    return "%d:%d:%d" % tuple(cp[1:]) if cp[0] else "-"


def nil_source(c):
    """the nil source of a conflict, as a comparable value"""
    if not c["nil"] and len(c["nonnil"]) == 1:
        n = c["nonnil"][0]
        return ("single", n["pp"], n["pr"]) if n["pp"][0] else ("single-nopos", n["pr"], n["cr"], c.get("src", NOPOS) if c.get("src", NOPOS)[0] else None)
    return ("path", tuple((n["cp"], n["pr"], n["cr"], n["pp"] if not n["cp"][0] else None, n.get("st", NOPOS) if n.get("st", NOPOS)[0] else None) for n in c["nil"]))


def oracle_locations(case, diags):
    """C11 + C13: exactly the unsuppressed conflicts are shown, each once, counts match; none invented"""
    if diags is None:
        return "the diagnostic engine panicked"
    byid = {c["id"]: c for c in case.conflicts}
    keep = [c for c in case.conflicts if not suppressed(case, c)]
    heads = [d["id"] for d in diags]
    if len(set(heads)) != len(heads):
        return "a conflict is reported twice as a diagnostic: %r" % heads
    for d in diags:
        if d["id"] not in byid:
            return "diagnostic for an unknown conflict id %d" % d["id"]
        c = byid[d["id"]]
        if suppressed(case, c):
            return "conflict #%d lies on a suppressed line (f%d:%d) but is reported" % (c["id"], c["pos"][0], c["pos"][1])
        if d.get("flow", "-") != "-" and d["flow"].split(":")[:2] != [d["file"], str(d["line"])]:
            return "diagnostic reported at f%s:%d but its flow ends at f%s" % (d["file"], d["line"], d["flow"])
        if (d["file"], d["line"]) != (str(c["pos"][0]), c["pos"][1]):
            return "conflict #%d reported at f%s:%d instead of f%d:%d" % (c["id"], d["file"], d["line"], c["pos"][0], c["pos"][1])
        if d["n"] != len(d["places"]):
            return "diagnostic #%d states %d other place(s) but lists %d" % (d["id"], d["n"], len(d["places"]))
        if not case.grouping and d["n"]:
            return "grouping is off but diagnostic #%d lists other places" % d["id"]
    rest = Counter(place_form(c) for c in keep if c["id"] not in heads)
    shown = Counter(p for d in diags for p in d["places"])
    if rest != shown:
        missing = rest - shown
        extra = shown - rest
        if missing:
            return "not suppressed, yet shown nowhere: %s" % sorted(missing.elements())
        return "listed as other place(s) but suppressed or non-existent: %s" % sorted(extra.elements())
    return None


def oracle_same_source(case, diags):
    """C13: a location listed under a diagnostic has the same nil source as that diagnostic (when the listed
    location identifies its conflict uniquely)"""
    if diags is None:
        return None
    byid = {c["id"]: c for c in case.conflicts}
    byplace = {}
    for c in case.conflicts:
        byplace.setdefault(place_form(c), []).append(c)
    for d in diags:
        head = byid.get(d["id"])
        if head is None:
            continue
        for p in d["places"]:
            cands = byplace.get(p, [])
            if len(cands) == 1 and nil_source(cands[0]) != nil_source(head):
                return "location %s is listed under diagnostic #%d as the same nil source, but its nil source differs" % (p, d["id"])
    return None


def shrink(case, failing, budget=300):
    cur, n, changed = case, 0, True
    while changed and n < budget:
        changed = False
        for i in range(len(cur.conflicts)):
            if len(cur.conflicts) <= 1:
                break
            cand = cur.with_(conflicts=cur.conflicts[:i] + cur.conflicts[i + 1:])
            n += 1
            if failing(cand):
                cur, changed = cand, True
                break
        for i in range(len(cur.ranges)):
            cand = cur.with_(ranges=cur.ranges[:i] + cur.ranges[i + 1:])
            n += 1
            if failing(cand):
                cur, changed = cand, True
                break
    return cur
