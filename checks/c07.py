"""C07: analysis is total (partial). Engine termination theorem + totality sweep over real packages."""
import os
import re
import shutil

from . import common
from . import enginegen as eg
from . import engine_suite as es
from . import wholetool as wt

FLAGS = [{}, {"experimental-struct-init": "true"}, {"experimental-struct-init-v2": "true"}, {"experimental-anonymous-function": "true"},
         {"group-error-messages": "false"}, {"pretty-print": "true"}, {"print-full-file-path": "true"}, {"exclude-test-files": "true"},
         {"include-pkgs": "net,go", "exclude-pkgs": "net/http"}, {"exclude-file-docstrings": "Code generated"}]


def internal(diags):
    out = []
    for d in diags or []:
        m = d["message"]
        if "INTERNAL PANIC" in m or "INTERNAL ERROR" in m:
            lines = [l for l in m.split("\n") if l.strip() and not l.startswith("INTERNAL ERROR(s)")]
            if lines and all("function too large" in l for l in lines):
                continue        # the documented skip of an over-sized function
            out.append("%s (%s): %s" % (d["pkg"], d["file"], m[:400].replace("\n", " | ")))
    return out


def sweep(ctx):
    runs, pk, bad = 0, 0, []
    known = set()
    base = os.path.join(common.VERIF, "corpus", "c10")
    targets = [(base, ["std"], FLAGS if ctx.tier == "thorough" else FLAGS[:1]),
               (base, ["go/types", "net/http", "encoding/json", "text/template", "regexp"], FLAGS if ctx.tier == "thorough" else FLAGS[1:4]),
               (common.REPO, ["./..."] if ctx.tier == "thorough" else ["./inference/...", "./diagnostic/...", "./annotation/...", "./config/..."], FLAGS[:4] if ctx.tier == "thorough" else FLAGS[:1])]
    for sub in ("c10", "c15", "det/m3", "det/m9", "det/m5", "c03/m11", "c07/shapes", "c02", "c08", "c20"):
        # the crash regressions (c07/shapes) need their flag: all four configurations in both tiers
        targets.append((os.path.join(common.VERIF, "corpus", sub), ["./..."], FLAGS[:4] if ctx.tier == "thorough" or sub == "c07/shapes" else FLAGS[:2]))
    # the same small corpora with redundant parentheses everywhere (checks/texture.py `parens`): totality must not depend
    # on how an expression is bracketed
    from . import texture
    import shutil
    scratch = ctx.scratch()
    for sub in ("c07/shapes", "c02", "c08", "c20"):
        d = texture.make(os.path.join(common.VERIF, "corpus", sub), "parens", os.path.join(scratch, sub.replace("/", "_")))
        targets.append((d, ["./..."], FLAGS[:4] if sub == "c07/shapes" else FLAGS[:1]))
    try:
        return _sweep(ctx, targets, base, runs, pk, bad, known)
    finally:
        shutil.rmtree(scratch, ignore_errors=True)


def _sweep(ctx, targets, base, runs, pk, bad, known):
    for d, pats, flagsets in targets:
        for flags in flagsets:
            r, err = wt.analyze(d, flags=flags, patterns=pats, timeout=(1800 if ctx.tier == "thorough" else 600) if d in (base, common.REPO) else 300)
            runs += 1
            if r is None:
                bad.append("%s %r flags %r: the driver did not finish: %s" % (d, pats, flags, err))
                continue
            pk += len({x["pkg"] for x in r["diags"] or []})
            for e in r.get("errors") or []:
                if "load:" in e:
                    continue
                bad.append("%s %r flags %r: driver error %s" % (d, pats, flags, e[:300]))
            for b in internal(r["diags"]):
                pkgname = b.split(" ")[0]
                if any(kf.get("flag") in flags and pkgname in kf.get("packages", []) for kf in ctx.known_for()):
                    known.add((tuple(sorted(flags)), pkgname))
                    continue
                bad.append("%s %r flags %r: %s" % (d, pats, flags, b))
    for kf in ctx.known_for():
        hit = sorted(p for (f, p) in known if kf.get("flag") in f)
        if hit:
            ctx.known_finding(kf["id"], "%s -- still crashes on %s" % (kf["what"][:110], ", ".join(hit)))
    return runs, pk, bad


def treesize(ctx):
    """corpus/c07/treesize (finding F109): small functions whose assertion trees grow exponentially.  The REAL binary, under a
    memory and a time limit -- without the bound the run needs minutes and tens of gigabytes and dies of the Go runtime's
    out-of-memory fatal error.  -> list of failures"""
    d = os.path.join(common.VERIF, "corpus", "c07", "treesize")
    env = dict(common.GOENV)
    env["NO_COLOR"] = "1"
    cmd = "ulimit -v 12000000; exec timeout 240 %s -pretty-print=false ./..." % os.path.join(common.BIN, "nilaway")
    rc, out, err = common.sh2(["bash", "-c", cmd], cwd=d, env=env, timeout=300)
    text = err + "\n" + out
    bad = []
    if rc not in (0, 1, 3) or "fatal error" in text or "out of memory" in text:
        bad.append("the driver was brought down (exit %s) on corpus/c07/treesize: %s" % (rc, text[-300:].replace("\n", " | ")))
        return bad
    if "INTERNAL PANIC" in text:
        bad.append("INTERNAL PANIC on corpus/c07/treesize: %s" % text[:300].replace("\n", " | "))
    # the permitted self-reported failure, for exactly the two pathological functions; the control package is analysed
    skips = re.findall(r"skipping function `(\w+)\(\)` at \S*?(\w+/a\.go):\d+:\d+: function too large", text)
    if sorted(x[1] for x in skips) != ["fanout/a.go", "seq/a.go"]:
        bad.append("corpus/c07/treesize: expected the documented skip for fanout/a.go and seq/a.go, got %r" % (skips,))
    if not re.search(r"small/a\.go:29:\d+: ", text):
        bad.append("corpus/c07/treesize: the ordinary dereference at small/a.go:29 (a function with the same shape below the bound) is no longer reported")
    return bad


def run(ctx):
    ok, msg = ctx.build_tools()
    if not ok:
        ctx.obligation("tools build against /repo (hooks enabled)", False)
        ctx.violation("build", msg, found_input=False)
        ctx.write_evidence()
        return
    ctx.regen("all")
    okp, log = ctx.prove("props/C07.v", "C07")
    # engine: model never runs out of fuel / real engine never panics on well-formed scenarios
    scs = es.scenarios_for(ctx, 3000 if ctx.tier == "quick" else 60000)
    lines = [s.line() for s in scs]
    rc1, impl, e1 = eg.run_impl(lines)
    rc2, model, e2 = eg.run_model(lines)
    eng_bad = [i for i in range(len(lines)) if rc1 == 0 and rc2 == 0 and ("PANIC" in impl[i] or "OUT-OF-FUEL" in model[i])]
    ctx.obligation("engine on %d well-formed scenarios: the real engine never panics, the model never runs out of fuel" % len(lines), rc1 == 0 and rc2 == 0 and not eng_bad)
    runs, pk, bad = sweep(ctx)
    ctx.obligation("totality sweep: %d whole-tool runs (the entire standard library, nilaway's own packages, the corpora; default configuration and documented flags): terminates, no driver error, no INTERNAL PANIC / INTERNAL ERROR other than the over-sized-function skip" % runs, runs > 0 and not bad)
    tbad = treesize(ctx)
    ctx.obligation("corpus/c07/treesize: two 40-line functions whose assertion trees grow exponentially (a loop descending into one of eight fields; 24 consecutive switches) do not bring the driver down (real binary under ulimit -v 12 GB, 240 s): they are skipped as over-sized, the control package is analysed", not tbad)
    for b in tbad[:2]:
        ctx.violation("treesize", "C07 fails on the real tool: %s\nreplay: cd corpus/c07/treesize && (ulimit -v 12000000; timeout 240 bin/nilaway -pretty-print=false ./...)\n" % b)
    for kf in ctx.known_for():
        if kf["id"] == "F13":
            d = ctx.scratch()
            try:
                shutil.copy(os.path.join(common.VERIF, "corpus", "c07", "m7", "gen.py"), d)
                open(os.path.join(d, "go.mod"), "w").write("module ex.com/m7\n\ngo 1.23\n")
                common.sh(["python3", "gen.py", "130"], cwd=d)
                r, err = wt.analyze(d)
                hit = internal((r or {}).get("diags"))
                if hit:
                    ctx.known_finding("F13", "the 2*blocks^2 round bound is not a bound for the fixpoint iteration: 130 variables rotated in a loop -> %s" % hit[0][:160])
            finally:
                shutil.rmtree(d, ignore_errors=True)
    ctx.coverage.update({"evaluations": runs + len(lines), "distinct_nontrivial": runs,
                         "rule": "one whole-tool run per (package set, flag set): `std` (all of the standard library), a set of large std packages under each flag, nilaway itself, the corpora; plus engine scenarios; every run is distinct",
                         "packages_with_diagnostics": pk})
    ctx.assumptions.append("partial: Coq proves termination of the inference engine only; totality of the per-function analysis and of everything else is explored, not proved")
    ctx.sample("bin/harness analyze -dir corpus/c10 std   (whole standard library, default flags)")
    for i in eng_bad[:2]:
        ctx.violation("engine", "C07 fails on the real engine / model: %s\nreal: %s\nmodel: %s\n" % (scs[i].pretty(), impl[i], model[i]))
    for b in bad[:4]:
        ctx.violation("sweep", "C07 fails on the real tool: %s\nreplay: bin/harness analyze -dir <dir> [-flag k=v] <patterns>\n" % b)
    if not okp and not ctx.violations:
        ctx.violation("proof", "a proof obligation of props/C07.v no longer checks:\n" + common.coq_error_excerpt(log), found_input=False)
    ctx.write_evidence()


def replay(ctx, path):
    print(open(path).read())
