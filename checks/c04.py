"""C04: byte determinism of diagnostics and facts."""
import os
import random

from . import common
from . import det_suite as ds
from . import enginegen as eg
from . import engine_suite as es

CONFIGS = [dict(gomaxprocs=16, seq=False), dict(gomaxprocs=1, seq=False), dict(gomaxprocs=2, seq=True), dict(gomaxprocs=16, seq=True), dict(gomaxprocs=2, seq=False)]


def run(ctx):
    ok, msg = ctx.build_tools()
    if not ok:
        ctx.obligation("tools build against /repo (hooks enabled)", False)
        ctx.violation("build", msg, found_input=False)
        ctx.write_evidence()
        return
    okg, outg = ctx.regen("all")
    ctx.obligation("translator ran (go/types inventory of every range over a map)", okg)
    okp, log = ctx.prove("props/C04.v", "C04")
    rng = random.Random(ctx.seed * 71 + 9)
    mods = ds.modules(ctx, rng, 1 if ctx.tier == "quick" else 6)
    runs = 14 if ctx.tier == "quick" else 80
    bad, total, errs = [], 0, []
    try:
        for d, _ in mods:
            res, e = ds.repeat_runs(d, runs, CONFIGS)
            errs += e
            total += len(res)
            keys = {}
            for cfg, k, r in res:
                keys.setdefault(k, cfg)
            if len(keys) > 1:
                ks = list(keys.items())
                bad.append("module %s: %d different outputs in %d runs; e.g. run with %r vs run with %r: %s" % (
                    d, len(keys), len(res), ks[0][1], ks[1][1], ds.diff_keys(ks[0][0], ks[1][0])))
    finally:
        ds.cleanup(mods)
    # the order in which the files of a package are registered in the token.FileSet (go/packages parses concurrently)
    # is forced both ways: raw token.Pos values of different files must not leak into anything observable
    import os
    from . import wholetool as wt
    fo_bad, fo_n = [], 0
    for m in [os.path.join(common.VERIF, "corpus", "det", x) for x in ("m13", "m9", "m3")] + [os.path.join(common.VERIF, "corpus", "c10"), os.path.join(common.VERIF, "corpus", "c15"), os.path.join(common.VERIF, "corpus", "c20")]:
        ks = {}
        for order in ("asc", "desc"):
            r, e = wt.analyze(m, fileorder=order)
            fo_n += 1
            if r is None:
                fo_bad.append("%s with file order %s: run failed: %s" % (m, order, e))
            else:
                ks[order] = ds.key_of(r)
        if len(ks) == 2 and ks["asc"] != ks["desc"]:
            fo_bad.append("module %s: the output depends on the order in which the files are registered in the file set: %s" % (m, ds.diff_keys(ks["asc"], ks["desc"])))
    ctx.obligation("forced file-set registration order (ascending / descending by name, %d runs): byte-identical diagnostics and facts" % fo_n, fo_n > 0 and not fo_bad)
    for b in fo_bad[:2]:
        ctx.violation("fileorder", "C04 fails on the real tool: %s\nreplay: bin/harness analyze -dir <module> -fileorder asc|desc\n" % b)
    ctx.obligation("repeated analysis (%d fresh processes over %d modules; GOMAXPROCS 1/2/16, sequential and parallel driver): byte-identical diagnostics and byte-identical facts of every kind" % (total, len(mods)), total > 0 and not bad and not errs)
    # engine level: the order in which the driver hands over the dependency facts (shuffled per run), with packages
    # that share one package NAME and differ only in their import path
    scs = [s for s in es.scenarios_for(ctx, 3000 if ctx.tier == "quick" else 60000) if any(len(p["imports"]) >= 2 for p in s.pkgs)]
    variants = []
    for sc in scs:
        v = sc.copy()
        for p in v.pkgs:
            p["imports"] = list(reversed(p["imports"]))
        variants.append(v)
    rc1, out1, _ = eg.run_impl([s.line() for s in scs], gob=True)
    rc2, out2, _ = eg.run_impl([s.line() for s in variants], gob=True)
    hbad = [i for i in range(len(scs)) if rc1 == 0 and rc2 == 0 and out1[i] != out2[i]]
    ctx.obligation("real engine on %d scenarios, facts handed over in one order and in the reverse order (same-named packages): identical conflicts, inferred maps and exported facts" % len(scs), rc1 == 0 and rc2 == 0 and not hbad)
    for i in hbad[:2]:
        ctx.violation("handover", "C04 fails on the real engine: the result depends on the order in which the driver hands over the dependency facts\n%s\nfacts in listed order:   %s\nfacts in reverse order:  %s\n" % (scs[i].pretty(), out1[i], out2[i]))
    total += 2 * len(scs)
    ctx.coverage.update({"evaluations": total, "distinct_nontrivial": len(mods),
                         "rule": "modules with >= 2 annotated sites, >= 2 nolint comments, callers of >= 2 contracted functions, interfaces with 2 implementations, many functions over 3 files; each analysed repeatedly in fresh processes; a module is one distinct non-trivial case",
                         "note": "repetition is the search for a failing schedule / hash order; the claim is the theorems plus the classified inventory"})
    ctx.sample("corpus/det/m9: a caller of two contracted functions; corpus/c10: 2 files with 30 annotated functions")
    for b in bad[:3]:
        ctx.violation("nondeterminism", "C04 fails on the real tool: %s\nreplay: run `bin/harness analyze -dir <module>` repeatedly and compare the facts' sha and the diagnostics\n" % b)
    for e in errs[:2]:
        ctx.violation("run", "a run failed: %s" % e, found_input=False)
    if (not okp and not ctx.violations) or ctx.tier == "thorough":
        # search for a concrete input on which the result depends on the machine: twelve functions of about two seconds of
        # backpropagation each (the K=4 member of the family of corpus/c07/treesize), analysed with all CPUs and with one
        w = cpu_starved(ctx)
        if w:
            ctx.violation("cpu", "C04 fails on the real tool: the output depends on the number of CPUs available to the analysis\n%s\nreplay: generate the package with checks/c04.py slow_package(dir), run bin/nilaway -pretty-print=false ./... with GOMAXPROCS=1 and unset\n" % w)
    if not okp and not ctx.violations:
        ctx.violation("proof", "a proof obligation of props/C04.v no longer checks (e.g. an unclassified map range in the regenerated inventory):\n" + common.coq_error_excerpt(log), found_input=False)
    ctx.write_evidence()


def slow_package(d):
    """a package whose analysis takes a few seconds per function (bounded: the trees stay below config.MaxAssertionTreeSize)"""
    K = 4
    out = ["package slow", "", "func pick() int { return 0 }", "", "type N struct {"]
    out += ["\tf%d *N" % i for i in range(K)]
    out += ["}", ""]
    for f in range(12):
        out += ["func walk%d(n *N) *N {" % f, "\tfor pick() > %d {" % f, "\t\tswitch pick() {"]
        for i in range(K):
            out += ["\t\tcase %d:" % i, "\t\t\tn = n.f%d" % i]
        out += ["\t\t}", "\t}", "\treturn n", "}", "", "func use%d() int { return walk%d(nil).f0.f1 != nil }" % (f, f) if False else "func use%d() *N { return walk%d(nil).f0 }" % (f, f), ""]
    os.makedirs(d, exist_ok=True)
    open(os.path.join(d, "go.mod"), "w").write("module ex.com/slow\n\ngo 1.23\n")
    open(os.path.join(d, "a.go"), "w").write("\n".join(out) + "\n")


def cpu_starved(ctx):
    """-> description of a difference between the run with all CPUs and the run with one, or None"""
    import shutil
    d = ctx.scratch()
    try:
        slow_package(d)
        outs = []
        for procs in (None, "1"):
            env = dict(common.GOENV)
            env["NO_COLOR"] = "1"
            if procs:
                env["GOMAXPROCS"] = procs
            cmd = "ulimit -v 12000000; exec timeout 600 %s -pretty-print=false ./..." % os.path.join(common.BIN, "nilaway")
            rc, out, err = common.sh2(["bash", "-c", cmd], cwd=d, env=env, timeout=700)
            outs.append((rc, "\n".join(sorted((err + "\n" + out).replace(d, "<D>").split("\n")))))
        if outs[0] != outs[1]:
            return "all CPUs (exit %s):\n%s\n\nGOMAXPROCS=1 (exit %s):\n%s" % (outs[0][0], outs[0][1][:1500], outs[1][0], outs[1][1][:1500])
        return None
    finally:
        shutil.rmtree(d, ignore_errors=True)


def replay(ctx, path):
    print(open(path).read())
