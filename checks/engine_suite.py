"""Correspondence suite shared by the engine-level properties (C05, C06, C03, C10): the extracted model M1
and the real inference.Engine (through the //go:build verif hook) are run on the same scenarios."""
import os
import random

from . import common
from . import enginegen as eg

CORPUS = os.path.join(common.VERIF, "corpus", "engine.txt")


def load_corpus():
    """corpus lines: `<name> | <scenario line>`"""
    out = []
    if os.path.exists(CORPUS):
        for l in open(CORPUS):
            l = l.strip()
            if l and not l.startswith("#"):
                name, line = l.split("|", 1)
                out.append((name.strip(), line.strip()))
    return out


def project(result_line, what):
    """keep only the observables a property is about"""
    r = eg.parse_result_line(result_line)
    if r is None:
        return result_line
    out = []
    for p in r:
        if what == "conflicts+map":
            out.append((tuple(p["conflicts"]), tuple(p["map"])))
        elif what == "export":
            out.append((tuple(p["chosen"]), "!" if p["fact"] == "!" else (None if p["fact"] is None else tuple(p["fact"]))))
        else:
            out.append((tuple(p["conflicts"]), tuple(p["map"]), tuple(p["chosen"]), repr(p["fact"])))
    return out


def scenarios_for(ctx, n_random, exhaustive=False):
    rng = random.Random(ctx.seed * 1000003 + 17)
    def one():
        r = rng.random()
        return eg.gen_random(rng) if r < 0.75 else eg.gen_chain(rng) if r < 0.88 else eg.gen_diamond(rng)
    scs = [one() for _ in range(n_random)]
    if exhaustive:
        scs += list(eg.gen_exhaustive_single(3, 2, True))
    return scs


def correspond(ctx, scs, what, extra_lines=()):
    """Run impl (in-memory facts), impl (gob facts) and model. Returns dict with mismatches (indices)."""
    lines = [l for _, l in extra_lines] + [s.line() for s in scs]
    rc1, impl, err1 = eg.run_impl(lines)
    rc2, implg, err2 = eg.run_impl(lines, gob=True)
    rc3, model, err3 = eg.run_model(lines)
    rc4, spec, err4 = eg.run_spec(lines)
    res = dict(lines=lines, impl=impl, implg=implg, model=model, spec=spec, errors=[], mism=[], gobdiff=[])
    for rc, err, name, out in ((rc1, err1, "harness engine", impl), (rc2, err2, "harness engine -gob", implg),
                               (rc3, err3, "modelrun engine", model), (rc4, err4, "modelrun enginespec", spec)):
        if rc != 0 or len(out) != len(lines):
            res["errors"].append("%s: rc=%s, %d/%d lines, stderr: %s" % (name, rc, len(out), len(lines), err[-2000:]))
    if res["errors"]:
        return res
    for i in range(len(lines)):
        if project(impl[i], what) != project(model[i], what):
            res["mism"].append(i)
        if project(implg[i], what) != project(impl[i], what):
            res["gobdiff"].append(i)
    return res


def describe(i, res, scs, n_extra, extra_lines):
    if i < n_extra:
        head = "corpus scenario %s\nscenario-line: %s\n" % (extra_lines[i][0], extra_lines[i][1])
    else:
        head = scs[i - n_extra].pretty()
    return "%s\nimplementation (in-memory facts): %s\nimplementation (gob facts):       %s\nmodel (extracted from coq/model/Engine.v): %s\nspec (flow / nil set / nonnil set): %s\n" % (
        head, res["impl"][i], res["implg"][i], res["model"][i], res["spec"][i])
