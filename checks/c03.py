"""C03: modular analysis == whole-program analysis, under every driver."""
import os
import random
import re
import shutil

from . import common
from . import enginegen as eg
from . import engine_suite as es
from . import c06
from . import wholetool as wt
from . import nolint_suite
from .c12 import MOD_FILES
from .c18 import EXTRA


def govet(moddir):
    env = dict(common.GOENV)
    env.pop("GOFLAGS", None)
    env["NO_COLOR"] = "1"
    rc, out, err = common.sh2(["go", "vet", "-vettool=" + os.path.join(common.BIN, "nilaway"), "-pretty-print=false", "./..."], cwd=moddir, env=env, timeout=900)
    text = err + "\n" + out
    diags = set()
    cur_pkg = None
    for m in re.finditer(r"^(?:# (\S+)\n)|^([^\s:#][^\s:]*\.go):(\d+):(\d+): (.*?)(?=^[^\s:#][^\s:]*\.go:\d+:\d+: |^# |\Z)", text, flags=re.M | re.S):
        if m.group(1):
            continue
        f = os.path.normpath(m.group(2))
        diags.add((f.lstrip("./"), int(m.group(3)), m.group(5).strip().split("\n")[0]))
    return diags, text


def inproc(moddir, sanity):
    r, err = wt.analyze(moddir, sanity=sanity)
    if r is None:
        return None, err
    return {(d["file"], d["line"], d["message"].strip().split("\n")[0]) for d in r["diags"] or []}, r


def file_pkg(moddir, relfile):
    return os.path.dirname(relfile)


def run(ctx):
    ok, msg = ctx.build_tools()
    if not ok:
        ctx.obligation("tools build against /repo (hooks enabled)", False)
        ctx.violation("build", msg, found_input=False)
        ctx.write_evidence()
        return
    ctx.regen("all")
    okp, log = ctx.prove("props/C03.v", "C03")

    # ---- engine level: modular (facts through real gob) vs whole graph, any package DAG
    n = 3000 if ctx.tier == "quick" else 80000
    scs = [s for s in es.scenarios_for(ctx, n) if len(s.pkgs) >= 2]
    lines = [s.line() for s in scs]
    rc1, mem, e1 = eg.run_impl(lines)
    rc2, gob, e2 = eg.run_impl(lines, gob=True)
    rc3, mono, e3 = eg.run_impl([c06.mono(s).line() for s in scs])
    ran = rc1 == 0 and rc2 == 0 and rc3 == 0 and len(mem) == len(gob) == len(mono) == len(scs)
    ctx.obligation("engine suite ran (in-memory facts, gob facts, whole graph)", ran)
    bad, gobdiff, outside = [], [], 0
    if ran:
        for i, sc in enumerate(scs):
            if mem[i] != gob[i]:
                gobdiff.append(i)
            ra, rb = eg.parse_result_line(gob[i]), eg.parse_result_line(mono[i])
            if ra is None or rb is None:
                bad.append((i, "unparsable"))
                continue
            o = c06.downstream_oracle(sc, ra, rb[0])
            if o:
                if c06.pending_controlled(sc, ra):
                    outside += 1
                else:
                    bad.append((i, o))
    ctx.obligation("oracle on the real engine: analysis through facts == whole-graph analysis on %d multi-package scenarios with arbitrary import DAGs (%d failures outside the claimed domain: pending controlled trigger, F15)" % (len(scs), outside), ran and not bad)
    ctx.obligation("in-memory facts and gob round-tripped facts give identical engine results", ran and not gobdiff)
    # the model's facts against the real ones (what an importer receives), and a directed search when they differ
    if ran:
        rcm, model, _ = eg.run_model(lines)
        mism = [i for i in range(len(scs)) if rcm == 0 and es.project(gob[i], "export") != es.project(model[i], "export")]
        ctx.obligation("correspondence: the facts published by the real engine == the model's on %d multi-package scenarios" % len(scs), rcm == 0 and not mism)
        found = False
        for i in mism[:40]:
            r = eg.parse_result_line(gob[i])
            if r is None or any(p["conflicts"] for p in r):
                continue
            f = c06.probe_pairs(scs[i])
            if f:
                sc2, o = f
                small = eg.shrink(sc2, lambda c: len(c.pkgs) >= 2 and (lambda rr: rr[0] is not None and not rr[1])(c06.eval_downstream(c)))
                ctx.violation("facts", "C03 fails on the real engine: %s\nminimised:\n%s\nwhole-graph scenario: %s\n" % (c06.eval_downstream(small)[0], small.pretty(), c06.mono(small).line()))
                found = True
                break
        if mism and not found:
            ctx.violation("correspondence", "the facts published by the real engine differ from the model's (theorems C03_* no longer speak about the code); no scenario was found on which analysis through facts differs from whole-graph analysis\n%s\nreal:  %s\nmodel: %s\n" % (
                scs[mism[0]].pretty(), gob[mism[0]], model[mism[0]]), found_input=False)

    # ---- whole tool: three drivers on real multi-package modules
    rng = random.Random(ctx.seed + 12)
    tmp = []
    mods = [os.path.join(common.VERIF, "corpus", "c15"), os.path.join(common.VERIF, "corpus", "c03", "m4"), os.path.join(common.VERIF, "corpus", "c03", "m11"),
            os.path.join(common.VERIF, "corpus", "c03", "m12")]
    d = ctx.scratch()
    for rel, txt in list(MOD_FILES.items()) + list(EXTRA.items()):
        os.makedirs(os.path.dirname(os.path.join(d, rel)), exist_ok=True)
        open(os.path.join(d, rel), "w").write(txt)
    tmp.append(d)
    mods.append(d)
    for _ in range(1 if ctx.tier == "quick" else 6):
        d = ctx.scratch()
        nolint_suite.gen_module(rng, d)
        tmp.append(d)
        mods.append(d)
    dbad, f12_like, nd = [], 0, 0
    try:
        for m in mods:
            a, ra = inproc(m, False)
            b, rb = inproc(m, True)
            if a is None or b is None:
                dbad.append("%s: in-process run failed: %s %s" % (m, ra, rb))
                continue
            nd += len(a)
            if a != b:
                dbad.append("module %s: the checker with gob round trip of every fact differs from the in-memory checker: only in-memory %r, only gob %r" % (m, sorted(a - b)[:2], sorted(b - a)[:2]))
            v, vtext = govet(m)
            if not v and a:
                dbad.append("module %s: go vet -vettool printed no diagnostics: %s" % (m, vtext[-300:]))
                continue
            extra = v - a
            if extra:
                dbad.append("module %s: go vet -vettool reports flows the in-process driver does not: %r" % (m, sorted(extra)[:2]))
            for x in sorted(a - v):
                # which package reported it in-process?
                rep = [dg["pkg"] for dg in ra["diags"] if (dg["file"], dg["line"]) == (x[0], x[1])]
                in_dep_file = all(not rp.endswith(os.path.dirname(x[0])) for rp in rep) if rep else False
                if in_dep_file:
                    f12_like += 1      # finding located in a dependency's file: dropped by go vet (F12)
                else:
                    dbad.append("module %s: %s:%d is reported by the in-process driver (package %s) but not under go vet -vettool" % (m, x[0], x[1], rep))
    finally:
        for t in tmp:
            shutil.rmtree(t, ignore_errors=True)
    ctx.obligation("drivers on %d real multi-package modules: in-memory checker == checker with gob round trip == go vet -vettool (one process per package), except findings located in a dependency's file under go vet (%d, finding F12)" % (len(mods), f12_like), nd > 0 and not dbad)

    # known findings: replay the listed inputs
    for kf in ctx.known_for():
        if kf["id"] == "F12":
            m = os.path.join(common.VERIF, "corpus", "c03", "m8")
            a, _ = inproc(m, False)
            v, _ = govet(m)
            if a and not (a <= v):
                ctx.known_finding("F12", "under go vet -vettool a finding located in a dependency's file is dropped: %r reported in-process only (corpus/c03/m8)" % sorted(a - v)[:1])
        if kf["id"] == "F4":
            m = os.path.join(common.VERIF, "corpus", "c03", "m4")
            r, _ = wt.analyze(m)
            hit = [dg for dg in (r or {}).get("diags") or [] if dg["file"] == "b/b.go" and dg["line"] == 8]
            local = [dg for dg in (r or {}).get("diags") or [] if dg["file"] == "a/a.go" and dg["line"] == 23]
            if local and not hit:
                ctx.known_finding("F4", "a nil argument passed to a contracted callee of ANOTHER package is not connected to the result at the call site: b.cross is silent while the same code inside package a is reported (corpus/c03/m4)")
    ctx.coverage.update({"evaluations": len(scs) * 3 + nd, "distinct_nontrivial": len(set(lines)),
                         "rule": "multi-package constraint scenarios with arbitrary import DAGs (distinct by scenario line; non-trivial = at least two packages), each run with in-memory facts, gob facts and as one whole graph; plus real multi-package modules under three drivers",
                         "outside_claimed_domain": outside, "f12_like": f12_like})
    for s in scs[:1]:
        ctx.sample(s.pretty())
    for (i, o) in bad[:3]:
        small = eg.shrink(scs[i], lambda c: len(c.pkgs) >= 2 and (lambda r: r[0] is not None and not r[1])(c06.eval_downstream(c)))
        ctx.violation("modular", "C03 fails on the real engine: %s\nminimised:\n%s\nwhole-graph scenario: %s\n" % (o, small.pretty(), c06.mono(small).line()))
    for i in gobdiff[:2]:
        ctx.violation("gob", "C03 fails on the real engine: results differ between in-memory facts and gob round-tripped facts\n%s\nin-memory: %s\ngob:       %s\n" % (scs[i].pretty(), mem[i], gob[i]))
    for b in dbad[:3]:
        ctx.violation("drivers", "C03 fails on the real tool: %s\n" % b)
    if not okp and not ctx.violations:
        ctx.violation("proof", "a proof obligation of props/C03.v no longer checks:\n" + common.coq_error_excerpt(log), found_input=False)
    # regression layouts: a contracted method whose declaring package the caller reaches only transitively
    from . import markers
    markers.corpus_modules(ctx, "c03r", "package layouts of contracted callees")
    # known finding F81: the "always safe" pre-analysis only sees return statements of the package under analysis
    kf81 = []
    n81, b81 = markers.check_markers(os.path.join(common.VERIF, "corpus", "c03kf", "alwayssafe"), known=kf81)
    ctx.obligation("corpus/c03kf/alwayssafe: the other %d marked uses behave as marked" % n81, n81 > 0 and not b81)
    for b in b81[:2]:
        ctx.violation("corpus-c03kf", "C03 fails on the real tool: %s\nreplay: bin/harness analyze -dir corpus/c03kf/alwayssafe\n" % b)
    if kf81:
        if any(k["id"] == "F81" for k in ctx.known_for()):
            ctx.known_finding("F81", "moving an always-safe ok-/error-returning function into a dependency invents `lacking guarding` findings in the importer: %s (corpus/c03kf/alwayssafe)" % ", ".join(x[1] for x in kf81))
        else:
            ctx.violation("alwayssafe", "C03 fails on the real tool: the importer reports %s although the same functions in one package are clean\n" % ", ".join(x[1] for x in kf81))
    ctx.write_evidence()


def replay(ctx, path):
    print(open(path).read())
