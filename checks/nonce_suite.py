"""M11 correspondence: the guard-nonce set operations of package guard vs coq/model/Nonce.v (extracted)."""
import os
import random

from . import common


def gen_case(rng, nregs=4, maxops=14, universe=7):
    ops = []
    for _ in range(rng.randint(3, maxops)):
        op = rng.choices(range(9), [22, 12, 10, 12, 6, 8, 10, 14, 6])[0]
        x, y = rng.randrange(nregs), rng.randrange(nregs)
        if op in (0, 1):
            xs = [rng.randrange(universe) for _ in range(rng.randint(0, 4))]
        elif op in (2, 3):
            xs = [rng.randrange(nregs) for _ in range(rng.choice([0, 1, 1, 1, 2, 3]))]
        else:
            xs = []
        if op == 5:
            y = rng.randrange(universe)
        ops.append((op, x, y, xs))
    return nregs, ops


def line(case):
    nregs, ops = case
    out = [nregs, len(ops)]
    for (op, x, y, xs) in ops:
        out += [op, x, y, len(xs)] + xs
    return " ".join(map(str, out))


NAMES = ["Add", "Remove", "Union", "Intersection", "Copy", "Contains", "SubsetOf", "Eq", "IsEmpty"]


def describe(case):
    nregs, ops = case
    ls = ["%d registers, all empty at first" % nregs]
    for (op, x, y, xs) in ops:
        if op in (0, 1):
            ls.append("  r%d.%s(%s)" % (x, NAMES[op], ", ".join(map(str, xs))))
        elif op in (2, 3):
            ls.append("  r%d = r%d.%s(%s)" % (x, y, NAMES[op], ", ".join("r%d" % v for v in xs)))
        elif op == 4:
            ls.append("  r%d = r%d.Copy()" % (x, y))
        elif op == 5:
            ls.append("  ? r%d.Contains(%d)" % (x, y))
        elif op in (6, 7):
            ls.append("  ? r%d.%s(r%d)" % (x, NAMES[op], y))
        else:
            ls.append("  ? r%d.IsEmpty()" % x)
    return "\n".join(ls)


def correspond(seed, n):
    rng = random.Random(seed)
    cases = [gen_case(rng) for _ in range(n)]
    # directed: a set compared with itself minus / plus one element, in both orders
    for k in range(1, 5):
        base = list(range(k))
        cases.append((3, [(0, 0, 0, base), (4, 1, 0, []), (1, 1, 0, [0]), (7, 0, 1, []), (7, 1, 0, []), (6, 0, 1, []), (6, 1, 0, []),
                          (0, 2, 0, base + [k]), (7, 0, 2, []), (7, 2, 0, []), (3, 1, 0, [2]), (7, 1, 0, [])]))
    lines = "\n".join(line(c) for c in cases) + "\n"
    rc1, impl, e1 = common.sh2([os.path.join(common.BIN, "harness"), "nonce"], inp=lines, timeout=600)
    rc2, model, e2 = common.sh2([os.path.join(common.BIN, "modelrun"), "nonce"], inp=lines, timeout=600)
    impl, model = impl.splitlines(), model.splitlines()
    res = dict(n=len(cases), errors=[], mism=[], queries=0, eq_true=0, eq_false=0)
    if rc1 != 0 or rc2 != 0 or len(impl) != len(cases) or len(model) != len(cases):
        res["errors"].append("harness nonce rc=%s (%d lines) %s / modelrun nonce rc=%s (%d lines) %s" % (rc1, len(impl), e1[-300:], rc2, len(model), e2[-300:]))
        return res
    for c, a, b in zip(cases, impl, model):
        res["queries"] += len(a.split("|")[0].strip())
        qs = [o for o in c[1] if o[0] >= 5]
        for o, ans in zip(qs, a.split("|")[0].strip()):
            if o[0] == 7:
                res["eq_true" if ans == "1" else "eq_false"] += 1
        if a.strip() != b.strip():
            res["mism"].append((c, a, b))
    return res
