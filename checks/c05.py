"""C05: conflict iff a source reaches a sink, in any order.
Theorems in coq/props/C05.v over model M1; tie = correspondence of the extracted model with the real engine;
search = the C05 statement evaluated directly on the implementation's output (spec computed independently)."""
import random

from . import common
from . import enginegen as eg
from . import engine_suite as es


def failing_c05(line):
    """does the REAL engine violate the C05 statement on this scenario? returns a description or None"""
    rc, impl, _ = eg.run_impl([line])
    rc2, spec, _ = eg.run_spec([line])
    if rc != 0 or rc2 != 0 or not impl or not spec:
        return None
    r = eg.parse_result_line(impl[0])
    sp = eg.parse_spec_line(spec[0])
    if r is None:
        return "implementation output unparsable: " + impl[0][:300]
    # package 0 only needs no facts; later packages are judged against the facts the model derives, which is
    # only meaningful when the earlier packages agree -- so judge the first disagreeing package
    for k, (pr, s) in enumerate(zip(r, sp)):
        o = eg.oracle_c05(pr, s)
        if o:
            return "package p%d: %s" % (k, o)
    return None


def order_check(ctx, scs, budget):
    """C05 'in any order': permute the observation order (own triggers, annotations, order in which the driver
    hands over the facts) of the LAST package of a scenario on the REAL engine -- the facts it imports stay the
    same -- and compare conflict existence and, when conflict-free, all verdicts of that package."""
    rng = random.Random(ctx.seed + 99)
    lines, groups = [], []
    for sc in scs[:budget]:
        variants = [sc]
        for _ in range(2):
            v = sc.copy()
            p = v.pkgs[-1]
            rng.shuffle(p["trigs"])
            rng.shuffle(p["imports"])
            rng.shuffle(p["annots"])
            variants.append(v)
        groups.append((len(lines), len(variants)))
        lines += [v.line() for v in variants]
    rc, impl, err = eg.run_impl(lines)
    bad = []
    if rc != 0:
        return [("runner", err[-500:])], 0
    for (start, n) in groups:
        base = eg.parse_result_line(impl[start])
        for j in range(1, n):
            other = eg.parse_result_line(impl[start + j])
            if base is None or other is None:
                bad.append((lines[start], "unparsable"))
                break
            a, b = base[-1], other[-1]
            k = len(base) - 1
            if (len(a["conflicts"]) > 0) != (len(b["conflicts"]) > 0):
                bad.append((lines[start] + "\nvs\n" + lines[start + j], "package p%d: conflict existence differs between two observation orders" % k))
                break
            if not a["conflicts"]:
                va = sorted((e[0], e[2]) for e in a["map"] if e[1] == "D")
                vb = sorted((e[0], e[2]) for e in b["map"] if e[1] == "D")
                if va != vb:
                    bad.append((lines[start] + "\nvs\n" + lines[start + j], "package p%d: verdicts differ between two observation orders" % k))
                    break
    return bad, len(lines)


def run(ctx):
    ok, msg = ctx.build_tools()
    if not ok:
        ctx.obligation("tools build against /repo (hooks enabled)", False)
        ctx.violation("build", msg, found_input=False)
        ctx.write_evidence()
        return
    ctx.regen("all")
    okp, log = ctx.prove("props/C05.v", "C05")

    n = 4000 if ctx.tier == "quick" else 150000
    scs = es.scenarios_for(ctx, n, exhaustive=(ctx.tier == "thorough"))
    corpus = es.load_corpus()
    res = es.correspond(ctx, scs, "conflicts+map", corpus)
    ne = len(corpus)
    ctx.obligation("correspondence suite ran (real engine via verif hook, extracted model, spec oracle)", not res["errors"])
    if res["errors"]:
        ctx.violation("suite", "the correspondence suite could not run:\n" + "\n".join(res["errors"]), found_input=False)
        ctx.write_evidence()
        return
    ctx.obligation("correspondence: real engine == model on conflicts (with explanation chains) and the inferred map (order, verdicts, edges): %d scenarios" % len(res["lines"]), not res["mism"])
    ctx.obligation("correspondence: facts through real gob encode/decode give the same results", not res["gobdiff"])

    # property oracle on the implementation's output of every scenario
    oracle_bad = []
    flows = pkgs = 0
    distinct = set()
    for i, l in enumerate(res["lines"]):
        r = eg.parse_result_line(res["impl"][i])
        sp = eg.parse_spec_line(res["spec"][i])
        if r is None:
            oracle_bad.append((i, "unparsable implementation output"))
            continue
        for k, (pr, s) in enumerate(zip(r, sp)):
            pkgs += 1
            flows += 1 if s[0] else 0
            if i in res["mism"] and k > 0:
                break
            o = eg.oracle_c05(pr, s)
            if o:
                oracle_bad.append((i, "package p%d: %s" % (k, o)))
                break
        if any(len(p["trigs"]) >= 2 for p in (scs[i - ne].pkgs if i >= ne else [])):
            distinct.add(l)
    ctx.obligation("property oracle (conflict <-> flow, verdicts = reachable sets) holds on the real engine's output of every scenario", not oracle_bad)
    obad, nord = order_check(ctx, scs, 300 if ctx.tier == "quick" else 5000)
    ctx.obligation("order independence on the real engine: %d permuted runs" % nord, not obad)

    st = eg.stats(scs)
    ctx.coverage.update({"evaluations": len(res["lines"]) * 3 + nord, "distinct_nontrivial": len(distinct),
                         "rule": "random constraint scenarios (1-3 packages, 2-8 sites, 0-9 triggers per package, 20% controlled, annotations, shuffled import order); "
                                 "non-trivial = at least one package with >= 2 triggers; distinct by scenario line. thorough adds all 2-trigger lists over 3 sites (exhaustive)",
                         "distribution": st, "packages_evaluated": pkgs, "packages_with_flow": flows,
                         "exhaustive": False})
    for s in scs[:2]:
        ctx.sample(s.pretty())

    # ---- decide
    for i in res["mism"][:3] + [i for i, _ in oracle_bad[:3]] + res["gobdiff"][:2]:
        line = res["lines"][i]
        why = failing_c05(line)
        if why and i >= ne:
            small = eg.shrink(scs[i - ne], lambda c: failing_c05(c.line()) is not None)
            ctx.violation("engine", "C05 fails on the real inference engine: %s\n\nminimised scenario:\n%s\noriginal:\n%s" % (
                failing_c05(small.line()), small.pretty(), es.describe(i, res, scs, ne, corpus)))
        elif why:
            ctx.violation("engine", "C05 fails on the real inference engine: %s\n%s" % (why, es.describe(i, res, scs, ne, corpus)))
        else:
            ctx.violation("correspondence", "model M1 (coq/model/Engine.v) and the real engine disagree, so theorems C05_* no longer speak about the code; "
                          "the C05 statement itself still holds on this scenario.\n" + es.describe(i, res, scs, ne, corpus), found_input=False)
    for (desc, why) in obad[:2]:
        ctx.violation("order", "C05 (order independence) fails on the real engine: %s\nscenario lines:\n%s\n" % (why, desc))
    if not okp and not ctx.violations:
        ctx.violation("proof", "a proof obligation of props/C05.v no longer checks:\n" + common.coq_error_excerpt(log), found_input=False)
    ctx.write_evidence()


def replay(ctx, path):
    txt = open(path).read()
    print(txt)
    for l in txt.splitlines():
        if l.startswith("scenario-line: "):
            line = l[len("scenario-line: "):]
            print("real engine:", eg.run_impl([line])[1])
            print("model      :", eg.run_model([line])[1])
            print("spec       :", eg.run_spec([line])[1])
            print("C05 oracle :", failing_c05(line))
