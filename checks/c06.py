"""C06: exported facts preserve every flow between externally visible sites.
Theorems props/C06.v (model M1, Section Export); tie: correspondence of chooseSitesToExport / Export /
gob round trip with the real engine; oracle: modular (facts) == monolithic (full graph) on the real engine."""
import os

from . import common
from . import enginegen as eg
from . import engine_suite as es
from . import markers
from . import wholetool as wt


def export_flag_oracle(r):
    """the engine model takes `exported` as given; this ties it to the code: for every site of every published fact, the
    Exported flag the site carries must be what go/types says about the object declared at the site's position
    (an exported symbol is externally visible whatever type declares it)"""
    n, bad = 0, []
    for f in r["facts"] or []:
        for s, o in zip(f.get("sites") or [], f.get("siteobjs") or []):
            if not o["found"]:
                continue
            n += 1
            if o["exported"] != s["Exported"]:
                bad.append("fact of %s: site `%s` (%s:%d:%d, object %s %s) carries Exported=%s, go/types says %s" % (
                    f["pkg"], s["Repr"], s["File"], s["Line"], s["Col"], o["kind"], o["name"], s["Exported"], o["exported"]))
    return n, bad


def scope(sc):
    """the packages the LAST package of the scenario can know about: itself and its (transitive) imports"""
    k = len(sc.pkgs) - 1
    return sorted(set(sc.pkgs[k]["imports"]) | {k})


def mono(sc):
    """whole-graph analysis of what the last package can know: one package holding every annotation and trigger
    of the last package and of the packages it (transitively) imports"""
    ks = scope(sc)
    sites = [(s[0], s[1], s[2], 0) for s in sc.sites]
    annots = [a for k in ks for a in sc.pkgs[k]["annots"]]
    trigs = [t for k in ks for t in sc.pkgs[k]["trigs"]]
    return eg.Scenario(sites, [dict(imports=[], annots=annots, trigs=trigs)])


def pending_controlled(sc, res):
    """hypothesis of the proved theorems (C06_importer_finds_every_flow, C03_modular_equals_whole): no package leaves a
    controlled trigger pending, i.e. every controlling site has a verdict (either one) at the end of its package's run"""
    for k in scope(sc):
        p, r = sc.pkgs[k], res[k]
        det = {e[0]: e[2] for e in r["map"] if e[1] == "D"}
        for t in p["trigs"]:
            if t[5] >= 0 and det.get(t[5]) is None:
                return True
    return False


def downstream_oracle(sc, ra, rb):
    """C06 statement on the real engine's outputs: importer with facts == importer with the full graph."""
    ks = scope(sc)
    ca = any(ra[k]["conflicts"] for k in ks)
    cb = bool(rb["conflicts"])
    if ca != cb:
        return "conflict reported by some package with facts=%s, by whole-graph analysis=%s" % (ca, cb)
    if ca:
        return None
    exp = {s[0] for s in sc.sites if s[1]}
    dm = {e[0]: e[2] for e in rb["map"] if e[1] == "D"}
    for k in ks:
        r = ra[k]
        for e in r["map"]:
            if e[1] == "D" and e[0] in exp and dm.get(e[0]) != e[2]:
                return "package p%d gives exported site %d verdict %d, whole-graph analysis gives %r" % (k, e[0], e[2], dm.get(e[0]))
    last = {e[0]: (e[2] if e[1] == "D" else None) for e in ra[-1]["map"]}
    for s in sorted(exp):
        if s in last and last[s] != dm.get(s):
            return "exported site %d: importer verdict %r, whole-graph verdict %r" % (s, last[s], dm.get(s))
    return None


def eval_downstream(line_sc):
    sc = line_sc
    rc, a, _ = eg.run_impl([sc.line()], gob=True)
    rc2, b, _ = eg.run_impl([mono(sc).line()])
    if rc != 0 or rc2 != 0 or not a or not b:
        return None, False
    ra, rb = eg.parse_result_line(a[0]), eg.parse_result_line(b[0])
    if ra is None or rb is None:
        return None, False
    return downstream_oracle(sc, ra, rb[0]), pending_controlled(sc, ra)


def probe_pairs(sc, limit=80):
    """directed search for a failing input: append an importer that plants a nil source at one exported site and a
    dereference at another, for every ordered pair, and compare analysis through facts with whole-graph analysis"""
    exp = [x[0] for x in sc.sites if x[1]]
    n = len(sc.pkgs)
    cands = []
    for a in exp:
        for b in exp:
            c = sc.copy()
            c.pkgs.append(dict(imports=list(range(n)), annots=[], trigs=[(9001, eg.A, eg.C, 0, a, -1), (9002, eg.C, eg.A, b, 0, -1)]))
            cands.append(c)
    cands = cands[:limit]
    if not cands:
        return None
    rc, a_out, _ = eg.run_impl([c.line() for c in cands], gob=True)
    rc2, b_out, _ = eg.run_impl([mono(c).line() for c in cands])
    if rc != 0 or rc2 != 0:
        return None
    for c, la, lb in zip(cands, a_out, b_out):
        ra, rb = eg.parse_result_line(la), eg.parse_result_line(lb)
        if ra is None or rb is None:
            continue
        o = downstream_oracle(c, ra, rb[0])
        if o and not pending_controlled(c, ra):
            return c, o
    return None


def parse_scenario_line(line):
    a = list(map(int, line.split()))
    pos = [0]

    def nx():
        v = a[pos[0]]
        pos[0] += 1
        return v
    sites = [(nx(), bool(nx()), bool(nx()), nx()) for _ in range(nx())]
    pkgs = []
    for _ in range(nx()):
        imports = [nx() for _ in range(nx())]
        annots = [(nx(), bool(nx())) for _ in range(nx())]
        trigs = [tuple(nx() for _ in range(6)) for _ in range(nx())]
        pkgs.append(dict(imports=imports, annots=annots, trigs=trigs))
    return eg.Scenario(sites, pkgs)


def run(ctx):
    ok, msg = ctx.build_tools()
    if not ok:
        ctx.obligation("tools build against /repo (hooks enabled)", False)
        ctx.violation("build", msg, found_input=False)
        ctx.write_evidence()
        return
    ctx.regen("all")
    okp, log = ctx.prove("props/C06.v", "C06")

    n = 4000 if ctx.tier == "quick" else 120000
    scs = es.scenarios_for(ctx, n)
    corpus = es.load_corpus()
    res = es.correspond(ctx, scs, "export", corpus)
    ne = len(corpus)
    ctx.obligation("correspondence suite ran", not res["errors"])
    if res["errors"]:
        ctx.violation("suite", "the correspondence suite could not run:\n" + "\n".join(res["errors"]), found_input=False)
        ctx.write_evidence()
        return
    ctx.obligation("correspondence: chooseSitesToExport set and exported fact (pairs, order, diff against upstream) of the real engine == model: %d scenarios" % len(res["lines"]), not res["mism"])
    ctx.obligation("correspondence: decode(encode(fact)) through real gob+s2 leaves every downstream result unchanged", not res["gobdiff"])

    # downstream equivalence on the real engine
    multi = [(i, sc) for i, sc in enumerate(scs) if len(sc.pkgs) >= 2]
    rc, impl_mono, err = eg.run_impl([mono(sc).line() for _, sc in multi])
    bad, outside, facts_n = [], 0, 0
    if rc == 0:
        for (i, sc), mline in zip(multi, impl_mono):
            ra = eg.parse_result_line(res["implg"][i + ne])
            rb = eg.parse_result_line(mline)
            if ra is None or rb is None:
                bad.append((i, "unparsable"))
                continue
            facts_n += sum(1 for r in ra if r["fact"] not in (None, "!"))
            o = downstream_oracle(sc, ra, rb[0])
            if o:
                if pending_controlled(sc, ra):
                    outside += 1
                else:
                    bad.append((i, o))
    ctx.obligation("oracle on the real engine: modular analysis through facts == whole-graph analysis (conflict existence, verdicts of exported sites) on %d multi-package scenarios; %d failures fall outside the claimed domain (a controlled trigger left pending: F15)" % (len(multi), outside),
                   rc == 0 and not bad)
    # whole tool: which sites are externally visible (corpus/c06: exported methods of unexported types reached through
    # constructors, embedding, variables and interfaces; paths through unexported helpers), and the Exported flag of
    # every site in every fact of the corpora against go/types
    vd = os.path.join(common.VERIF, "corpus", "c06")
    nm, mbad = markers.check_markers(vd)
    ctx.obligation("whole tool on corpus/c06: %d marked cross-package uses of externally visible sites: reported iff nil reaches them" % nm, nm > 0 and not mbad)
    nflag, fbad = 0, []
    for m in [vd, os.path.join(common.VERIF, "corpus", "c15"), os.path.join(common.VERIF, "corpus", "c10"), os.path.join(common.VERIF, "corpus", "c03", "m4"),
              os.path.join(common.VERIF, "corpus", "c03", "m12")]:
        r, err = wt.analyze(m, sites=True)
        if r is None:
            fbad.append("run failed on %s: %s" % (m, err))
            continue
        k, b = export_flag_oracle(r)
        nflag += k
        fbad += ["%s: %s" % (os.path.relpath(m, common.VERIF), x) for x in b]
    ctx.obligation("oracle on the real tool: the Exported flag of each of %d sites in published facts == external visibility by go/types (Exported(), or a package-level type name) of the object declared there" % nflag, nflag > 0 and not fbad)
    for b in mbad[:2]:
        ctx.violation("visible", "C06 fails on the real tool (a verdict or path on an externally visible site does not reach the importer): %s\nreplay: bin/harness analyze -dir corpus/c06\n" % b)
    if not mbad:
        for b in fbad[:2]:
            ctx.violation("exported-flag", "C06: a site of an exported symbol is not treated as externally visible: %s\n" % b, found_input=False)
    from . import markers as _mk
    _mk.corpus_modules(ctx, "c06r", "externally visible sites of repaired findings")
    panics = [i for i, l in enumerate(res["impl"]) if "F!" in l or "PANIC" in l]
    ctx.obligation("Export never panics on the real engine (theorem C06_export_total)", not panics)

    ctx.coverage.update({"evaluations": len(res["lines"]) * 3 + len(multi), "distinct_nontrivial": len(set(sc.line() for _, sc in multi)),
                         "rule": "random scenarios as for C05; non-trivial = at least two packages (facts actually cross a package boundary); distinct by scenario line",
                         "facts_exported": facts_n, "outside_claimed_domain_pending_controlled": outside,
                         "distribution": eg.stats(scs)})
    for _, sc in multi[:2]:
        ctx.sample(sc.pretty())

    # known finding F15: replay the listed input
    for kf in ctx.known_for():
        line = dict(corpus).get(kf.get("corpus_name"))
        if line:
            o, pend = eval_downstream(parse_scenario_line(line))
            if o:
                ctx.known_finding(kf["id"], "%s -- still fails: %s" % (kf["what"][:120], o))

    # when the correspondence broke, look for a concrete failing input among the mismatching scenarios first
    suspects = res["mism"][:40] + res["gobdiff"][:10]
    found_any = False
    for i in suspects:
        sc = scs[i - ne] if i >= ne else None
        if sc is None or any(eg.parse_result_line(res["impl"][i])[k]["conflicts"] for k in range(len(sc.pkgs))):
            continue
        f = probe_pairs(sc)
        if f:
            sc2, o = f
            small = eg.shrink(sc2, lambda c: len(c.pkgs) >= 2 and (lambda r: r[0] is not None and not r[1])(eval_downstream(c)))
            ctx.violation("export", "C06 fails on the real engine: %s\nminimised:\n%s\nwhole-graph scenario: %s\n" % (
                eval_downstream(small)[0], small.pretty(), mono(small).line()))
            found_any = True
            break
    for i in ([] if found_any else res["mism"][:3] + res["gobdiff"][:2]) + panics[:2]:
        sc = scs[i - ne] if i >= ne else None
        o = None
        if sc is not None and len(sc.pkgs) >= 2:
            o, pend = eval_downstream(sc)
            if pend:
                o = None
        found = None
        if not o and sc is not None:
            found = probe_pairs(sc)
            if found:
                sc, o = found
        if o:
            small = eg.shrink(sc, lambda c: len(c.pkgs) >= 2 and (lambda r: r[0] is not None and not r[1])(eval_downstream(c)))
            ctx.violation("export", "C06 fails on the real engine: %s\nminimised:\n%s\nwhole-graph scenario: %s\noriginal:\n%s" % (
                eval_downstream(small)[0], small.pretty(), mono(small).line(), es.describe(i, res, scs, ne, corpus)))
        else:
            ctx.violation("correspondence", "model M1 and the real engine disagree on the exported fact / chosen sites (or the gob round trip changes a result, or Export panicked), "
                          "so theorems C06_* no longer speak about the code; downstream equivalence still holds on this scenario.\n" + es.describe(i, res, scs, ne, corpus), found_input=False)
    for (i, o) in bad[:3]:
        sc = scs[i]
        small = eg.shrink(sc, lambda c: len(c.pkgs) >= 2 and (lambda r: r[0] is not None and not r[1])(eval_downstream(c)))
        ctx.violation("downstream", "C06 fails on the real engine: %s\nminimised:\n%s\nwhole-graph scenario: %s\noriginal:\n%s" % (o, small.pretty(), mono(small).line(), sc.pretty()))
    if not okp and not ctx.violations:
        ctx.violation("proof", "a proof obligation of props/C06.v no longer checks:\n" + common.coq_error_excerpt(log), found_input=False)
    ctx.write_evidence()


def replay(ctx, path):
    txt = open(path).read()
    print(txt)
    for l in txt.splitlines():
        if l.startswith("scenario-line: "):
            sc = parse_scenario_line(l[len("scenario-line: "):])
            print("real engine (gob facts):", eg.run_impl([sc.line()], gob=True)[1])
            print("whole graph            :", eg.run_impl([mono(sc).line()])[1])
            print("C06 oracle:", eval_downstream(sc))
