"""C10: annotations are binding. Engine-level theorems (props/C10.v) + correspondence on annotation-heavy
scenarios + the binding oracle on the real engine's output + hand-written annotated programs through the whole tool."""
import os
import random

from . import common
from . import enginegen as eg
from . import engine_suite as es
from . import wholetool as wt


def binding_oracle(sc, res):
    """on real-engine output: every annotated (own) site ends with the annotated verdict, explained by the annotation"""
    for k, (p, r) in enumerate(zip(sc.pkgs, res)):
        ent = {e[0]: e for e in r["map"]}
        for (s, b) in p["annots"]:
            e = ent.get(s)
            if e is None or e[1] != "D" or e[2] != int(b) or e[3] != "%d,-2" % s:
                return "package p%d: site %d annotated %s but map entry is %r" % (k, s, "nilable" if b else "nonnil", e)
    return None


def run(ctx):
    ok, msg = ctx.build_tools()
    if not ok:
        ctx.obligation("tools build against /repo (hooks enabled)", False)
        ctx.violation("build", msg, found_input=False)
        ctx.write_evidence()
        return
    ctx.regen("all")
    okp, log = ctx.prove("props/C10.v", "C10")

    rng = random.Random(ctx.seed * 7919 + 3)
    n = 3000 if ctx.tier == "quick" else 100000
    scs = []
    while len(scs) < n:
        sc = eg.gen_random(rng, p_annot=2.5)
        if any(p["annots"] for p in sc.pkgs):
            scs.append(sc)
    corpus = es.load_corpus()
    ne = len(corpus)
    res = es.correspond(ctx, scs, "conflicts+map", corpus)
    ctx.obligation("correspondence suite ran", not res["errors"])
    if res["errors"]:
        ctx.violation("suite", "\n".join(res["errors"]), found_input=False)
        ctx.write_evidence()
        return
    ctx.obligation("correspondence: real engine == model on %d annotation-heavy scenarios" % len(res["lines"]), not res["mism"])
    bad = []
    nann = 0
    for i, sc in enumerate(scs):
        r = eg.parse_result_line(res["impl"][i + ne])
        if r is None:
            bad.append((i, "unparsable"))
            continue
        nann += sum(len(p["annots"]) for p in sc.pkgs)
        o = binding_oracle(sc, r)
        if o:
            bad.append((i, o))
    ctx.obligation("oracle on the real engine: every annotated site keeps the annotated verdict with the annotation as explanation (%d annotations)" % nann, not bad)

    # whole tool, real comment parser: hand-written programs
    d = os.path.join(common.VERIF, "corpus", "c10")
    r, err = wt.analyze(d)
    wt_bad = []
    nfun = 0
    if r is None:
        wt_bad.append(err)
    else:
        allranges = []
        for fn in sorted(os.listdir(os.path.join(d, "a"))):
            if not fn.endswith(".go"):
                continue
            ranges = wt.func_ranges(os.path.join(d, "a", fn))
            touched = set()
            for dg in r["diags"]:
                touched |= wt.lines_mentioned(dg, "a/" + fn)
            allranges += [(name, lo, hi, "a/" + fn, any(lo <= x <= hi for x in touched)) for name, (lo, hi) in sorted(ranges.items())]
        for name, lo, hi, fn, hit in allranges:
            low = name.lower()
            if low.startswith("report"):
                nfun += 1
                if not hit:
                    wt_bad.append("%s (%s:%d-%d): annotated program expected a diagnostic, none touches it" % (name, fn, lo, hi))
            elif low.startswith("silent"):
                nfun += 1
                if hit:
                    wt_bad.append("%s (%s:%d-%d): guarded use of an annotated-nilable site, but a diagnostic touches it" % (name, fn, lo, hi))
        if r.get("errors"):
            wt_bad.append("driver errors: %r" % r["errors"])
    ctx.obligation("whole tool on corpus/c10 (%d annotated functions: nilable/nonnil on params, results, receivers, fields, globals; guarded and unguarded)" % nfun, not wt_bad)

    ctx.coverage.update({"evaluations": len(res["lines"]) * 3 + nfun, "distinct_nontrivial": len(set(s.line() for s in scs)),
                         "rule": "random scenarios with at least one explicit annotation (site, nilable/nonnil) per scenario; non-trivial = has an annotation; distinct by scenario line; plus hand-written annotated Go functions through the real comment parser",
                         "annotations": nann, "distribution": eg.stats(scs)})
    for sc in scs[:2]:
        ctx.sample(sc.pretty())

    for (i, o) in bad[:3]:
        small = eg.shrink(scs[i], lambda c: (lambda rr: rr is not None and binding_oracle(c, rr) is not None)(eg.parse_result_line((eg.run_impl([c.line()])[1] or [""])[0])))
        ctx.violation("binding", "C10 fails on the real engine: %s\nminimised:\n%s\noriginal:\n%s" % (o, small.pretty(), es.describe(i + ne, res, scs, ne, corpus)))
    for m in wt_bad[:3]:
        ctx.violation("wholetool", "C10 fails on the real tool: %s\nreplay: bin/harness analyze -dir corpus/c10\n" % m)
    if not ctx.violations:
        for i in res["mism"][:3]:
            ctx.violation("correspondence", "model M1 and the real engine disagree on an annotated scenario; theorems C10_* no longer speak about the code; the binding oracle still holds.\n" + es.describe(i, res, scs, ne, corpus), found_input=False)
    if not okp and not ctx.violations:
        ctx.violation("proof", "a proof obligation of props/C10.v no longer checks:\n" + common.coq_error_excerpt(log), found_input=False)
    # regression programs of repaired findings (annotations that were not binding)
    from . import markers
    markers.corpus_modules(ctx, "c10r", "annotations: repaired findings")
    ctx.write_evidence()


def replay(ctx, path):
    print(open(path).read())
