"""Determinism / scheduling suites (C04, C16): repeated runs of the real tool in fresh processes."""
import json
import os
import random
import shutil

from . import common
from . import nolint_suite
from . import wholetool as wt


def gen_busy_package(rng, d, nfun=40):
    """one package with many functions, several contracted callees per caller, annotations, nolint comments and an
    interface with two implementations"""
    os.makedirs(os.path.join(d, "busy"))
    open(os.path.join(d, "go.mod"), "w").write("module ex.com/busy\n\ngo 1.23\n")
    L = ["package busy", "", "type T struct{ V int }", "",
         "type I interface{ M() *T }", "type S1 struct{}", "type S2 struct{}",
         "func (S1) M() *T { return nil }", "func (S2) M() *T { return &T{} }",
         "func mk(c bool) I {", "\tif c {", "\t\treturn S1{}", "\t}", "\treturn S2{}", "}", ""]
    nctr = rng.randint(2, 4)
    for i in range(nctr):
        L += ["func id%d(x *T) *T {" % i, "\tif x == nil {", "\t\treturn nil", "\t}", "\treturn x", "}", ""]
    for i in range(rng.randint(2, 4)):
        L += ["// nilable(result 0)", "func ann%d() *T { return nil }" % i, ""]
    # several functions with one name (init may be declared repeatedly), each calling a contracted function
    for i in range(rng.randint(2, 3)):
        L += ["func init() {", "\tvar a *T", "\tp := id%d(a)" % rng.randrange(nctr), "\t_ = p.V", "}", ""]
    L += ["func _() {", "\tvar a *T", "\t_ = id0(a).V", "}", "", "func _() {", "\tvar a *T", "\t_ = id1(a).V", "}", ""]
    for i in range(nfun):
        k = rng.random()
        L.append("func F%d(p *T, c bool) int {" % i)
        if k < 0.3:
            a, b = rng.randrange(nctr), rng.randrange(nctr)
            L.append("\tx, y := id%d(p), id%d(nil)" % (a, b))
            L.append("\treturn x.V + y.V%s" % (" //nolint:nilaway" if rng.random() < 0.3 else ""))
        elif k < 0.5:
            L.append("\treturn ann%d().V%s" % (rng.randrange(2), " //nolint:nilaway" if rng.random() < 0.3 else ""))
        elif k < 0.7:
            L.append("\treturn mk(c).M().V")
        elif k < 0.85:
            L.append("\tvar q *T")
            L.append("\tif c {")
            L.append("\t\tq = p")
            L.append("\t}")
            L.append("\treturn q.V")
        else:
            L.append("\tif p != nil {")
            L.append("\t\treturn p.V")
            L.append("\t}")
            L.append("\treturn F%d(nil, c)" % rng.randrange(nfun))
        L.append("}")
        L.append("")
    # split over three files so that the order in which the driver registers files matters
    third = len(L) // 3
    cut1 = next(i for i in range(third, len(L)) if L[i] == "")
    cut2 = next(i for i in range(2 * third, len(L)) if L[i] == "")
    open(os.path.join(d, "busy", "a.go"), "w").write("\n".join(L[:cut1]) + "\n")
    open(os.path.join(d, "busy", "b.go"), "w").write("package busy\n\n" + "\n".join(L[cut1:cut2]) + "\n")
    open(os.path.join(d, "busy", "c.go"), "w").write("package busy\n\n" + "\n".join(L[cut2:]) + "\n")


def gen_heavy_contract_module(d, nfun=10, rounds=12):
    """one module: package `all` with nfun branch-heavy contract candidates (one parameter, one result, ~2^8 nilness
    tables per block over ~200 blocks each) and callers that are safe only thanks to the inferred contracts; packages
    `one<i>` hold heavy<i> and its caller alone -- the result of analysing that function 'one at a time'"""
    open(os.path.join(d, "go.mod"), "w").write("module ex.com/heavy\n\ngo 1.23\n")
    head = ["type T struct{ a, b, c, d, e, f, g, h *int }", "", "func sink() {}", ""]

    def fn(i):
        L = ["func heavy%d(x *T) *T {" % i, "\tif x == nil {", "\t\treturn nil", "\t}",
             "\ta, b, c, d, e, f, g, h := x.a, x.b, x.c, x.d, x.e, x.f, x.g, x.h"]
        for _ in range(rounds):
            for v in "abcdefgh":
                L += ["\tif %s == nil {" % v, "\t\tsink()", "\t}"]
        L += ["\treturn x", "}", "", "func use%d() *int {" % i, "\tr := heavy%d(&T{})" % i, "\treturn r.a", "}", ""]
        return L
    os.makedirs(os.path.join(d, "all"))
    open(os.path.join(d, "all", "all.go"), "w").write("\n".join(["package all", ""] + head + [l for i in range(nfun) for l in fn(i)]) + "\n")
    for i in range(nfun):
        os.makedirs(os.path.join(d, "one%d" % i))
        open(os.path.join(d, "one%d" % i, "one.go"), "w").write("\n".join(["package one%d" % i, ""] + head + fn(i)) + "\n")


def together_equals_alone(d, nfun, runs=2):
    """-> list of differences between the package that holds all functions and the packages that hold one each:
    inferred contracts per function, and whether its caller is reported"""
    bad = []
    for _ in range(runs):
        ctr = {}
        rc, out, e = common.harness(["analyze", "-dir", d, "-triggers"], timeout=1800)
        if rc != 0:
            return ["run failed: %s" % e[-300:]]
        rr = json.loads(out.strip().splitlines()[-1])
        for c in rr.get("contracts") or []:
            ctr[(c["pkg"].split("/")[-1], c["func"].split(".")[-1])] = c["text"]
        rep = {}
        for dg in rr.get("diags") or []:
            rep.setdefault(dg["pkg"].split("/")[-1], []).append(dg["line"])
        for i in range(nfun):
            a, b = ctr.get(("all", "heavy%d" % i)), ctr.get(("one%d" % i, "heavy%d" % i))
            if a != b:
                bad.append("heavy%d: contract inferred among its %d siblings %r, alone %r" % (i, nfun - 1, a, b))
        if bool(rep.get("all")) != any(rep.get("one%d" % i) for i in range(nfun)):
            bad.append("callers reported in package all: %r, in the single-function packages: %r" % (rep.get("all"), {k: v for k, v in rep.items() if k != "all"}))
        if bad:
            break
    return bad


def modules(ctx, rng, n_gen):
    mods = [(os.path.join(common.VERIF, "corpus", "c10"), False), (os.path.join(common.VERIF, "corpus", "c15"), False)]
    for m in ("m3", "m9", "m9b", "m5", "m10"):
        mods.append((os.path.join(common.VERIF, "corpus", "det", m), False))
    for _ in range(n_gen):
        d = ctx.scratch()
        gen_busy_package(rng, d)
        mods.append((d, True))
        d = ctx.scratch()
        nolint_suite.gen_module(rng, d)
        mods.append((d, True))
    return mods


def key_of(r):
    """everything observable: diagnostics (text, position, order per package) and the bytes of every fact"""
    diags = [(d["pkg"], d["file"], d["line"], d["col"], d["message"]) for d in r["diags"] or []]
    facts = [(f["pkg"], f["analyzer"], f["type"], f["sha"]) for f in r["facts"] or []]
    return json.dumps([diags, facts])


def repeat_runs(moddir, runs, configs):
    """fresh process per run; returns list of (config, key) and errors"""
    out, errs = [], []
    for i in range(runs):
        cfg = configs[i % len(configs)]
        env = dict(common.GOENV)
        env["GOMAXPROCS"] = str(cfg["gomaxprocs"])
        r, err = wt.analyze(moddir, seq=cfg["seq"], env=env)
        if r is None:
            errs.append(err)
            continue
        if r.get("errors"):
            errs.append(repr(r["errors"]))
        out.append((cfg, key_of(r), r))
    return out, errs


def diff_keys(a, b):
    da, fa = json.loads(a)
    db, fb = json.loads(b)
    if da != db:
        for x, y in zip(da, db):
            if x != y:
                return "diagnostics differ: %r  vs  %r" % (x[:4] + [x[4][:80]], y[:4] + [y[4][:80]])
        return "diagnostic lists differ in length: %d vs %d" % (len(da), len(db))
    for x, y in zip(fa, fb):
        if x != y:
            return "fact bytes differ: %r vs %r" % (x, y)
    return "fact lists differ"


def cleanup(mods):
    for d, tmp in mods:
        if tmp:
            shutil.rmtree(d, ignore_errors=True)
