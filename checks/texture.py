"""Meaning-preserving textures of a Go module: the same program as generated code tends to look.  Every texture keeps
each source line's content (so //REPORT, //SILENT, tag and name-based markers stay attached to their lines) and must
not change which lines are reported:
  blank    an empty first line in every file (gofmt strips it; template-generated code has it)
  percent  a `%` in every file name (legal in file names; a format verb if a path is ever used as a format string)
  linedir  a `//line <same file>:<next line>` directive after the package clause: positions keep file and line but
           lose the column wherever the //line-adjusted position is used
  crlf     CR LF line endings
  parens   redundant parentheses around case expressions, conditions, switch tags, returned values, right-hand sides,
           assignment targets, call arguments and the operands of comparisons, && || ! * <- (bin/harness parens: bytes are
           inserted on the lines the expressions are on, no line moves); skipped for a module that no longer compiles
"""
import os
import re
import shutil

TEXTURES = ("blank", "percent", "linedir", "crlf", "parens")


def _transform(path, kind):
    src = open(path, encoding="utf-8").read()
    if kind == "blank":
        # keep build constraints / package docs valid: an empty line first is always fine
        open(path, "w", encoding="utf-8").write("\n" + src)
    elif kind == "linedir":
        lines = src.split("\n")
        for i, l in enumerate(lines):
            if re.match(r"^package\s+\w+", l):
                # directive on line i+2 (1-based), the line after it is i+3
                lines.insert(i + 1, "//line %s:%d" % (os.path.basename(path), i + 3))
                break
        open(path, "w", encoding="utf-8").write("\n".join(lines))
    elif kind == "crlf":
        open(path, "w", encoding="utf-8", newline="").write(src.replace("\r\n", "\n").replace("\n", "\r\n"))
    elif kind == "percent":
        d, b = os.path.split(path)
        os.rename(path, os.path.join(d, "r%s_" + b if not b.endswith("_test.go") else "r%s_" + b))


def shifted(kind):
    """how many lines a marker moves down"""
    return 1 if kind in ("blank", "linedir") else 0


def make(moddir, kind, scratch):
    """copy of moddir with the texture applied to every non-test .go file; returns the new directory"""
    dst = os.path.join(scratch, "tx_" + kind)
    shutil.rmtree(dst, ignore_errors=True)
    shutil.copytree(moddir, dst)
    if kind == "parens":
        from . import common
        rc, out, err = common.harness(["parens", "-dir", dst])
        env = dict(common.GOENV)
        rc2, out2, err2 = common.sh2(["go", "build", "./..."], cwd=dst, env=env, timeout=300)
        if rc != 0 or rc2 != 0:
            # the rewriting is syntactic: where it produces something the compiler rejects the texture does not apply
            shutil.rmtree(dst, ignore_errors=True)
            shutil.copytree(moddir, dst)
        return dst
    for root, _, files in os.walk(dst):
        for f in sorted(files):
            if f.endswith(".go"):
                _transform(os.path.join(root, f), kind)
    return dst
