"""Site-identity correspondence (model M3, coq/model/Keys.v  <->  annotation/key.go String() + inference/primitive.go
primitivizer.site / objectPath / newPrimitivizer).

A case is a small universe of synthetic go/types objects (packages that share one name, named struct types, functions,
methods, fields, package-level and local variables; look-alike names across kinds, types and packages), annotation keys of
all twelve kinds over them (call-site locations that differ in one component only), and a script of steps:
  view  : package A analyses, with a belief about the source position of every foreign object (exact / column lost /
          line shifted -- what export data gives an importer) and a list of visible facts;
  fact  : a view publishes the sites of some keys as an InferredMap fact (optionally through gob);
  query : the sites of keys in a view.
The real side (bin/harness keys, hook inference/verif_keys_hook.go) builds real keys and calls the real String() and the
real primitivizer; the model side (bin/modelrun keys) runs the extracted key_repr / site_of.  Object paths given to the
model are the ones golang.org/x/tools' objectpath.For computes (ground truth, independent of NilAway's fast paths).
Compared per query: the equality pattern of the rendered keys, and the site field by field."""
import os
import random
import re

from . import common

FUNC, METHOD, FIELD, GVAR, LVAR, TYPENAME = range(6)
LW = 50


class KCase:
    def __init__(self, np, types, objs, keys, steps):
        self.np, self.types, self.objs, self.keys, self.steps = np, types, objs, keys, steps

    # ---- names as the harness spells them
    def oname(self, o):
        if o["kind"] == TYPENAME:
            t = self.types[o["owner"]]
            return ("T%d" if t[2] else "t%d") % t[1]
        if o["kind"] in (FUNC, METHOD):
            return ("F%d" if o["exp"] else "f%d") % o["name"]
        return ("V%d" if o["exp"] else "v%d") % o["name"]

    def opkg(self, o):
        return self.types[o["owner"]][0] if o["kind"] in (METHOD, FIELD, TYPENAME) else o["pkg"]

    def oexp(self, o):
        return bool(self.types[o["owner"]][2]) if o["kind"] == TYPENAME else bool(o["exp"])

    def odispatch(self, o):
        """an unexported method that takes part in dynamic dispatch (visible downstream although unexported): a method of
        an interface type, or one named like an unexported method of an interface type of its package"""
        if o["kind"] != METHOD or o["exp"]:
            return False
        if self.types[o["owner"]][3]:
            return True
        return any(x["kind"] == METHOD and not x["exp"] and x["name"] == o["name"] and self.types[x["owner"]][3]
                   and self.types[x["owner"]][0] == self.types[o["owner"]][0] for x in self.objs)

    def oline(self, i):
        o = self.objs[i]
        return 200 + o["owner"] if o["kind"] == TYPENAME else 2 + i

    def believed(self, i, a, pert):
        line, col = self.oline(i), 5
        if self.opkg(self.objs[i]) != a:
            if pert == 1:
                col = 1
            elif pert == 2:
                line += 300
        return (self.opkg(self.objs[i]), (line - 1) * LW + col - 1)

    def line(self):
        out = [self.np, len(self.types)]
        for t in self.types:
            out += list(t)
        out.append(len(self.objs))
        for o in self.objs:
            out += [o["kind"], self.opkg(o), o["name"], o["exp"], o["owner"], o["nparams"], o["named"], o["nresults"], o["recvnamed"], int(self.odispatch(o))]
        out.append(len(self.keys))
        for k in self.keys:
            out += [k["kind"], k["obj"], k["num"], k["fld"], k["lf"], k["ll"], k["lc"], k["track"]]
        out.append(len(self.steps))
        for s in self.steps:
            if s[0] == 0:
                out += [0, s[1], s[2], len(s[3])] + list(s[3])
            elif s[0] == 1:
                out += [1, s[1], s[2], len(s[3])] + [x for q in s[3] for x in q]
            else:
                out += [2, s[1], len(s[2])] + [x for q in s[2] for x in q]
        return " ".join(map(str, out))

    def model_line(self, paths):
        names = {"": 0}
        nid = lambda s: names.setdefault(s, len(names))
        pids = {}
        out = [len(self.objs)]
        for i, o in enumerate(self.objs):
            pa = paths[i]
            pid = -1 if pa == "" else pids.setdefault((self.opkg(o), pa), len(pids))
            out += [self.opkg(o), nid(self.oname(o)), int(self.oexp(o)), int(self.odispatch(o)), pid]
        self.pid_names = {v: k for k, v in pids.items()}
        out.append(len(self.keys))
        for k in self.keys:
            o = self.objs[k["obj"]]
            pn, recv, isr, num = -1, -1, 0, k["num"]
            if k["kind"] in (2, 3, 11):
                if k["kind"] == 11 and k["num"] == -1:
                    pn, isr, num = nid("r" if o["recvnamed"] else ""), 1, 0
                else:
                    pn = nid("p%d" % k["num"] if o["named"] & (1 << k["num"]) else "")
            if k["kind"] == 9 and o["kind"] == METHOD:
                recv = nid("r" if o["recvnamed"] else "")
            out += [k["kind"], k["obj"], num, pn, max(k["fld"], 0), recv, k["lf"], k["ll"], k["lc"], isr, k["track"]]
        out.append(len(self.steps))
        for s in self.steps:
            if s[0] == 0:
                out += [0, s[1]]
                for i in range(len(self.objs)):
                    out += list(self.believed(i, s[1], s[2]))
                out += [len(s[3])] + list(s[3])
            elif s[0] == 1:
                out += [1, s[1], len(s[3])] + [x for q in s[3] for x in q]
            else:
                out += [2, s[1], len(s[2])] + [x for q in s[2] for x in q]
        return " ".join(map(str, out))

    def pretty(self):
        kinds = ["func", "method", "field", "gvar", "lvar", "typename"]
        ls = ["%d packages (import paths ex.com/kp<i>/util, all named util)" % self.np]
        for i, t in enumerate(self.types):
            ls.append("  type #%d: %s%s in package %d" % (i, "interface " if t[3] else "", ("T%d" if t[2] else "t%d") % t[1], t[0]))
        for i, o in enumerate(self.objs):
            ls.append("  object #%d: %s %s in package %d%s (line %d)%s" % (i, kinds[o["kind"]], self.oname(o), self.opkg(o),
                      " of type #%d" % o["owner"] if o["kind"] in (METHOD, FIELD, TYPENAME) else "", self.oline(i),
                      " params=%d named=%s results=%d recvnamed=%d" % (o["nparams"], bin(o["named"]), o["nresults"], o["recvnamed"]) if o["kind"] in (FUNC, METHOD) else ""))
        kn = ["", "Field", "CallSiteParam", "Param", "CallSiteRet", "Ret", "TypeName", "GlobalVar", "LocalVar", "RetField", "EscapeField", "ParamField", "Recv"]
        for i, k in enumerate(self.keys):
            ls.append("  key #%d: %s obj=#%d num=%d fld=#%d loc=kp%d/c%d.go:%d:%d track=%d" % (i, kn[k["kind"]], k["obj"], k["num"], k["fld"], k["lf"] % self.np, k["lf"], k["ll"], k["lc"], k["track"]))
        for j, s in enumerate(self.steps):
            if s[0] == 0:
                ls.append("  step %d: view: package %d analyses, foreign positions %s, sees facts %s" % (j, s[1], ["exact", "column lost", "line shifted"][s[2]], s[3]))
            elif s[0] == 1:
                ls.append("  step %d: fact published from view %d (gob=%d) with the sites of (key, deep) %s" % (j, s[1], s[2], s[3]))
            else:
                ls.append("  step %d: query view %d for (key, deep) %s" % (j, s[1], s[2]))
        ls.append("case-line: " + self.line())
        return "\n".join(ls)


def gen(rng):
    np = rng.randint(1, 3)
    types, seen = [], set()
    for _ in range(rng.randint(1, 3)):
        # (package, name index, exported, interface type)
        t = (rng.randrange(np), rng.randrange(2), rng.randrange(2), int(rng.random() < 0.35))
        if (t[0], t[1], t[2]) in seen:
            continue
        seen.add((t[0], t[1], t[2]))
        types.append(t)
    objs, scope, members = [], set(), set()
    for _ in range(rng.randint(3, 9)):
        kind = rng.choice([FUNC, FUNC, METHOD, METHOD, FIELD, FIELD, GVAR, LVAR, TYPENAME])
        o = dict(kind=kind, pkg=rng.randrange(np), name=rng.randrange(2), exp=int(rng.random() < 0.7), owner=-1,
                 nparams=rng.randint(0, 2), named=rng.randrange(4), nresults=rng.randint(1, 2), recvnamed=rng.randrange(2))
        if kind in (METHOD, FIELD, TYPENAME):
            o["owner"] = rng.randrange(len(types))
            o["pkg"] = types[o["owner"]][0]
            if types[o["owner"]][3]:
                if kind == FIELD:
                    continue            # interface types have no fields
                if kind == METHOD:
                    o["recvnamed"] = 0  # and their methods no receiver name
                    if rng.random() < 0.6:
                        o["exp"] = 0    # unexported interface methods are the interesting ones
        if kind in (FUNC, GVAR):
            key = (o["pkg"], kind, o["name"], o["exp"])
            if key in scope:
                continue
            scope.add(key)
        if kind in (METHOD, FIELD):
            key = (o["owner"], kind, o["name"], o["exp"])
            if key in members:
                continue
            members.add(key)
        if kind == TYPENAME:
            if any(x["kind"] == TYPENAME and x["owner"] == o["owner"] for x in objs):
                continue
        objs.append(o)
    if not objs:
        # every draw was a duplicate or a field of an interface type: one plain function
        objs.append(dict(kind=FUNC, pkg=rng.randrange(np), name=0, exp=1, owner=-1, nparams=1, named=1, nresults=1, recvnamed=0))
    fields = [i for i, o in enumerate(objs) if o["kind"] == FIELD]
    keys = []
    for _ in range(rng.randint(4, 12)):
        i = rng.randrange(len(objs))
        o = objs[i]
        k = dict(kind=0, obj=i, num=0, fld=-1, lf=rng.randrange(3), ll=rng.choice([3, 4]), lc=rng.choice([7, 9]), track=rng.randrange(2))
        if o["kind"] == FIELD:
            k["kind"] = rng.choice([1, 10])
        elif o["kind"] == GVAR:
            k["kind"] = 7
        elif o["kind"] == LVAR:
            k["kind"] = 8
        elif o["kind"] == TYPENAME:
            k["kind"] = 6
        else:
            opts = [4, 5, 4, 5]
            if o["nparams"] > 0:
                opts += [2, 3, 2, 3]
            if fields:
                opts += [9]
                if o["nparams"] > 0 or o["kind"] == METHOD:
                    opts += [11]
            if o["kind"] == METHOD:
                opts += [12]
            k["kind"] = rng.choice(opts)
            if k["kind"] in (2, 3):
                k["num"] = rng.randrange(o["nparams"])
            elif k["kind"] in (4, 5):
                k["num"] = rng.randrange(o["nresults"])
            elif k["kind"] == 9:
                k["num"], k["fld"] = rng.randrange(o["nresults"]), rng.choice(fields)
            elif k["kind"] == 11:
                k["fld"] = rng.choice(fields)
                k["num"] = -1 if (o["kind"] == METHOD and (o["nparams"] == 0 or rng.random() < 0.4)) else rng.randrange(o["nparams"])
        keys.append(k)
        if rng.random() < 0.3 and k["kind"] in (2, 4):
            k2 = dict(k)
            c = rng.choice(["lf", "ll", "lc"])
            k2[c] = {"lf": (k[c] + 1) % 3, "ll": 7 - k[c], "lc": 16 - k[c]}[c]
            keys.append(k2)
    allq = [(i, d) for i in range(len(keys)) for d in (0, 1)]
    steps = []
    nviews = nfacts = 0
    # the home view of every package first (exact positions, no facts), each queried in full
    for a in range(np):
        steps.append((0, a, 0, []))
        steps.append((2, nviews, allq))
        nviews += 1
    for _ in range(rng.randint(1, 4)):
        if rng.random() < 0.6 or nfacts == 0:
            v = rng.randrange(nviews)
            qs = [q for q in allq if rng.random() < 0.5]
            steps.append((1, v, rng.randrange(2), qs))
            nfacts += 1
        a = rng.randrange(np)
        vis = [j for j in range(nfacts) if rng.random() < 0.7]
        steps.append((0, a, rng.randrange(3), vis))
        steps.append((2, nviews, allq))
        nviews += 1
    return KCase(np, types, objs, keys, steps)


def run_impl(lines, timeout=900):
    rc, out, err = common.harness(["keys"], inp="\n".join(lines) + "\n", timeout=timeout)
    return rc, out.splitlines(), err


def run_model(lines, timeout=900):
    rc, out, err = common.sh2([os.path.join(common.BIN, "modelrun"), "keys"], inp="\n".join(lines) + "\n", timeout=timeout)
    return rc, out.splitlines(), err


def parse_real(line):
    if line.startswith("PANIC"):
        return None, None
    parts = line.split(" ;; ")
    paths = parts[0][len("paths="):].split(",") if parts[0] != "paths=" else []
    qs = []
    for p in parts[1:]:
        rs, site = p.split(" ## ")
        f = site.split("|")
        qs.append(dict(str=rs, file=f[0], off=int(f[1]), line=int(f[2]), col=int(f[3]), pkg=f[4], repr=f[5], deep=f[6] == "true", exported=f[7] == "true", path=f[8]))
    return paths, qs


def parse_model(line):
    qs = []
    for p in line.split(" ;; ")[1:]:
        rs, site = p.split(" ## ")
        f = site.split("|")
        qs.append(dict(str=rs, file=int(f[0]), off=int(f[1]), pkg=int(f[2]), deep=f[3] == "true", exported=f[4] == "true", path=f[5]))
    return qs


def classes(xs):
    ids = {}
    return [ids.setdefault(x, len(ids)) for x in xs]


def compare(case, real, model):
    """-> None or a description of the first difference"""
    if len(real) != len(model):
        return "the real side answered %d queries, the model %d" % (len(real), len(model))
    cr, cm = classes([q["str"] for q in real]), classes([q["str"] for q in model])
    if cr != cm:
        i = next(i for i in range(len(cr)) if cr[i] != cm[i])
        j = next(j for j in range(i + 1) if (cr[j] == cr[i]) != (cm[j] == cm[i]))
        return "Key.String(): queries %d and %d are rendered %s by the real code (`%s` / `%s`) and %s by the model (%s / %s)" % (
            j, i, "alike" if cr[j] == cr[i] else "differently", real[j]["str"], real[i]["str"], "alike" if cm[j] == cm[i] else "differently", model[j]["str"], model[i]["str"])
    for i, (r, m) in enumerate(zip(real, model)):
        if r["repr"] != r["str"]:
            return "query %d: the site's Repr `%s` is not the key's String() `%s`" % (i, r["repr"], r["str"])
        mf = re.match(r"kp(\d+)/s\.go$", r["file"])
        mp = re.match(r"ex\.com/kp(\d+)/util$", r["pkg"])
        if not mf or not mp:
            return "query %d: unexpected file / package %r %r" % (i, r["file"], r["pkg"])
        if (int(mf.group(1)), r["off"]) != (m["file"], m["off"]):
            return "query %d (`%s`): the real site's position is file %s offset %d (line %d col %d), the model's file %d offset %d" % (i, r["str"], mf.group(1), r["off"], r["line"], r["col"], m["file"], m["off"])
        if (r["line"] - 1) * LW + r["col"] - 1 != r["off"]:
            return "query %d: line/column %d:%d do not match offset %d" % (i, r["line"], r["col"], r["off"])
        if int(mp.group(1)) != m["pkg"] or r["deep"] != m["deep"] or r["exported"] != m["exported"]:
            return "query %d (`%s`): package/deep/exported are %s/%s/%s in the real site and %s/%s/%s in the model" % (i, r["str"], mp.group(1), r["deep"], r["exported"], m["pkg"], m["deep"], m["exported"])
        want = "" if m["path"] == "-" else case.pid_names[int(m["path"])][1]
        if r["path"] != want:
            return "query %d (`%s`): the real site carries object path `%s`, objectpath.For gives `%s`" % (i, r["str"], r["path"], want)
    return None


def query_index(case):
    """[(view index, key index, deep)] in output order"""
    out = []
    for s in case.steps:
        if s[0] == 2:
            out += [(s[1], k, d) for (k, d) in s[2]]
    return out


def identity_oracle(case, real):
    """the statement of C15 evaluated on the real outputs alone: (a) injectivity inside a view: different keys (or
    depths) never get the same site; (b) stability: a dependency's site published in a visible fact by its home package
    has, in the importer, exactly the identity it has at home"""
    idx = query_index(case)
    site = lambda q: (q["file"], q["off"], q["pkg"], q["repr"], q["deep"], q["exported"], q["path"])
    spec = lambda k: tuple(sorted((a, b) for a, b in case.keys[k].items() if not (a in ("lf", "ll", "lc") and case.keys[k]["kind"] not in (2, 4))
                           and not (a == "track" and case.keys[k]["kind"] != 11) and not (a == "fld" and case.keys[k]["kind"] not in (9, 11))))
    byview = {}
    for (v, k, d), q in zip(idx, real):
        byview.setdefault(v, {}).setdefault(site(q), set()).add((spec(k), d))
    for v, m in byview.items():
        for s, ks in m.items():
            if len(ks) > 1:
                return "injectivity: in view %d the distinct keys %s share the site %r" % (v, sorted(ks)[:2], s)
    # stability
    views = [s for s in case.steps if s[0] == 0]
    facts = [s for s in case.steps if s[0] == 1]
    home = {}
    for (v, k, d), q in zip(idx, real):
        a = views[v][1]
        if views[v][2] == 0 and not views[v][3] and case.opkg(case.objs[case.keys[k]["obj"]]) == a:
            home[(k, d)] = site(q)
    for (v, k, d), q in zip(idx, real):
        o = case.keys[k]["obj"]
        op = case.opkg(case.objs[o])
        if op == views[v][1] or (k, d) not in home or not q["path"]:
            continue
        # published by the object's home package (from a view without perturbation: its own objects are always exact)
        pub = any(views[facts[j][1]][1] == op and any(case.keys[k2]["obj"] == o for (k2, _) in facts[j][3]) for j in views[v][3])
        later_wrong = any(views[facts[j][1]][1] != op and any(case.keys[k2]["obj"] == o for (k2, _) in facts[j][3]) for j in views[v][3])
        if pub and not later_wrong and site(q) != home[(k, d)]:
            return "stability: key #%d (deep=%d) has the site %r at home and %r in view %d although its home package published the object" % (k, d, home[(k, d)], site(q), v)
    return None


def correspond(ctx, n):
    rng = random.Random(ctx.seed * 7919 + 15)
    cases = [gen(rng) for _ in range(n)]
    rc, real_lines, err = run_impl([c.line() for c in cases])
    res = dict(cases=cases, errors=[], mism=[], oracle=[], panics=[], nq=0)
    if rc != 0 or len(real_lines) != len(cases):
        res["errors"].append("bin/harness keys failed: rc=%s %s" % (rc, err[-500:]))
        return res
    mlines, parsed = [], []
    for c, l in zip(cases, real_lines):
        paths, qs = parse_real(l)
        parsed.append(qs)
        if paths is not None and len(paths) < len(c.objs):
            paths = paths + [""] * (len(c.objs) - len(paths))      # "paths=" of a single object without a path
        mlines.append(c.model_line(paths if paths is not None else [""] * len(c.objs)))
    rc, model_lines, err = run_model(mlines)
    if rc != 0 or len(model_lines) != len(cases):
        res["errors"].append("bin/modelrun keys failed: rc=%s %s" % (rc, err[-500:]))
        return res
    for i, c in enumerate(cases):
        if parsed[i] is None:
            res["panics"].append((i, real_lines[i]))
            continue
        res["nq"] += len(parsed[i])
        d = compare(c, parsed[i], parse_model(model_lines[i]))
        if d:
            res["mism"].append((i, d))
        o = identity_oracle(c, parsed[i])
        if o:
            res["oracle"].append((i, o))
    return res
