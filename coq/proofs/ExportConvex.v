(* chooseSitesToExport chooses exactly the exported sites plus the convex closure between them: an undetermined,
   unexported site is chosen iff it lies on a path of such sites from an exported site to an exported site.
   The two depth-first walks (markReachableFromExported / markReachesExported) share one marks structure; the proof
   separates them again: fv (forward-visited) and bv (backward-visited) are read off the three lists, each walk is a
   depth-first search on its own set and leaves the other alone, a site is in toExport iff it is in both. *)
From Coq Require Import List Bool Arith PeanoNat Lia.
From NM Require Import Engine EngineSpec.
From NP Require Import EngineBasics ExportProofs.
Import ListNotations.

Section Convex.
  Variable exported : site -> bool.
  Variable m : list (site * ival).

  Definition inner (s : site) : bool := is_undet m s && negb (exported s).
  Definition fvb (mk : marks) (x : site) : bool := mem x (rfe mk) || (mem x (toExp mk) && mem x (re mk)).
  Definition bvb (mk : marks) (x : site) : bool := mem x (re mk) || (mem x (toExp mk) && mem x (rfe mk)).

  (* the shape the three lists keep: an unexported chosen site was visited by one of the walks first; no site is
     marked by both walks without being chosen *)
  Definition shape (mk : marks) : Prop :=
    (forall x, inner x = true -> mem x (toExp mk) = true -> mem x (rfe mk) = true \/ mem x (re mk) = true) /\
    (forall x, mem x (rfe mk) = true -> mem x (re mk) = true -> False).

  Lemma mem_cons x y l : mem x (y :: l) = Nat.eqb x y || mem x l.
  Proof. reflexivity. Qed.

  Lemma inner_in_keys s : inner s = true -> In s (map fst m).
  Proof.
    unfold inner, is_undet. intros H. apply andb_true_iff in H. destruct H as [H _].
    destruct (lookup m s) as [v|] eqn:E; [|discriminate]. eapply lookup_In_fst; eauto.
  Qed.

  (* the number of inner sites not yet visited forward *)
  Definition unvF (mk : marks) : nat := length (filter (fun x => inner x && negb (fvb mk x)) (map fst m)).

  Lemma filter_length_le {A} (f g : A -> bool) l : (forall x, f x = true -> g x = true) -> length (filter f l) <= length (filter g l).
  Proof.
    intros H. induction l as [|a l IH]; cbn; auto. destruct (f a) eqn:Ef.
    - rewrite (H a Ef). cbn. lia.
    - destruct (g a); cbn; lia.
  Qed.

  Lemma filter_length_lt {A} (f g : A -> bool) l a : (forall x, f x = true -> g x = true) -> In a l -> f a = false -> g a = true ->
    length (filter f l) < length (filter g l).
  Proof.
    intros H. induction l as [|b l IH]; intros Hin Hf Hg; [destruct Hin|].
    destruct Hin as [->|Hin]; cbn.
    - rewrite Hf, Hg. cbn. pose proof (filter_length_le f g l H). lia.
    - specialize (IH Hin Hf Hg). destruct (f b) eqn:Ef.
      + rewrite (H b Ef). cbn. lia.
      + destruct (g b); cbn; lia.
  Qed.

  (* ---------- one forward walk ---------- *)
  Definition visitF (mk : marks) (s : site) : marks :=
    if mem s (re mk) then {| toExp := s :: toExp mk; rfe := rfe mk; re := re mk |}
    else {| toExp := toExp mk; rfe := s :: rfe mk; re := re mk |}.

  Lemma mark_rfe_unfold f mk s : mark_rfe exported (S f) m mk s =
    if inner s && negb (mem s (toExp mk)) && negb (mem s (rfe mk))
    then fold_left (mark_rfe exported f m) (outs_of m s) (visitF mk s) else mk.
  Proof. reflexivity. Qed.

  Lemma visitF_fv mk s x : mem s (toExp mk) = false -> fvb (visitF mk s) x = Nat.eqb x s || fvb mk x.
  Proof.
    intros Ht. unfold visitF, fvb. destruct (mem s (re mk)) eqn:Er; cbn [toExp rfe re]; rewrite ?mem_cons.
    - destruct (Nat.eqb x s) eqn:E; cbn; auto. apply Nat.eqb_eq in E. subst. rewrite Er. cbn. now rewrite orb_true_r.
    - destruct (Nat.eqb x s); cbn; auto.
  Qed.

  Lemma visitF_bv mk s x : mem s (toExp mk) = false -> bvb (visitF mk s) x = bvb mk x.
  Proof.
    intros Ht. unfold visitF, bvb. destruct (mem s (re mk)) eqn:Er; cbn [toExp rfe re]; rewrite ?mem_cons.
    - destruct (Nat.eqb x s) eqn:E; cbn; auto. apply Nat.eqb_eq in E. subst. rewrite Er. reflexivity.
    - destruct (Nat.eqb x s) eqn:E; cbn; auto. apply Nat.eqb_eq in E. subst. rewrite Er, Ht. reflexivity.
  Qed.

  Lemma visitF_shape mk s : shape mk -> inner s = true -> mem s (toExp mk) = false -> mem s (rfe mk) = false -> shape (visitF mk s).
  Proof.
    intros [H1 H2] Hi Ht Hf. unfold visitF. destruct (mem s (re mk)) eqn:Er; split; cbn [toExp rfe re]; intros x.
    - intros Hx. rewrite mem_cons. destruct (Nat.eqb x s) eqn:E; cbn; auto. apply Nat.eqb_eq in E. subst. auto.
    - apply H2.
    - intros Hx Hm. rewrite mem_cons. destruct (H1 x Hx Hm); auto. left. rewrite H. apply orb_true_r.
    - rewrite mem_cons. destruct (Nat.eqb x s) eqn:E; cbn; [|apply H2]. apply Nat.eqb_eq in E. subst. intros _ Hr. congruence.
  Qed.

  (* under the shape invariant the walk stops exactly at the forward-visited sites *)
  Lemma stopF mk s : shape mk -> inner s = true -> (negb (mem s (toExp mk)) && negb (mem s (rfe mk))) = negb (fvb mk s).
  Proof.
    intros [H1 H2] Hi. unfold fvb. destruct (mem s (toExp mk)) eqn:Et, (mem s (rfe mk)) eqn:Ef; cbn; auto.
    destruct (H1 s Hi Et) as [H|H]; [congruence|]. now rewrite H.
  Qed.

  Definition closedF (mk : marks) (x : site) : Prop := forall y, In y (outs_of m x) -> inner y = true -> fvb mk y = true.

  Record postF (mk mk' : marks) : Prop := {
    pf_mono : forall x, fvb mk x = true -> fvb mk' x = true;
    pf_bv : forall x, bvb mk' x = bvb mk x;
    pf_shape : shape mk';
    pf_new : forall x, fvb mk' x = true -> fvb mk x = false -> inner x = true /\ closedF mk' x;
    pf_exp : forall x, exported x = true -> mem x (toExp mk') = mem x (toExp mk)
  }.

  Lemma postF_refl mk : shape mk -> postF mk mk.
  Proof. intros H. split; auto. intros x H1 H2. congruence. Qed.

  Lemma postF_trans a b c : postF a b -> postF b c -> postF a c.
  Proof.
    intros [m1 b1 s1 n1 e1] [m2 b2 s2 n2 e2]. split; auto.
    - intros x. rewrite b2. apply b1.
    - intros x Hc Ha. destruct (fvb b x) eqn:Eb.
      + destruct (n1 x Eb Ha) as [Hi Hcl]. split; auto. intros y Hy Hiy. apply m2. auto.
      + apply n2; auto.
    - intros x Hx. rewrite e2, e1; auto.
  Qed.

  Lemma unvF_mono a b : (forall x, fvb a x = true -> fvb b x = true) -> unvF b <= unvF a.
  Proof.
    intros H. unfold unvF. apply filter_length_le. intros x Hx. apply andb_true_iff in Hx. destruct Hx as [Hi Hn].
    rewrite Hi. cbn. destruct (fvb a x) eqn:E; auto. rewrite (H x E) in Hn. discriminate.
  Qed.

  Lemma mark_rfe_post : forall f mk s, shape mk -> unvF mk < f ->
    let mk' := mark_rfe exported f m mk s in
    postF mk mk' /\ (inner s = true -> fvb mk' s = true).
  Proof.
    induction f as [|f IH]; intros mk s Hsh Hfuel; [lia|].
    cbn zeta. rewrite mark_rfe_unfold.
    destruct (inner s) eqn:Hi; cbn [andb]; [|split; [now apply postF_refl|discriminate]].
    rewrite (stopF mk s Hsh Hi).
    destruct (fvb mk s) eqn:Efv; cbn [negb]; [split; [now apply postF_refl|auto]|].
    assert (Ht : mem s (toExp mk) = false).
    { destruct (mem s (toExp mk)) eqn:Et; auto. destruct Hsh as [H1 _]. unfold fvb in Efv.
      destruct (H1 s Hi Et) as [H|H]; rewrite H in Efv; cbn in Efv; try discriminate.
      rewrite Et in Efv. rewrite orb_true_r in Efv. discriminate. }
    assert (Hf : mem s (rfe mk) = false).
    { unfold fvb in Efv. destruct (mem s (rfe mk)); auto. }
    set (mk1 := visitF mk s).
    assert (Hsh1 : shape mk1) by (apply visitF_shape; auto).
    assert (Hfv1 : forall x, fvb mk1 x = Nat.eqb x s || fvb mk x) by (intros x; apply visitF_fv; auto).
    assert (Hu1 : unvF mk1 < unvF mk).
    { unfold unvF. apply filter_length_lt with (a := s).
      - intros x Hx. apply andb_true_iff in Hx. destruct Hx as [Hix Hn]. rewrite Hix. cbn.
        rewrite Hfv1 in Hn. destruct (fvb mk x); auto. rewrite orb_true_r in Hn. discriminate.
      - now apply inner_in_keys.
      - rewrite Hfv1, Nat.eqb_refl. cbn. now rewrite andb_false_r.
      - rewrite Hi, Efv. reflexivity. }
    (* the fold over the successors *)
    assert (Fold : forall l mka, shape mka -> unvF mka < f ->
              let mkb := fold_left (mark_rfe exported f m) l mka in
              postF mka mkb /\ (forall y, In y l -> inner y = true -> fvb mkb y = true)).
    { induction l as [|y l IHl]; intros mka Ha Hua; cbn [fold_left].
      - split; [now apply postF_refl|intros y []].
      - destruct (IH mka y Ha Hua) as [P1 Q1]. cbn zeta in P1, Q1.
        set (mkc := mark_rfe exported f m mka y) in *.
        assert (Huc : unvF mkc < f) by (pose proof (unvF_mono mka mkc (pf_mono _ _ P1)); lia).
        destruct (IHl mkc (pf_shape _ _ P1) Huc) as [P2 Q2]. cbn zeta in P2, Q2. split.
        + eapply postF_trans; eauto.
        + intros z [<-|Hz] Hiz; [apply (pf_mono _ _ P2); auto | apply Q2; auto]. }
    destruct (Fold (outs_of m s) mk1 Hsh1 ltac:(lia)) as [P Q]. cbn zeta in P, Q.
    set (mk' := fold_left (mark_rfe exported f m) (outs_of m s) mk1) in *.
    split.
    - split.
      + intros x Hx. apply (pf_mono _ _ P). rewrite Hfv1, Hx. apply orb_true_r.
      + intros x. rewrite (pf_bv _ _ P). apply visitF_bv; auto.
      + apply (pf_shape _ _ P).
      + intros x Hx Hnx. destruct (fvb mk1 x) eqn:E1.
        * rewrite Hfv1, Hnx, orb_false_r in E1. apply Nat.eqb_eq in E1. subst x. split; [exact Hi|].
          intros y Hy Hiy. apply Q; auto.
        * apply (pf_new _ _ P); auto.
      + intros x Hx. rewrite (pf_exp _ _ P x Hx). unfold mk1, visitF.
        destruct (mem s (re mk)); cbn [toExp]; auto. rewrite mem_cons.
        destruct (Nat.eqb x s) eqn:E; auto. apply Nat.eqb_eq in E. subst x.
        unfold inner in Hi. rewrite Hx in Hi. rewrite andb_false_r in Hi. discriminate.
    - intros _. apply (pf_mono _ _ P). rewrite Hfv1, Nat.eqb_refl. reflexivity.
  Qed.
End Convex.

(* ---------- what a forward walk visits: sites reached along inner successors ---------- *)
Section GSound.
  Variable exported : site -> bool.
  Variable m : list (site * ival).
  Variables P Q : site -> Prop.
  Hypothesis Pstep : forall x y, P x -> In y (outs_of m x) -> inner exported m y = true -> P y.

  Definition gsound (mk : marks) : Prop :=
    (forall x, fvb mk x = true -> inner exported m x = true /\ P x) /\
    (forall x, bvb mk x = true -> inner exported m x = true /\ Q x).

  Lemma mark_rfe_gsound : forall f mk s, (inner exported m s = true -> P s) -> gsound mk -> gsound (mark_rfe exported f m mk s).
  Proof.
    induction f as [|f IH]; intros mk s Hs Hsd; cbn [mark_rfe]; auto.
    destruct (is_undet m s && negb (exported s)) eqn:Hi; cbn [andb]; auto.
    destruct (mem s (toExp mk)) eqn:Ht; cbn [negb andb]; auto.
    destruct (mem s (rfe mk)) eqn:Hf; cbn [negb andb]; auto.
    assert (S1 : gsound (visitF mk s)).
    { destruct Hsd as [A B]. split; intros x Hx.
      - rewrite visitF_fv in Hx by auto. destruct (Nat.eqb x s) eqn:E.
        + apply Nat.eqb_eq in E. subst. auto.
        + apply A. exact Hx.
      - rewrite visitF_bv in Hx by auto. auto. }
    assert (Hs' : P s) by (apply Hs; exact Hi).
    fold (visitF mk s).
    assert (Fold : forall l, (forall y, In y l -> inner exported m y = true -> P y) ->
              forall mka, gsound mka -> gsound (fold_left (mark_rfe exported f m) l mka)).
    { induction l as [|y l IHl]; intros Hl mka Ha; cbn [fold_left]; auto.
      apply IHl; [intros z Hz; apply Hl; right; auto|]. apply IH; auto. apply Hl. left. reflexivity. }
    apply Fold; auto. intros y Hy Hiy. eapply Pstep; eauto.
  Qed.
End GSound.

(* ---------- the backward walk is the forward walk of the transposed graph on the swapped marks ---------- *)
Definition tr_val (v : ival) : ival := match v with Undet i o => Undet o i | d => d end.
Definition tr (m : list (site * ival)) : list (site * ival) := map (fun kv => (fst kv, tr_val (snd kv))) m.
Definition sw (mk : marks) : marks := {| toExp := toExp mk; rfe := re mk; re := rfe mk |}.

Lemma lookup_tr m s : lookup (tr m) s = option_map tr_val (lookup m s).
Proof. induction m as [|[k v] m IH]; cbn; auto. destruct (Nat.eqb k s); auto. Qed.

Lemma is_undet_tr m s : is_undet (tr m) s = is_undet m s.
Proof. unfold is_undet. rewrite lookup_tr. destruct (lookup m s) as [[e|i o]|]; reflexivity. Qed.
Lemma outs_tr m s : outs_of (tr m) s = ins_of m s.
Proof. unfold outs_of, ins_of. rewrite lookup_tr. destruct (lookup m s) as [[e|i o]|]; reflexivity. Qed.
Lemma ins_tr m s : ins_of (tr m) s = outs_of m s.
Proof. unfold outs_of, ins_of. rewrite lookup_tr. destruct (lookup m s) as [[e|i o]|]; reflexivity. Qed.
Lemma keys_tr m : map fst (tr m) = map fst m.
Proof. unfold tr. rewrite map_map. reflexivity. Qed.
Lemma sw_sw mk : sw (sw mk) = mk.
Proof. destruct mk; reflexivity. Qed.

Lemma mark_re_tr exported m : forall f mk s, mark_re exported f m mk s = sw (mark_rfe exported f (tr m) (sw mk) s).
Proof.
  induction f as [|f IH]; intros mk s; cbn [mark_re mark_rfe]; [now rewrite sw_sw|].
  rewrite is_undet_tr, outs_tr. cbn [toExp rfe re sw].
  destruct (is_undet m s && negb (exported s) && negb (mem s (toExp mk)) && negb (mem s (re mk))); [|now rewrite sw_sw].
  assert (Fold : forall l mka, fold_left (mark_re exported f m) l mka = sw (fold_left (mark_rfe exported f (tr m)) l (sw mka))).
  { induction l as [|y l IHl]; intros mka; cbn [fold_left]; [now rewrite sw_sw|].
    rewrite IHl, IH, sw_sw. reflexivity. }
  rewrite Fold. f_equal. f_equal. destruct (mem s (rfe mk)); reflexivity.
Qed.

Section Main.
  Variable exported : site -> bool.
  Variable m : list (site * ival).
  Notation inn := (inner exported m).

  Definition closedB (mk : marks) (x : site) : Prop := forall y, In y (ins_of m x) -> inn y = true -> bvb mk y = true.
  Definition unvB (mk : marks) : nat := length (filter (fun x => inn x && negb (bvb mk x)) (map fst m)).

  Lemma inner_tr s : inner exported (tr m) s = inn s.
  Proof. unfold inner. now rewrite is_undet_tr. Qed.
  Lemma fvb_sw mk x : fvb (sw mk) x = bvb mk x.
  Proof. reflexivity. Qed.
  Lemma bvb_sw mk x : bvb (sw mk) x = fvb mk x.
  Proof. reflexivity. Qed.
  Lemma shape_sw mk : shape exported m mk -> shape exported (tr m) (sw mk).
  Proof.
    intros [H1 H2]. split; cbn [sw toExp rfe re].
    - intros x Hx Ht. rewrite inner_tr in Hx. destruct (H1 x Hx Ht); auto.
    - intros x Ha Hb. eapply H2; eauto.
  Qed.
  Lemma shape_sw' mk : shape exported (tr m) (sw mk) -> shape exported m mk.
  Proof.
    intros [H1 H2]. split.
    - intros x Hx Ht. rewrite <- inner_tr in Hx. destruct (H1 x Hx Ht); auto.
    - intros x Ha Hb. eapply (H2 x); eauto.
  Qed.
  Lemma unvF_tr mk : unvF exported (tr m) (sw mk) = unvB mk.
  Proof.
    unfold unvF, unvB. rewrite keys_tr. f_equal. apply filter_ext. intros x. now rewrite inner_tr.
  Qed.

  Record postB (mk mk' : marks) : Prop := {
    pb_mono : forall x, bvb mk x = true -> bvb mk' x = true;
    pb_fv : forall x, fvb mk' x = fvb mk x;
    pb_shape : shape exported m mk';
    pb_new : forall x, bvb mk' x = true -> bvb mk x = false -> inn x = true /\ closedB mk' x
  }.

  Lemma mark_re_post f mk s : shape exported m mk -> unvB mk < f ->
    let mk' := mark_re exported f m mk s in
    postB mk mk' /\ (inn s = true -> bvb mk' s = true).
  Proof.
    intros Hsh Hf. cbn zeta. rewrite mark_re_tr.
    assert (Hf' : unvF exported (tr m) (sw mk) < f) by now rewrite unvF_tr.
    destruct (mark_rfe_post exported (tr m) f (sw mk) s (shape_sw mk Hsh) Hf') as [P Q]. cbn zeta in P, Q.
    set (mk2 := mark_rfe exported f (tr m) (sw mk) s) in *.
    split.
    - split.
      + intros x Hx. rewrite <- fvb_sw. rewrite sw_sw. apply (pf_mono _ _ _ _ P). exact Hx.
      + intros x. rewrite <- bvb_sw. rewrite sw_sw. rewrite (pf_bv _ _ _ _ P). reflexivity.
      + apply shape_sw'. rewrite sw_sw. apply (pf_shape _ _ _ _ P).
      + intros x Hx Hn. rewrite <- fvb_sw in Hx. rewrite sw_sw in Hx.
        destruct (pf_new _ _ _ _ P x Hx Hn) as [Hi Hc]. rewrite inner_tr in Hi. split; auto.
        intros y Hy Hiy. rewrite <- fvb_sw. rewrite sw_sw. apply Hc; [now rewrite outs_tr | now rewrite inner_tr].
    - intros Hi. rewrite <- fvb_sw. rewrite sw_sw. apply Q. now rewrite inner_tr.
  Qed.

  (* ---------- what the walks visit: only sites on inner paths from / to exported sites of the map ---------- *)
  Definition root (r : site) : Prop := In r (map fst m) /\ exported r = true.
  Inductive FR : site -> Prop :=
    | FR_root r s : root r -> In s (outs_of m r) -> inn s = true -> FR s
    | FR_step x s : FR x -> In s (outs_of m x) -> inn s = true -> FR s.
  Inductive BR : site -> Prop :=
    | BR_root r s : root r -> In s (ins_of m r) -> inn s = true -> BR s
    | BR_step x s : BR x -> In s (ins_of m x) -> inn s = true -> BR s.

  Definition sound (mk : marks) : Prop := gsound exported m FR BR mk.

  Lemma mark_rfe_sound f mk s : (inn s = true -> FR s) -> sound mk -> sound (mark_rfe exported f m mk s).
  Proof. apply mark_rfe_gsound. intros x y Hx Hy Hi. eapply FR_step; eauto. Qed.

  Lemma sound_sw mk : sound mk <-> gsound exported (tr m) BR FR (sw mk).
  Proof.
    unfold sound, gsound. split; intros [A B]; split; intros x Hx.
    - rewrite inner_tr. apply B. exact Hx.
    - rewrite inner_tr. apply A. exact Hx.
    - rewrite <- inner_tr. apply B. exact Hx.
    - rewrite <- inner_tr. apply A. exact Hx.
  Qed.

  Lemma mark_re_sound f mk s : (inn s = true -> BR s) -> sound mk -> sound (mark_re exported f m mk s).
  Proof.
    intros Hs Hsd. rewrite mark_re_tr. apply sound_sw. rewrite sw_sw.
    apply mark_rfe_gsound.
    - intros x y Hx Hy Hi. rewrite outs_tr in Hy. rewrite inner_tr in Hi. eapply BR_step; eauto.
    - rewrite inner_tr. exact Hs.
    - now apply sound_sw.
  Qed.

  Lemma shape_T mk x : shape exported m mk -> inn x = true -> mem x (toExp mk) = fvb mk x && bvb mk x.
  Proof.
    intros [H1 H2] Hi. unfold fvb, bvb.
    destruct (mem x (toExp mk)) eqn:Et, (mem x (rfe mk)) eqn:Ef, (mem x (re mk)) eqn:Eb; cbn; auto;
      try (exfalso; apply (H2 x Ef Eb)); try (destruct (H1 x Hi Et); congruence).
  Qed.

  Lemma filter_len {A} (f : A -> bool) l : length (filter f l) <= length l.
  Proof. induction l as [|a l IH]; cbn; auto. destruct (f a); cbn; lia. Qed.
  Lemma unvF_le mk : unvF exported m mk <= length m.
  Proof. unfold unvF. rewrite <- (map_length fst m). apply filter_len. Qed.
  Lemma unvB_le mk : unvB mk <= length m.
  Proof. unfold unvB. rewrite <- (map_length fst m). apply filter_len. Qed.

  (* the invariant of the main loop, `done` being the keys already processed *)
  Record G (mk : marks) (done : list site) : Prop := {
    g_shape : shape exported m mk;
    g_sound : sound mk;
    g_cf : forall x, fvb mk x = true -> closedF exported m mk x;
    g_cb : forall x, bvb mk x = true -> closedB mk x;
    g_rf : forall r y, In r done -> exported r = true -> In y (outs_of m r) -> inn y = true -> fvb mk y = true;
    g_rb : forall r y, In r done -> exported r = true -> In y (ins_of m r) -> inn y = true -> bvb mk y = true
  }.

  Lemma G_fwd mk mk' done : G mk done -> postF exported m mk mk' -> sound mk' -> G mk' done.
  Proof.
    intros g P S. split; auto.
    - apply (pf_shape _ _ _ _ P).
    - intros x Hx. destruct (fvb mk x) eqn:E.
      + intros y Hy Hi. apply (pf_mono _ _ _ _ P). eapply (g_cf _ _ g); eauto.
      + apply (pf_new _ _ _ _ P); auto.
    - intros x Hx. rewrite (pf_bv _ _ _ _ P) in Hx. intros y Hy Hi. rewrite (pf_bv _ _ _ _ P). eapply (g_cb _ _ g); eauto.
    - intros r y Hr He Hy Hi. apply (pf_mono _ _ _ _ P). eapply (g_rf _ _ g); eauto.
    - intros r y Hr He Hy Hi. rewrite (pf_bv _ _ _ _ P). eapply (g_rb _ _ g); eauto.
  Qed.

  Lemma G_bwd mk mk' done : G mk done -> postB mk mk' -> sound mk' -> G mk' done.
  Proof.
    intros g P S. split; auto.
    - apply (pb_shape _ _ P).
    - intros x Hx. rewrite (pb_fv _ _ P) in Hx. intros y Hy Hi. rewrite (pb_fv _ _ P). eapply (g_cf _ _ g); eauto.
    - intros x Hx. destruct (bvb mk x) eqn:E.
      + intros y Hy Hi. apply (pb_mono _ _ P). eapply (g_cb _ _ g); eauto.
      + apply (pb_new _ _ P); auto.
    - intros r y Hr He Hy Hi. rewrite (pb_fv _ _ P). eapply (g_rf _ _ g); eauto.
    - intros r y Hr He Hy Hi. apply (pb_mono _ _ P). eapply (g_rb _ _ g); eauto.
  Qed.

  (* the two folds of one exported key *)
  Lemma fold_bwd done : forall l mk, G mk done -> (forall y, In y l -> inn y = true -> BR y) ->
    let mk' := fold_left (mark_re exported (S (length m)) m) l mk in
    G mk' done /\ (forall x, fvb mk' x = fvb mk x) /\ (forall x, bvb mk x = true -> bvb mk' x = true) /\
    (forall y, In y l -> inn y = true -> bvb mk' y = true).
  Proof.
    induction l as [|y l IH]; intros mk g Hl; cbn [fold_left]; cbn zeta.
    - split; [exact g|]. split; [reflexivity|]. split; [auto|]. intros y [].
    - assert (Hfuel : unvB mk < S (length m)) by (pose proof (unvB_le mk); lia).
      destruct (mark_re_post (S (length m)) mk y (g_shape _ _ g) Hfuel) as [P Q]. cbn zeta in P, Q.
      set (mk1 := mark_re exported (S (length m)) m mk y) in *.
      assert (S1 : sound mk1) by (apply mark_re_sound; [intros Hi; apply Hl; [left; reflexivity|exact Hi] | apply (g_sound _ _ g)]).
      pose proof (G_bwd mk mk1 done g P S1) as g1.
      destruct (IH mk1 g1 (fun z Hz => Hl z (or_intror Hz))) as [g2 [F2 [M2 Q2]]]. cbn zeta in g2, F2, M2, Q2.
      split; [exact g2|]. split; [|split].
      + intros x. rewrite F2. apply (pb_fv _ _ P).
      + intros x Hx. apply M2. apply (pb_mono _ _ P). exact Hx.
      + intros z [<-|Hz] Hi; [apply M2; apply Q; exact Hi | apply Q2; auto].
  Qed.

  Lemma fold_fwd done : forall l mk, G mk done -> (forall y, In y l -> inn y = true -> FR y) ->
    let mk' := fold_left (mark_rfe exported (S (length m)) m) l mk in
    G mk' done /\ (forall x, bvb mk' x = bvb mk x) /\ (forall x, fvb mk x = true -> fvb mk' x = true) /\
    (forall y, In y l -> inn y = true -> fvb mk' y = true).
  Proof.
    induction l as [|y l IH]; intros mk g Hl; cbn [fold_left]; cbn zeta.
    - split; [exact g|]. split; [reflexivity|]. split; [auto|]. intros y [].
    - assert (Hfuel : unvF exported m mk < S (length m)) by (pose proof (unvF_le mk); lia).
      destruct (mark_rfe_post exported m (S (length m)) mk y (g_shape _ _ g) Hfuel) as [P Q]. cbn zeta in P, Q.
      set (mk1 := mark_rfe exported (S (length m)) m mk y) in *.
      assert (S1 : sound mk1) by (apply mark_rfe_sound; [intros Hi; apply Hl; [left; reflexivity|exact Hi] | apply (g_sound _ _ g)]).
      pose proof (G_fwd mk mk1 done g P S1) as g1.
      destruct (IH mk1 g1 (fun z Hz => Hl z (or_intror Hz))) as [g2 [F2 [M2 Q2]]]. cbn zeta in g2, F2, M2, Q2.
      split; [exact g2|]. split; [|split].
      + intros x. rewrite F2. apply (pf_bv _ _ _ _ P).
      + intros x Hx. apply M2. apply (pf_mono _ _ _ _ P). exact Hx.
      + intros z [<-|Hz] Hi; [apply M2; apply Q; exact Hi | apply Q2; auto].
  Qed.

  Lemma inn_not_exported s : exported s = true -> inn s = false.
  Proof. intros H. unfold inner. rewrite H. apply andb_false_r. Qed.

  Definition add_root (mk : marks) (s : site) : marks := {| toExp := s :: toExp mk; rfe := rfe mk; re := re mk |}.

  Lemma add_root_G mk done s : G mk done -> exported s = true -> G (add_root mk s) done /\
    (forall x, fvb (add_root mk s) x = fvb mk x) /\ (forall x, bvb (add_root mk s) x = bvb mk x).
  Proof.
    intros g He. pose proof (inn_not_exported s He) as Hn.
    assert (Hb : mem s (re mk) = false).
    { destruct (mem s (re mk)) eqn:E; auto. destruct (proj2 (g_sound _ _ g) s) as [Hi _]; [unfold bvb; now rewrite E|congruence]. }
    assert (Hf : mem s (rfe mk) = false).
    { destruct (mem s (rfe mk)) eqn:E; auto. destruct (proj1 (g_sound _ _ g) s) as [Hi _]; [unfold fvb; now rewrite E|congruence]. }
    assert (Fv : forall x, fvb (add_root mk s) x = fvb mk x).
    { intros x. unfold fvb, add_root. cbn [toExp rfe re]. rewrite mem_cons. destruct (Nat.eqb x s) eqn:E; auto.
      apply Nat.eqb_eq in E. subst. rewrite Hb. cbn. now rewrite !andb_false_r. }
    assert (Bv : forall x, bvb (add_root mk s) x = bvb mk x).
    { intros x. unfold bvb, add_root. cbn [toExp rfe re]. rewrite mem_cons. destruct (Nat.eqb x s) eqn:E; auto.
      apply Nat.eqb_eq in E. subst. rewrite Hf. cbn. now rewrite !andb_false_r. }
    split; [|split; auto]. split.
    - destruct (g_shape _ _ g) as [H1 H2]. split; cbn [add_root toExp rfe re]; auto.
      intros x Hi Ht. rewrite mem_cons in Ht. destruct (Nat.eqb x s) eqn:E; [apply Nat.eqb_eq in E; subst; congruence|].
      apply H1; auto.
    - destruct (g_sound _ _ g) as [A B]. split; intros x Hx; [rewrite Fv in Hx|rewrite Bv in Hx]; auto.
    - intros x Hx y Hy Hi. rewrite Fv in *. eapply (g_cf _ _ g); eauto.
    - intros x Hx y Hy Hi. rewrite Bv in *. eapply (g_cb _ _ g); eauto.
    - intros r y Hr He' Hy Hi. rewrite Fv. eapply (g_rf _ _ g); eauto.
    - intros r y Hr He' Hy Hi. rewrite Bv. eapply (g_rb _ _ g); eauto.
  Qed.

  Lemma choose_step_G mk done kv : G mk done -> In (fst kv) (map fst m) -> G (choose_step exported m mk kv) (fst kv :: done).
  Proof.
    intros g Hk. unfold choose_step. set (s := fst kv) in *. destruct (exported s) eqn:He.
    - destruct (add_root_G mk done s g He) as [g0 [Fv0 Bv0]]. fold (add_root mk s).
      assert (Hroot : root s) by (split; auto).
      destruct (fold_bwd done (ins_of m s) (add_root mk s) g0) as [g1 [F1 [M1 Q1]]].
      { intros y Hy Hi. eapply BR_root; eauto. }
      cbn zeta in g1, F1, M1, Q1.
      set (mk1 := fold_left (mark_re exported (S (length m)) m) (ins_of m s) (add_root mk s)) in *.
      destruct (fold_fwd done (outs_of m s) mk1 g1) as [g2 [B2 [M2 Q2]]].
      { intros y Hy Hi. eapply FR_root; eauto. }
      cbn zeta in g2, B2, M2, Q2.
      set (mk2 := fold_left (mark_rfe exported (S (length m)) m) (outs_of m s) mk1) in *.
      split; try apply g2.
      + intros r y [<-|Hr] Her Hy Hi; [apply Q2; auto | eapply (g_rf _ _ g2); eauto].
      + intros r y [<-|Hr] Her Hy Hi; [rewrite B2; apply Q1; auto | eapply (g_rb _ _ g2); eauto].
    - split; try apply g.
      + intros r y [<-|Hr] Her Hy Hi; [congruence | eapply (g_rf _ _ g); eauto].
      + intros r y [<-|Hr] Her Hy Hi; [congruence | eapply (g_rb _ _ g); eauto].
  Qed.

  Lemma G_init : G {| toExp := []; rfe := []; re := [] |} [].
  Proof.
    split; cbn.
    - split; intros x; cbn; discriminate.
    - split; intros x; cbn; discriminate.
    - intros x; discriminate.
    - intros x; discriminate.
    - intros r y [].
    - intros r y [].
  Qed.

  Lemma fold_G : forall l mk done, G mk done -> (forall kv, In kv l -> In (fst kv) (map fst m)) ->
    G (fold_left (choose_step exported m) l mk) (rev (map fst l) ++ done).
  Proof.
    induction l as [|kv l IH]; intros mk done g Hl; cbn [fold_left map rev]; auto.
    rewrite <- app_assoc. cbn [app]. apply IH.
    - apply choose_step_G; auto. apply Hl. left. reflexivity.
    - intros kv' H. apply Hl. right. exact H.
  Qed.

  (* the chosen set is the convex closure between the exported sites *)
  Theorem choose_convex s : inn s = true ->
    (In s (choose_sites_to_export exported m) <-> FR s /\ BR s).
  Proof.
    intros Hi. unfold choose_sites_to_export. rewrite choose_marks_eq.
    pose proof (fold_G m _ [] G_init) as g.
    assert (Hall : forall kv, In kv m -> In (fst kv) (map fst m)) by (intros kv H; now apply in_map).
    specialize (g Hall). rewrite app_nil_r in g.
    set (mk := fold_left (choose_step exported m) m {| toExp := []; rfe := []; re := [] |}) in *.
    rewrite <- mem_In. rewrite (shape_T mk s (g_shape _ _ g) Hi). rewrite andb_true_iff.
    assert (Cf : forall x, FR x -> fvb mk x = true).
    { induction 1 as [r x [Hr He] Hx Hix | x' x Hx' IHx Hx Hix].
      - eapply (g_rf _ _ g); eauto. rewrite <- in_rev. exact Hr.
      - eapply (g_cf _ _ g); eauto. }
    assert (Cb : forall x, BR x -> bvb mk x = true).
    { induction 1 as [r x [Hr He] Hx Hix | x' x Hx' IHx Hx Hix].
      - eapply (g_rb _ _ g); eauto. rewrite <- in_rev. exact Hr.
      - eapply (g_cb _ _ g); eauto. }
    destruct (g_sound _ _ g) as [Sf Sb]. split.
    - intros [Hf Hb]. split; [apply (Sf s Hf) | apply (Sb s Hb)].
    - intros [Hf Hb]. split; auto.
  Qed.
End Main.
