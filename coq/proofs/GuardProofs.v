(* C02 on the model: a dereference protected by a nil check (model/Guard.v) only ever yields triggers whose
   producer never fires, so it can be part of no reported flow. *)
From Coq Require Import List Bool Arith PeanoNat Lia.
From NM Require Import Engine EngineSpec MiniGo Flow Guard.
From NP Require Import FlowProofs.
Import ListNotations.

Definition never (a : aset) : Prop := forall p, In p a -> kind_of p = KNever.
Definition Pinv (P : pset) (e : env) : Prop := forall x, pmem x P = true -> never (aget e x).
(* no trigger into a dereference has a producer that can fire *)
Definition safe (tr : list strig) : Prop := forall t, In t tr -> s_cons t = CAlways -> kind_of (s_prod t) = KNever.

Lemma pmem_in x P : pmem x P = true <-> In x P.
Proof.
  unfold pmem. rewrite existsb_exists. split.
  - intros [y [Hy E]]. apply var_eqb_eq in E. now subst.
  - intros H. exists x. split; auto. apply var_eqb_refl.
Qed.

Lemma pmem_premove y x P : pmem y (premove x P) = true -> y <> x /\ pmem y P = true.
Proof.
  rewrite !pmem_in. unfold premove. rewrite filter_In. intros [H1 H2]. split; auto.
  intros ->. rewrite var_eqb_refl in H2. discriminate.
Qed.

Lemma pmem_pinter x P Q : pmem x (pinter P Q) = true <-> pmem x P = true /\ pmem x Q = true.
Proof. rewrite (pmem_in x (pinter P Q)), (pmem_in x P). unfold pinter. rewrite filter_In. tauto. Qed.

Lemma pmem_cons y x P : pmem y (x :: P) = true <-> y = x \/ pmem y P = true.
Proof. rewrite !pmem_in. cbn. intuition. Qed.

Lemma Pinv_sub P Q e : (forall x, pmem x Q = true -> pmem x P = true) -> Pinv P e -> Pinv Q e.
Proof. intros H HP x Hx. apply HP. auto. Qed.

Lemma never_kill x a : never a -> never (map (kill_guard x) a).
Proof.
  intros H p Hp. apply in_map_iff in Hp. destruct Hp as [q [<- Hq]]. specialize (H q Hq).
  destruct q; cbn in *; try discriminate; auto.
Qed.
Lemma never_check x a : never a -> never (map (check_guard x) a).
Proof.
  intros H p Hp. apply in_map_iff in Hp. destruct Hp as [q [<- Hq]]. specialize (H q Hq).
  destruct q; cbn in *; try discriminate; auto.
Qed.
Lemma never_norm a : never a -> never (norm a).
Proof. intros H p Hp. apply H. now apply norm_in. Qed.
Lemma Pinv_kill P e x : Pinv P e -> Pinv P (env_map (kill_guard x) e).
Proof. intros H y Hy. rewrite aget_env_map by (apply kill_dflt). apply never_kill. auto. Qed.
Lemma Pinv_check P e x : Pinv P e -> Pinv P (env_map (check_guard x) e).
Proof. intros H y Hy. rewrite aget_env_map by (apply check_dflt). apply never_check. auto. Qed.

Lemma Pinv_join P Q e1 e2 : Pinv P e1 -> Pinv Q e2 -> Pinv (pinter P Q) (join e1 e2).
Proof.
  intros H1 H2 x Hx p Hp. apply pmem_pinter in Hx. destruct Hx as [Hx1 Hx2].
  apply aget_join in Hp. destruct Hp; [eapply H1 | eapply H2]; eauto.
Qed.

Lemma Pinv_put_never P e x a : Pinv P e -> never a -> Pinv (x :: P) (aput e x a).
Proof.
  intros H Ha y Hy. rewrite aget_aput. destruct (var_eqb x y) eqn:E; auto.
  apply pmem_cons in Hy. destruct Hy as [->|Hy]; [rewrite var_eqb_refl in E; discriminate|auto].
Qed.

Lemma Pinv_put_remove P e x a : Pinv P e -> Pinv (premove x P) (aput e x a).
Proof.
  intros H y Hy. apply pmem_premove in Hy. destruct Hy as [Hne Hy]. rewrite aget_aput.
  destruct (var_eqb x y) eqn:E; auto. apply var_eqb_eq in E. congruence.
Qed.

Lemma Pinv_putk_never P e x a : Pinv P e -> never a -> Pinv (x :: P) (aputk e x a).
Proof. intros H Ha. unfold aputk. apply Pinv_put_never; [now apply Pinv_kill | now apply never_kill]. Qed.
Lemma Pinv_putk_remove P e x a : Pinv P e -> Pinv (premove x P) (aputk e x a).
Proof. intros H. unfold aputk. apply Pinv_put_remove. now apply Pinv_kill. Qed.

Lemma Pinv_mark_stale ng P e : Pinv P e -> Pinv P (mark_stale ng e).
Proof.
  intros H x Hx p Hp. rewrite aget_mark_stale in Hp. destruct x as [i|k]; [eapply H; eauto|].
  destruct (Nat.ltb k ng && negb (fresh e k)); [|eapply H; eauto].
  destruct Hp as [<-|Hp]; [reflexivity | eapply H; eauto].
Qed.

Lemma Pinv_le P e1 e2 : Pinv P e2 -> env_le e1 e2 -> Pinv P e1.
Proof. intros H Hle x Hx p Hp. eapply H; eauto. Qed.

Lemma safe_app a b : safe (a ++ b) <-> safe a /\ safe b.
Proof.
  unfold safe. split.
  - intros H. split; intros t Ht; apply H; apply in_or_app; auto.
  - intros [H1 H2] t Ht. apply in_app_or in Ht. destruct Ht; auto.
Qed.

Lemma safe_cond_cons (a : aset) id k : safe (map (fun p => mk_trigger id p (CSite k)) a).
Proof. intros t Ht. apply in_map_iff in Ht. destruct Ht as [p [<- _]]. cbn. discriminate. Qed.

Lemma safe_deref (a : aset) d : never a -> safe (map (fun p => mk_trigger d p CAlways) a).
Proof. intros H t Ht _. apply in_map_iff in Ht. destruct Ht as [p [<- Hp]]. cbn. auto. Qed.

Lemma safe_store x a : safe (store_triggers x a).
Proof. destruct x; cbn; [intros t []|apply safe_cond_cons]. Qed.

Lemma safe_args e sf : forall args i, safe (arg_triggers e sf i args).
Proof.
  induction args as [|a args IH]; intros i; cbn; [intros t []|].
  apply safe_app. split; [apply safe_cond_cons|apply IH].
Qed.

(* conditions *)
Lemma cond_prot_mono c : forall P Pt Pf ok x, cond_prot c P = (Pt, Pf, ok) -> pmem x P = true -> pmem x Pt = true /\ pmem x Pf = true.
Proof.
  induction c as [|y|d y|c IH|c1 IH1 c2 IH2|c1 IH1 c2 IH2]; intros P Pt Pf ok x H Hx; cbn in H.
  - inversion H; subst; auto.
  - inversion H; subst. split; auto. apply pmem_cons. auto.
  - inversion H; subst; auto.
  - destruct (cond_prot c P) as [[Pt1 Pf1] ok1] eqn:E. inversion H; subst. destruct (IH _ _ _ _ x E Hx). auto.
  - destruct (cond_prot c1 P) as [[Pt1 Pf1] ok1] eqn:E1. destruct (cond_prot c2 Pt1) as [[Pt2 Pf2] ok2] eqn:E2.
    inversion H; subst. destruct (IH1 _ _ _ _ x E1 Hx) as [A1 A2]. destruct (IH2 _ _ _ _ x E2 A1) as [B1 B2].
    split; auto. apply pmem_pinter. auto.
  - destruct (cond_prot c1 P) as [[Pt1 Pf1] ok1] eqn:E1. destruct (cond_prot c2 Pf1) as [[Pt2 Pf2] ok2] eqn:E2.
    inversion H; subst. destruct (IH1 _ _ _ _ x E1 Hx) as [A1 A2]. destruct (IH2 _ _ _ _ x E2 A2) as [B1 B2].
    split; auto. apply pmem_pinter. auto.
Qed.

Lemma acond_prot c : forall P e et ef tr b Pt Pf,
  Pinv P e -> acond c e = (et, ef, tr, b) -> cond_prot c P = (Pt, Pf, true) ->
  Pinv Pt et /\ Pinv Pf ef /\ safe tr.
Proof.
  induction c as [|y|d y|c IH|c1 IH1 c2 IH2|c1 IH1 c2 IH2]; intros P e et ef tr b Pt Pf HP Ha Hc; cbn in Ha, Hc.
  - inversion Ha; inversion Hc; subst. repeat split; auto. intros t [].
  - inversion Ha; inversion Hc; subst. repeat split; auto; [|now apply Pinv_check|intros t []].
    apply Pinv_put_never; auto. intros p [<-|[]]. reflexivity.
  - inversion Ha; inversion Hc as [[E1 E2 E3]]; subst. repeat split; auto. apply safe_deref. apply never_norm. apply HP. auto.
  - destruct (acond c e) as [[[et1 ef1] tr1] b1] eqn:E1. destruct (cond_prot c P) as [[Pt1 Pf1] ok1] eqn:E2.
    inversion Ha; inversion Hc; subst. destruct (IH _ _ _ _ _ _ _ _ HP E1 E2) as [A [B D]]. auto.
  - destruct (acond c1 e) as [[[et1 ef1] tr1] b1] eqn:E1. destruct (acond c2 et1) as [[[et2 ef2] tr2] b2] eqn:E2.
    destruct (cond_prot c1 P) as [[Pt1 Pf1] ok1] eqn:F1. destruct (cond_prot c2 Pt1) as [[Pt2 Pf2] ok2] eqn:F2.
    inversion Ha; inversion Hc as [[G1 G2 G3]]; subst. apply andb_true_iff in G3. destruct G3 as [-> ->].
    destruct (IH1 _ _ _ _ _ _ _ _ HP E1 F1) as [A [B D]]. destruct (IH2 _ _ _ _ _ _ _ _ A E2 F2) as [A' [B' D']].
    repeat split; auto; [now apply Pinv_join | apply safe_app; auto].
  - destruct (acond c1 e) as [[[et1 ef1] tr1] b1] eqn:E1. destruct (acond c2 ef1) as [[[et2 ef2] tr2] b2] eqn:E2.
    destruct (cond_prot c1 P) as [[Pt1 Pf1] ok1] eqn:F1. destruct (cond_prot c2 Pf1) as [[Pt2 Pf2] ok2] eqn:F2.
    inversion Ha; inversion Hc as [[G1 G2 G3]]; subst. apply andb_true_iff in G3. destruct G3 as [-> ->].
    destruct (IH1 _ _ _ _ _ _ _ _ HP E1 F1) as [A [B D]]. destruct (IH2 _ _ _ _ _ _ _ _ B E2 F2) as [A' [B' D']].
    repeat split; auto; [now apply Pinv_join | apply safe_app; auto].
Qed.

(* a variable that a statement does not assign stays protected across it *)
Lemma prot_frame st : forall P P' ok x,
  stmt_prot st P = (Some P', ok) -> pmem x P = true -> ~ In x (assigned st) -> pmem x P' = true.
Proof.
  induction st as [| s1 IH1 s2 IH2 | y a | cs y g args | d y | c s1 IH1 s2 IH2 | c body IH | a | y ik j | y z ik ik2 | cs d y xi ik m args | a er | cs y ye g args | cs g args]; intros P P' ok x H Hx Hn; cbn in H, Hn.
  - inversion H; subst; auto.
  - destruct (stmt_prot s1 P) as [[P1|] ok1] eqn:E1; [|discriminate].
    destruct (stmt_prot s2 P1) as [o2 ok2] eqn:E2. inversion H; subst.
    eapply IH2; eauto. + eapply IH1; eauto. intros Hi. apply Hn. apply in_or_app. auto.
    + intros Hi. apply Hn. apply in_or_app. auto.
  - inversion H; subst. assert (x <> y) by (intros ->; apply Hn; left; reflexivity).
    assert (R : pmem x (premove y P) = true).
    { apply pmem_in. unfold premove. apply filter_In. split; [now apply pmem_in|].
      destruct (var_eqb y x) eqn:E; auto. apply var_eqb_eq in E. congruence. }
    destruct a as [| |z]; auto; [apply pmem_cons; auto|].
    destruct (pmem z P); auto. apply pmem_cons; auto.
  - inversion H; subst. destruct y as [y|]; auto.
    assert (x <> y) by (intros ->; apply Hn; left; reflexivity).
    apply pmem_in. unfold premove. apply filter_In. split; [now apply pmem_in|].
    destruct (var_eqb y x) eqn:E; auto. apply var_eqb_eq in E. congruence.
  - inversion H; subst; auto.
  - destruct (cond_prot c P) as [[Pt Pf] okc] eqn:Ec.
    destruct (stmt_prot s1 Pt) as [oa oka] eqn:E1. destruct (stmt_prot s2 Pf) as [ob okb] eqn:E2.
    inversion H as [[Ho Hok]]. destruct (cond_prot_mono _ _ _ _ _ x Ec Hx) as [Xt Xf].
    assert (N1 : ~ In x (assigned s1)) by (intros Hi; apply Hn; apply in_or_app; auto).
    assert (N2 : ~ In x (assigned s2)) by (intros Hi; apply Hn; apply in_or_app; auto).
    destruct oa as [Pa|], ob as [Pb|]; cbn in Ho; inversion Ho; subst.
    + apply pmem_pinter. split; [eapply IH1 | eapply IH2]; eauto.
    + eapply IH1; eauto.
    + eapply IH2; eauto.
  - destruct (cond_prot c (filter (fun x0 => negb (pmem x0 (assigned body))) P)) as [[Pt Pf] okc] eqn:Ec.
    destruct (stmt_prot body Pt) as [ob okb] eqn:Eb. inversion H; subst.
    assert (X : pmem x (filter (fun x0 => negb (pmem x0 (assigned body))) P) = true).
    { apply pmem_in. apply filter_In. split; [now apply pmem_in|].
      destruct (pmem x (assigned body)) eqn:E; auto. apply pmem_in in E. contradiction. }
    destruct (cond_prot_mono _ _ _ _ _ x Ec X). auto.
  - discriminate.
  - inversion H; subst. apply pmem_cons. auto.
  - inversion H; subst. assert (x <> y) by (intros ->; apply Hn; left; reflexivity).
    assert (R : pmem x (premove y P) = true).
    { apply pmem_in. unfold premove. apply filter_In. split; [now apply pmem_in|].
      destruct (var_eqb y x) eqn:E; auto. apply var_eqb_eq in E. congruence. }
    destruct (pmem z P); auto. apply pmem_cons; auto.
  - inversion H; subst. destruct y as [y|]; auto.
    assert (x <> y) by (intros ->; apply Hn; left; reflexivity).
    apply pmem_in. unfold premove. apply filter_In. split; [now apply pmem_in|].
    destruct (var_eqb y x) eqn:E; auto. apply var_eqb_eq in E. congruence.
  - discriminate.
  - inversion H; subst.
    assert (R : forall z Q, pmem x Q = true -> x <> z -> pmem x (premove z Q) = true).
    { intros z Q Hq Hne. apply pmem_in. unfold premove. apply filter_In. split; [now apply pmem_in|].
      destruct (var_eqb z x) eqn:E; auto. apply var_eqb_eq in E. congruence. }
    destruct y as [y|], ye as [ye|]; cbn in Hn; auto;
      repeat (apply R; [|intros ->; apply Hn; cbn; auto]); auto.
  - discriminate.
Qed.

Section Analysis.
  Variable ng : nat.
  Variable ctr : fname -> bool.
  Variable sp : fname -> bool.
  Variable f : fname.
  Variable fuel : nat.

  Lemma loop_prot (an : env -> option ares) c P' : forall n e einv r,
    Pinv P' e -> loop_inv an c n e = Some (einv, r) ->
    (forall e0 r0 eb, Pinv P' e0 -> an (cond_true c e0) = Some r0 -> a_env r0 = Some eb -> Pinv P' eb) ->
    Pinv P' einv.
  Proof.
    induction n as [|n IH]; intros e einv r HP H Hb; cbn in H; [discriminate|].
    destruct (an (cond_true c e)) as [r0|] eqn:Ea; [|discriminate].
    destruct (a_env r0) as [eb|] eqn:Eb.
    - destruct (env_leb eb e).
      + inversion H; subst; auto.
      + eapply IH; [|exact H|exact Hb].
        eapply Pinv_sub; [|apply Pinv_join; [exact HP | eapply Hb; eauto]].
        intros x Hx. apply pmem_pinter. auto.
    - inversion H; subst; auto.
  Qed.

  Theorem analyze_prot : forall st e r P oP,
    Pinv P e -> analyze ng ctr sp f fuel st e = Some r -> stmt_prot st P = (oP, true) ->
    safe (a_trig r) /\ forall e', a_env r = Some e' -> exists P', oP = Some P' /\ Pinv P' e'.
  Proof.
    induction st as [| s1 IH1 s2 IH2 | y a | cs y g args | d y | c s1 IH1 s2 IH2 | c body IH | a | y ik j | y z ik ik2 | cs d y xi ik m args | a er | cs y ye g args | cs g args]; intros e r P oP HP Han Hs; cbn in Han, Hs.
    - inversion Han; inversion Hs; subst; cbn. split; [intros t []|]. intros e' He. inversion He; subst. eauto.
    - destruct (analyze ng ctr sp f fuel s1 e) as [r1|] eqn:E1; [|discriminate].
      destruct (stmt_prot s1 P) as [[P1|] ok1] eqn:F1.
      + destruct (stmt_prot s2 P1) as [o2 ok2] eqn:F2. inversion Hs as [[Ho Hok]]. apply andb_true_iff in Hok. destruct Hok as [-> ->].
        destruct (IH1 _ _ _ _ HP E1 F1) as [S1 N1].
        destruct (a_env r1) as [e1|] eqn:Ee1.
        * destruct (analyze ng ctr sp f fuel s2 e1) as [r2|] eqn:E2; [|discriminate]. inversion Han; subst; cbn.
          destruct (N1 e1 eq_refl) as [P1' [HP1 HI1]]. inversion HP1; subst P1'.
          destruct (IH2 _ _ _ _ HI1 E2 F2) as [S2 N2]. split; [apply safe_app; auto|exact N2].
        * inversion Han; subst. split; auto. rewrite Ee1. discriminate.
      + inversion Hs; subst. destruct (IH1 _ _ _ _ HP E1 F1) as [S1 N1].
        destruct (a_env r1) as [e1|] eqn:Ee1.
        * destruct (N1 e1 eq_refl) as [P1' [HP1 _]]. discriminate.
        * inversion Han; subst. split; auto. rewrite Ee1. discriminate.
    - inversion Han; inversion Hs; subst; cbn. split; [apply safe_store|]. intros e' He. inversion He; subst.
      eexists; split; eauto. destruct a as [| |z]; cbn.
      + apply Pinv_putk_remove; auto.
      + apply Pinv_putk_never; auto. intros p [<-|[]]. reflexivity.
      + destruct (pmem z P) eqn:Ez; [apply Pinv_putk_never; auto | apply Pinv_putk_remove; auto].
    - inversion Han; inversion Hs; subst; cbn. split.
      + apply safe_app. split; [apply safe_args|]. destruct y; [apply safe_store|intros t []].
      + intros e' He. inversion He; subst. eexists; split; eauto. destruct y as [y|].
        * apply Pinv_putk_remove. now apply Pinv_mark_stale.
        * now apply Pinv_mark_stale.
    - inversion Han; inversion Hs as [[Ho Hm]]; subst; cbn. split; [apply safe_deref; apply never_norm; auto|].
      intros e' He. inversion He; subst. eauto.
    - destruct (acond c e) as [[[et ef] trc] bc] eqn:Ec. destruct (cond_prot c P) as [[Pt Pf] okc] eqn:Fc.
      destruct (analyze ng ctr sp f fuel s1 et) as [r1|] eqn:E1; [|discriminate].
      destruct (analyze ng ctr sp f fuel s2 ef) as [r2|] eqn:E2; [|discriminate].
      destruct (stmt_prot s1 Pt) as [oa oka] eqn:F1. destruct (stmt_prot s2 Pf) as [ob okb] eqn:F2.
      inversion Han; inversion Hs as [[Ho Hok]]; subst; cbn.
      apply andb_true_iff in Hok. destruct Hok as [Hok ->]. apply andb_true_iff in Hok. destruct Hok as [-> ->].
      destruct (acond_prot _ _ _ _ _ _ _ _ _ HP Ec Fc) as [At [Af Sc]].
      destruct (IH1 _ _ _ _ At E1 F1) as [S1 N1]. destruct (IH2 _ _ _ _ Af E2 F2) as [S2 N2].
      split; [apply safe_app; split; auto; apply safe_app; auto|].
      intros e' He. destruct (a_env r1) as [e1|] eqn:Ee1, (a_env r2) as [e2|] eqn:Ee2; cbn in He; inversion He; subst.
      * destruct (N1 _ eq_refl) as [Pa [-> Ia]]. destruct (N2 _ eq_refl) as [Pb [-> Ib]].
        eexists; split; [reflexivity|]. now apply Pinv_join.
      * destruct (N1 _ eq_refl) as [Pa [-> Ia]]. destruct ob as [Pb|]; cbn; eexists; split; eauto.
        eapply Pinv_sub; [|exact Ia]. intros x Hx. apply pmem_pinter in Hx. tauto.
      * destruct (N2 _ eq_refl) as [Pb [-> Ib]]. destruct oa as [Pa|]; cbn; eexists; split; eauto.
        eapply Pinv_sub; [|exact Ib]. intros x Hx. apply pmem_pinter in Hx. tauto.
    - destruct (loop_inv (analyze ng ctr sp f fuel body) c fuel e) as [[einv r0]|] eqn:El; [|discriminate].
      set (P' := filter (fun x => negb (pmem x (assigned body))) P) in *.
      destruct (cond_prot c P') as [[Pt Pf] okc] eqn:Fc. destruct (stmt_prot body Pt) as [ob okb] eqn:Fb.
      inversion Hs as [[Ho Hok]]. apply andb_true_iff in Hok. destruct Hok as [-> ->]. subst oP.
      assert (HP' : Pinv P' e).
      { eapply Pinv_sub; [|exact HP]. intros x Hx. apply pmem_in in Hx. apply filter_In in Hx. apply pmem_in. tauto. }
      assert (Hbody : forall e0 r1 eb, Pinv P' e0 -> analyze ng ctr sp f fuel body (cond_true c e0) = Some r1 -> a_env r1 = Some eb -> Pinv P' eb).
      { intros e0 r1 eb H0 Ha He. unfold cond_true in Ha. destruct (acond c e0) as [[[et0 ef0] tr0] b0] eqn:Ec0. cbn in Ha.
        destruct (acond_prot _ _ _ _ _ _ _ _ _ H0 Ec0 Fc) as [At _].
        destruct (IH _ _ _ _ At Ha Fb) as [_ N]. destruct (N _ He) as [Pe [-> Ie]].
        eapply Pinv_sub; [|exact Ie]. intros x Hx.
        eapply prot_frame; eauto.
        - destruct (cond_prot_mono _ _ _ _ _ x Fc Hx). auto.
        - apply pmem_in in Hx. apply filter_In in Hx. destruct Hx as [_ Hx]. intros Hi. apply pmem_in in Hi. rewrite Hi in Hx. discriminate. }
      pose proof (loop_prot _ c P' _ _ _ _ HP' El Hbody) as Hinv.
      destruct (loop_inv_spec _ _ _ _ _ _ El) as [_ [Hr0 _]]. unfold cond_true in Hr0.
      destruct (acond c einv) as [[[et ef] trc] bc] eqn:Ec. cbn in Hr0. inversion Han; subst; cbn.
      destruct (acond_prot _ _ _ _ _ _ _ _ _ Hinv Ec Fc) as [At [Af Sc]].
      destruct (IH _ _ _ _ At Hr0 Fb) as [Sb _].
      split; [apply safe_app; auto|]. intros e' He. inversion He; subst. eauto.
    - inversion Han; inversion Hs; subst; cbn. split; [apply safe_cond_cons|]. discriminate.
    - inversion Han; inversion Hs; subst; cbn. split; [apply safe_store|]. intros e' He. inversion He; subst.
      eexists; split; eauto. apply Pinv_putk_never; auto. intros p [<-|[]]. reflexivity.
    - inversion Han; inversion Hs; subst; cbn. split; [apply safe_store|]. intros e' He. inversion He; subst.
      eexists; split; eauto.
      destruct (pmem z P) eqn:Ez; [apply Pinv_putk_never; auto | apply Pinv_putk_remove; auto].
    - inversion Han; inversion Hs as [[Ho Hm]]; subst; cbn. split.
      + apply safe_app. split; [apply safe_deref; apply never_norm; auto|]. apply safe_app. split; [apply safe_args|].
        destruct y; [apply safe_store|intros t []].
      + intros e' He. inversion He; subst. eexists; split; eauto. destruct y as [y|].
        * apply Pinv_putk_remove. now apply Pinv_mark_stale.
        * now apply Pinv_mark_stale.
    - inversion Han; inversion Hs; subst; cbn. split; [|discriminate].
      destruct (forallb _ (prods_of_atom e er)); [intros t []|apply safe_cond_cons].
    - inversion Han; inversion Hs; subst; cbn. split; [apply safe_args|].
      intros e' He. inversion He; subst. eexists; split; eauto.
      assert (H0 : Pinv P (mark_stale ng e)) by (now apply Pinv_mark_stale).
      destruct y as [y|], ye as [ye|].
      + intros x Hx p Hp. apply pmem_premove in Hx. destruct Hx as [N1 Hx]. apply pmem_premove in Hx. destruct Hx as [N2 Hx].
        rewrite !aget_aput in Hp.
        destruct (var_eqb y x) eqn:E1; [apply var_eqb_eq in E1; congruence|].
        destruct (var_eqb ye x) eqn:E2; [apply var_eqb_eq in E2; congruence|].
        revert p Hp. apply (Pinv_kill P _ ye (Pinv_kill P _ y H0)); auto.
      + apply Pinv_put_remove. apply Pinv_kill. exact H0.
      + apply Pinv_put_remove. apply Pinv_kill. exact H0.
      + exact H0.
    - inversion Han; inversion Hs; subst; cbn. split; [|discriminate].
      apply safe_app. split; [apply safe_args|]. intros t [<-|[]]. cbn. discriminate.
  Qed.
End Analysis.

(* whole programs: all dereferences protected => the emitted constraints contain no sink at all, hence no flow *)
Lemma safe_no_sink ts : safe ts -> forall t a, In t ts -> In a (atoms_of_trigger (etrig t)) ->
  match a with ASnk _ | ADirect _ => False | _ => True end.
Proof.
  intros H t a Ht Ha. unfold atoms_of_trigger, atom_of_kinds, etrig in Ha. cbn in Ha.
  destruct (s_cons t) eqn:Ec.
  - rewrite (H t Ht Ec) in Ha. contradiction.
  - destruct (kind_of (s_prod t)); cbn in Ha; try contradiction; destruct Ha as [<-|[]]; auto.
Qed.

Lemma safe_decl gi : forall k, safe (decl_triggers k gi).
Proof.
  induction gi as [|b gi IH]; intros k; cbn; [intros t []|]. apply safe_app. split; auto.
  destruct b; [intros t []|]. intros t [<-|[]]. cbn. discriminate.
Qed.

Lemma analyze_funcs_safe ng fuel ctr sp : forall fds f0 tss b,
  analyze_funcs ng fuel ctr sp f0 fds = Some (tss, b) ->
  forallb (fun fd => snd (stmt_prot (f_body fd) [])) fds = true -> forall tg, In tg tss -> safe tg.
Proof.
  induction fds as [|fd fds IH]; intros f0 tss b H Hg; cbn in H.
  - inversion H; subst. intros tg [].
  - cbn in Hg. apply andb_true_iff in Hg. destruct Hg as [Hg1 Hg2].
    destruct (analyze_func ng fuel ctr (sp f0) f0 fd) as [[t1 b1]|] eqn:E1; [|discriminate].
    destruct (analyze_funcs ng fuel ctr sp (S f0) fds) as [[t2 b2]|] eqn:E2; [|discriminate].
    inversion H; subst. intros tg [<-|Hin]; [|eapply IH; eauto].
    unfold analyze_func in E1.
    destruct (analyze ng ctr (sp f0) f0 fuel (f_body fd) (entry_env f0 0 (f_nparams fd))) as [r|] eqn:Ea; [|discriminate].
    inversion E1; subst.
    destruct (stmt_prot (f_body fd) []) as [oP ok] eqn:Es. cbn in Hg1. subst ok.
    assert (HP : Pinv [] (entry_env f0 0 (f_nparams fd))) by (intros x Hx; discriminate).
    destruct (analyze_prot ng ctr (sp f0) f0 fuel _ _ _ _ _ HP Ea Es) as [S _].
    destruct (a_env r); auto. apply safe_app. split; auto. intros t [<-|[]]. cbn. discriminate.
Qed.

Lemma safe_concat tss : (forall tg, In tg tss -> safe tg) -> safe (concat tss).
Proof.
  intros H t Ht. apply in_concat in Ht. destruct Ht as [tg [H1 H2]]. exact (H tg H1 t H2).
Qed.

(* duplicating a trigger onto a call site keeps it harmless *)
Lemma safe_dups g cs tg : safe tg -> safe (dups g cs tg).
Proof.
  intros H t Ht Hc. unfold dups in Ht. apply in_map_iff in Ht. destruct Ht as [t0 [<- Ht0]].
  apply filter_In in Ht0. destruct Ht0 as [Ht0 _]. unfold dupt in Hc |- *. cbn in Hc |- *.
  destruct (is_res_cons g t0) eqn:Er; [discriminate|].
  specialize (H t0 Ht0 Hc). destruct (is_param_prod g t0) eqn:Ep; auto.
  unfold is_param_prod in Ep. apply prod_eqb_eq in Ep. rewrite Ep in H. discriminate.
Qed.

Lemma safe_nth (tss : list (list strig)) g : (forall tg, In tg tss -> safe tg) -> safe (nth g tss []).
Proof.
  intros H. destruct (nth_in_or_default g tss []) as [Hin|E]; [auto | rewrite E; intros t []].
Qed.

Lemma safe_dups_all ctr sp tss : (forall tg, In tg tss -> safe tg) -> forall fds f0 dg, In dg (dups_all ctr sp tss f0 fds) -> safe dg.
Proof.
  intros H. induction fds as [|fd fds IH]; intros f0 dg Hin; cbn in Hin; [contradiction|].
  destruct Hin as [<-|Hin]; [|eapply IH; eauto].
  unfold dups_of_caller. intros t Ht. apply in_flat_map in Ht. destruct Ht as [[g cs] [_ Ht]]. cbn in Ht.
  destruct (ctr g && sp f0 g); [|contradiction]. revert t Ht. apply safe_dups. now apply safe_nth.
Qed.

Lemma safe_iaffil p kk : safe (iaffil p kk).
Proof.
  unfold iaffil. generalize 0. induction (isig p (fst kk)) as [|np sig IH]; intros m; cbn [ilink_methods]; [intros t []|].
  apply safe_app. split; [|apply IH]. unfold ilink_method.
  intros t [<-|Ht]; [cbn; discriminate|]. apply in_map_iff in Ht. destruct Ht as [i [<- _]]. cbn. discriminate.
Qed.

Lemma safe_affil p kj : safe (affil p kj).
Proof.
  unfold affil. generalize 0. induction (firstn (length (isig p (fst kj))) (nth (snd kj) (p_impls p) [])) as [|f row IH]; intros m; cbn; [intros t []|].
  apply safe_app. split; [|apply IH].
  destruct (nth_error (p_funcs p) f); [|intros t []]. unfold affil_method.
  intros t [<-|Ht]; [cbn; discriminate|]. apply in_map_iff in Ht. destruct Ht as [i [<- _]]. cbn. discriminate.
Qed.

Lemma safe_drop rs sp : forall tss f, (forall tg, In tg tss -> safe tg) -> forall tg, In tg (drop_safe rs sp f tss) -> safe tg.
Proof.
  induction tss as [|ts tss IH]; intros f H tg Hin; cbn in Hin; [contradiction|].
  destruct Hin as [<-|Hin].
  - intros t Ht. apply filter_In in Ht. destruct Ht as [Ht _]. apply (H ts); auto. left; reflexivity.
  - eapply IH; eauto. intros tg' Hi. apply H. right; auto.
Qed.

Theorem guarded_no_flow prog afuel ctr pk r :
  guarded prog = true -> analyze_program afuel ctr pk prog = Some r -> ~ has_flow (csys_of [] [] (all_triggers r)).
Proof.
  intros Hg Han. unfold analyze_program in Han.
  set (sp2 := fun f g : fname => Nat.eqb (pk f) (pk g)) in *.
  destruct (analyze_funcs (length (p_ginit prog)) afuel ctr sp2 0 (p_funcs prog)) as [[tss b]|] eqn:Ef; [|discriminate].
  inversion Han; subst. unfold all_triggers, all_strigs. cbn [r_decl r_funcs r_dups r_affil].
  pose proof (analyze_funcs_safe _ _ _ _ _ _ _ _ Ef Hg) as Sf.
  set (TS := drop_safe (rsafe_all (length (p_ginit prog)) afuel ctr sp2 0 (p_funcs prog)) sp2 0 tss) in *.
  set (AF := map (fun fd => flat_map (affil prog) (convs_of (f_body fd)) ++ flat_map (iaffil prog) (iconvs_of (f_body fd))) (p_funcs prog)) in *.
  assert (S : safe (decl_triggers 0 (p_ginit prog) ++ concat TS ++ concat (dups_all ctr sp2 tss 0 (p_funcs prog)) ++ concat AF)).
  { apply safe_app. split; [apply safe_decl|]. apply safe_app. split; [apply safe_concat; intros tg Htg; eapply safe_drop; eauto|].
    apply safe_app. split.
    - apply safe_concat. intros dg Hd. eapply safe_dups_all; eauto.
    - apply safe_concat. intros ag Ha. unfold AF in Ha. apply in_map_iff in Ha. destruct Ha as [fd [<- _]].
      intros t Ht. apply in_app_or in Ht. destruct Ht as [Ht|Ht]; apply in_flat_map in Ht; destruct Ht as [kj [_ Ht]];
        [exact (safe_affil prog kj t Ht) | exact (safe_iaffil prog kj t Ht)]. }
  set (ALLs := decl_triggers 0 (p_ginit prog) ++ concat TS ++ concat (dups_all ctr sp2 tss 0 (p_funcs prog)) ++ concat AF) in *.
  assert (NoSink : forall a, act (csys_of [] [] (map etrig ALLs)) a -> match a with ASnk _ | ADirect _ => False | _ => True end).
  { intros a [Ha|[k [Ha _]]]; unfold csys_of in Ha; cbn in Ha.
    - apply in_flat_map in Ha. destruct Ha as [t [Ht Ha]].
      apply filter_In in Ht. destruct Ht as [Ht _]. apply in_map_iff in Ht. destruct Ht as [t0 [<- Ht0]].
      eapply safe_no_sink; eauto.
    - apply in_flat_map in Ha. destruct Ha as [t [Ht Ha]]. destruct (t_ctrl t) as [k'|]; [|contradiction].
      apply in_map_iff in Ha. destruct Ha as [a' [Ea Ha]]. inversion Ea; subst.
      apply in_map_iff in Ht. destruct Ht as [t0 [<- Ht0]]. eapply safe_no_sink; eauto. }
  intros [[t Ht]|[s [_ Hs]]].
  - exact (NoSink _ Ht).
  - induction Hs as [s Ha|p c t Ha Hc IH]; auto. exact (NoSink _ Ha).
Qed.
