From Coq Require Import List Bool Arith ZArith Lia.
From NM Require Import Diag Report.
From NG Require Import Consts.
Import ListNotations.

Lemma over_conflict_pos id nil_chain nonnil_chain r :
  nonnil_chain <> [] -> last nonnil_chain r = r ->
  c_pos (over_conflict id nil_chain nonnil_chain) = rs_pos r.
Proof.
  intros Hne Hlast. cbn.
  destruct nonnil_chain as [|x l] using rev_ind; [congruence|].
  rewrite rev_app_distr. cbn. rewrite last_last in Hlast. now subst.
Qed.

Lemma over_conflict_flow id nil_chain nonnil_chain :
  nonnil_chain <> [] -> c_nonnil (over_conflict id nil_chain nonnil_chain) <> [] /\
  length (c_nonnil (over_conflict id nil_chain nonnil_chain)) = length nonnil_chain /\
  length (c_nil (over_conflict id nil_chain nonnil_chain)) = length nil_chain.
Proof.
  intros H. cbn. rewrite rev_length, !map_length. repeat split; auto.
  destruct nonnil_chain; [congruence|discriminate].
Qed.

(* the last flow step IS the reported step: same reason *)
Lemma over_conflict_last_step id nil_chain nonnil_chain r :
  nonnil_chain <> [] -> last nonnil_chain r = r ->
  last (c_nonnil (over_conflict id nil_chain nonnil_chain)) (rs_node r) = rs_node r.
Proof.
  intros Hne Hlast. cbn.
  destruct nonnil_chain as [|x l] using rev_ind; [congruence|].
  rewrite last_last in Hlast. subst x. rewrite map_app. cbn. apply last_last.
Qed.

Lemma single_conflict_flow id p n src : c_pos (single_conflict id p n src) = p /\ c_nonnil (single_conflict id p n src) = [n].
Proof. split; reflexivity. Qed.

Open Scope Z_scope.
Definition to_pos := to_pos_fake fake_file_max_lines topos_regrows topos_sized_by_line.

(* with the regenerated constants and guards: every line >= 1 gets a valid position on that very line,
   whatever fake file already exists for the name *)
Lemma to_pos_total existing line : 1 <= line -> to_pos existing line = Some line.
Proof.
  intros H. unfold to_pos, to_pos_fake, fake_size, topos_regrows, topos_sized_by_line.
  assert (H1 : (1 <=? line) = true) by (apply Z.leb_le; lia). rewrite H1.
  assert (H2 : (line <=? Z.max fake_file_max_lines line) = true) by (apply Z.leb_le; lia).
  destruct existing as [sz|]; lazy beta iota; cbn [andb].
  - destruct (sz <? line) eqn:E; lazy beta iota.
    + now rewrite H2.
    + apply Z.ltb_ge in E. assert (H3 : (line <=? sz) = true) by (apply Z.leb_le; lia). now rewrite H3.
  - now rewrite H2.
Qed.

(* what the pinned code did (fixed size, no regrowth): the panic is reachable *)
Lemma to_pos_unguarded_refuted : to_pos_fake fake_file_max_lines false false None 70000 = None.
Proof. reflexivity. Qed.
