(* M15 proofs: stripping the escape sequences from the pretty-printed message gives back `error: ` and the plain message *)
From Coq Require Import List NArith Bool.
From NM Require Import Pretty.
Import ListNotations.
Open Scope N_scope.

(* ---------- first lemmas: one delimiter pass over an ESC-free message is undone by strip ---------- *)
Definition escfree (l : list N) : Prop := forall c, In c l -> c <> ESC.

Lemma strip_escfree_app : forall a b, escfree a -> strip SNormal (a ++ b) = a ++ strip SNormal b.
Proof.
  induction a as [|c a IH]; intros b H; [reflexivity|].
  cbn [app strip]. destruct (N.eqb_spec c ESC) as [E|E]; [exfalso; apply (H c); [left; reflexivity|exact E]|].
  f_equal. apply IH. intros x Hx. apply H. right. exact Hx.
Qed.

Lemma strip_csi : forall code acc b, forallb is_param code = true -> strip (SCsi acc) (code ++ CM :: b) = strip SNormal b.
Proof.
  induction code as [|c code IH]; intros acc b H.
  - cbn [app strip]. change (is_param CM) with false. cbn iota. rewrite N.eqb_refl. reflexivity.
  - cbn [forallb] in H. apply andb_true_iff in H. destruct H as [Hc H]. cbn [app strip]. rewrite Hc. apply IH. exact H.
Qed.

Lemma strip_esc : forall code b, forallb is_param code = true -> strip SNormal (esc code ++ b) = strip SNormal b.
Proof.
  intros code b H. unfold esc. cbn [app strip]. rewrite N.eqb_refl. cbn [strip]. rewrite N.eqb_refl.
  rewrite <- app_assoc. cbn [app]. apply strip_csi. exact H.
Qed.

Lemma dpass_strip : forall d co cc, d <> ESC -> forallb is_param co = true -> forallb is_param cc = true ->
  forall l, escfree l ->
  strip SNormal (dpass d (esc co) (esc cc) Outside l) = l /\
  forall buf, escfree buf -> strip SNormal (dpass d (esc co) (esc cc) (Inside buf) l) = d :: buf ++ l.
Proof.
  intros d co cc Hd Hco Hcc. induction l as [|c r IH]; intros Hl.
  - split; [reflexivity|]. intros buf Hb. cbn [dpass]. rewrite app_nil_r.
    replace (d :: buf) with ((d :: buf) ++ []) by apply app_nil_r.
    rewrite strip_escfree_app; [reflexivity|]. intros x [<-|Hx]; [exact Hd|apply Hb; exact Hx].
  - assert (Hr : escfree r) by (intros x Hx; apply Hl; right; exact Hx).
    assert (Hc : c <> ESC) by (apply Hl; left; reflexivity).
    destruct (IH Hr) as [IHo IHi]. split.
    + cbn [dpass]. destruct (N.eqb_spec c d) as [E|E].
      * subst c. rewrite (IHi [] (fun x (H : In x []) => match H with end)). reflexivity.
      * cbn [strip]. destruct (N.eqb_spec c ESC) as [E'|_]; [contradiction|]. rewrite IHo. reflexivity.
    + intros buf Hb. cbn [dpass]. destruct (N.eqb_spec c d) as [E|E].
      * subst c. rewrite strip_esc by exact Hco.
        change (d :: buf ++ d :: esc cc ++ dpass d (esc co) (esc cc) Outside r)
          with ((d :: buf) ++ d :: esc cc ++ dpass d (esc co) (esc cc) Outside r).
        replace ((d :: buf) ++ d :: esc cc ++ dpass d (esc co) (esc cc) Outside r)
          with (((d :: buf) ++ [d]) ++ esc cc ++ dpass d (esc co) (esc cc) Outside r) by (rewrite <- app_assoc; reflexivity).
        rewrite strip_escfree_app.
        -- rewrite strip_esc by exact Hcc. rewrite IHo. rewrite <- app_assoc. reflexivity.
        -- intros x Hx. apply in_app_or in Hx. destruct Hx as [[<-|Hx]|[<-|[]]]; [exact Hd|apply Hb; exact Hx|exact Hd].
      * destruct (N.eqb_spec c NL) as [E'|E'].
        -- replace (d :: buf ++ c :: dpass d (esc co) (esc cc) Outside r)
             with ((d :: buf ++ [c]) ++ dpass d (esc co) (esc cc) Outside r) by (cbn [app]; rewrite <- app_assoc; reflexivity).
           rewrite strip_escfree_app.
           ++ rewrite IHo. cbn [app]. rewrite <- app_assoc. reflexivity.
           ++ intros x [<-|Hx]; [exact Hd|]. apply in_app_or in Hx. destruct Hx as [Hx|[<-|[]]]; [apply Hb; exact Hx|exact Hc].
        -- rewrite IHi.
           ++ rewrite <- app_assoc. reflexivity.
           ++ intros x Hx. apply in_app_or in Hx. destruct Hx as [Hx|[<-|[]]]; [apply Hb; exact Hx|exact Hc].
Qed.

Theorem code_pass_strip : forall m, escfree m -> strip SNormal (code_pass m) = m.
Proof. intros m H. apply (dpass_strip BQ [57; 53] [48]); [discriminate|reflexivity|reflexivity|exact H]. Qed.

(* ---------- stronger: a delimiter pass is invisible to strip on EVERY byte string, from every state ---------- *)
(* no well-formedness of the input is needed: the opening escape is inserted right before a delimiter, the closing one right
   after a delimiter, and a delimiter (backtick, double quote) is none of ESC, `[`, a parameter byte, `m` -- reading it always
   leaves the strip automaton in SNormal, and an escape sequence in front of it is dropped from whatever state *)
Definition safe (c : N) : Prop := c <> ESC /\ c <> LBR /\ is_param c = false /\ c <> CM.

Lemma strip_safe : forall s d r, safe d -> strip s (d :: r) = flush s ++ d :: strip SNormal r.
Proof.
  intros s d r [H1 [H2 [H3 H4]]]. destruct s as [| |b]; cbn [strip flush app].
  - destruct (N.eqb_spec d ESC); [contradiction|reflexivity].
  - destruct (N.eqb_spec d LBR); [contradiction|]. destruct (N.eqb_spec d ESC); [contradiction|reflexivity].
  - rewrite H3. destruct (N.eqb_spec d CM); [contradiction|]. destruct (N.eqb_spec d ESC); [contradiction|reflexivity].
Qed.

Lemma strip_esc_any : forall s code b, forallb is_param code = true -> strip s (esc code ++ b) = flush s ++ strip SNormal b.
Proof.
  intros s code b H. unfold esc. destruct s as [| |buf]; cbn [app strip flush].
  - rewrite N.eqb_refl. cbn [strip]. rewrite N.eqb_refl. rewrite <- app_assoc. cbn [app]. apply strip_csi. exact H.
  - change (ESC =? LBR) with false. cbn iota. rewrite N.eqb_refl. cbn [strip]. rewrite N.eqb_refl.
    rewrite <- app_assoc. cbn [app]. rewrite strip_csi by exact H. reflexivity.
  - change (is_param ESC) with false. cbn iota. change (ESC =? CM) with false. cbn iota. rewrite N.eqb_refl.
    cbn [strip]. rewrite N.eqb_refl. rewrite <- app_assoc. cbn [app]. rewrite strip_csi by exact H. reflexivity.
Qed.

Lemma strip_cong : forall buf Y Y', (forall s, strip s Y = strip s Y') -> forall s, strip s (buf ++ Y) = strip s (buf ++ Y').
Proof.
  induction buf as [|c buf IH]; intros Y Y' H s; [apply H|].
  cbn [app]. destruct s as [| |b]; cbn [strip]; repeat match goal with |- context [if ?x then _ else _] => destruct x end;
    rewrite ?(IH Y Y' H); reflexivity.
Qed.

Lemma dpass_invisible : forall d co cc, safe d -> forallb is_param co = true -> forallb is_param cc = true ->
  forall l,
  (forall s, strip s (dpass d (esc co) (esc cc) Outside l) = strip s l) /\
  (forall buf s, strip s (dpass d (esc co) (esc cc) (Inside buf) l) = strip s (d :: buf ++ l)).
Proof.
  intros d co cc Hd Hco Hcc. induction l as [|c r [IHo IHi]]; split.
  - reflexivity.
  - intros buf s. cbn [dpass]. rewrite app_nil_r. reflexivity.
  - intros s. cbn [dpass]. destruct (N.eqb_spec c d) as [E|E].
    + subst c. rewrite IHi. reflexivity.
    + change (c :: dpass d (esc co) (esc cc) Outside r) with ([c] ++ dpass d (esc co) (esc cc) Outside r).
      change (c :: r) with ([c] ++ r). apply strip_cong. exact IHo.
  - intros buf s. cbn [dpass]. destruct (N.eqb_spec c d) as [E|E].
    + subst c. rewrite strip_esc_any by exact Hco.
      rewrite (strip_safe s d (buf ++ d :: r) Hd).
      rewrite (strip_safe SNormal d _ Hd). cbn [flush app]. f_equal. f_equal.
      apply strip_cong. intros s'. rewrite !(strip_safe s' d) by exact Hd. f_equal. f_equal.
      rewrite strip_esc_any by exact Hcc. cbn [flush app]. apply IHo.
    + destruct (N.eqb_spec c NL) as [E'|E'].
      * change (d :: buf ++ c :: dpass d (esc co) (esc cc) Outside r) with ((d :: buf) ++ [c] ++ dpass d (esc co) (esc cc) Outside r).
        change (d :: buf ++ c :: r) with ((d :: buf) ++ [c] ++ r).
        apply strip_cong. intros s'. apply strip_cong. exact IHo.
      * rewrite IHi. rewrite <- app_assoc. reflexivity.
Qed.

Lemma strip_escfree : forall m, escfree m -> strip SNormal m = m.
Proof. intros m H. rewrite <- (app_nil_r m) at 1. rewrite strip_escfree_app by exact H. cbn [strip flush]. apply app_nil_r. Qed.

Lemma safe_BQ : safe BQ. Proof. repeat split; discriminate. Qed.
Lemma safe_DQ : safe DQ. Proof. repeat split; discriminate. Qed.

(* the two delimiter passes of PrettyPrintErrorMessage composed: stripping gives back the plain message *)
Theorem code_then_path_strip : forall m, escfree m -> strip SNormal (path_pass (code_pass m)) = m.
Proof.
  intros m H. unfold path_pass, code_pass.
  rewrite (proj1 (dpass_invisible DQ [51; 54] [48] safe_DQ eq_refl eq_refl _)).
  rewrite (proj1 (dpass_invisible BQ [57; 53] [48] safe_BQ eq_refl eq_refl _)).
  apply strip_escfree. exact H.
Qed.
Print Assumptions code_then_path_strip.

(* the nilability pass runs FIRST, on the ESC-free message: there the remover is always in SNormal, where a complete escape
   sequence is invisible wherever it is inserted -- so nothing about the matcher is needed, the lemma holds for every k *)
Lemma strip_normal_cons : forall c r, c <> ESC -> strip SNormal (c :: r) = c :: strip SNormal r.
Proof. intros c r H. cbn [strip]. destruct (N.eqb_spec c ESC); [contradiction|reflexivity]. Qed.

Lemma npass_escfree : forall co cc, forallb is_param co = true -> forallb is_param cc = true ->
  forall l k, escfree l -> strip SNormal (npass (esc co) (esc cc) k l) = l.
Proof.
  intros co cc Hco Hcc. induction l as [|c r IH]; intros k H; [destruct k; reflexivity|].
  assert (Hr : escfree r) by (intros x Hx; apply H; right; exact Hx).
  assert (Hc : c <> ESC) by (apply H; left; reflexivity).
  assert (T : forall j, strip SNormal (c :: match j with O => esc cc ++ npass (esc co) (esc cc) O r | S _ => npass (esc co) (esc cc) j r end) = c :: r).
  { intros j. rewrite strip_normal_cons by exact Hc. f_equal. destruct j; [rewrite strip_esc by exact Hcc|]; apply IH; exact Hr. }
  cbn [npass]. destruct k as [|j].
  - destruct (match_len (c :: r)) as [[|j]|].
    + rewrite strip_normal_cons by exact Hc. f_equal. apply IH. exact Hr.
    + rewrite strip_esc by exact Hco. apply T.
    + rewrite strip_normal_cons by exact Hc. f_equal. apply IH. exact Hr.
  - apply T.
Qed.


(* C13, second sentence, for the model: stripping the escape sequences from the pretty-printed message gives back
   `error: ` followed by the plain message, for every message that contains no ESC byte itself *)
Theorem pretty_strip : forall m, escfree m -> strip SNormal (pretty m) = error_prefix ++ m.
Proof.
  intros m H. unfold pretty. rewrite strip_esc by reflexivity.
  fold error_prefix. rewrite strip_escfree_app.
  - f_equal. rewrite strip_esc by reflexivity. unfold path_pass, code_pass.
    rewrite (proj1 (dpass_invisible DQ [51; 54] [48] safe_DQ eq_refl eq_refl _)).
    rewrite (proj1 (dpass_invisible BQ [57; 53] [48] safe_BQ eq_refl eq_refl _)).
    unfold nil_pass. apply npass_escfree; [reflexivity|reflexivity|exact H].
  - intros x Hx. unfold error_prefix in Hx. cbn [In] in Hx.
    repeat (destruct Hx as [<-|Hx]; [discriminate|]). destruct Hx.
Qed.
Print Assumptions pretty_strip.
