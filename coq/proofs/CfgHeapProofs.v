From Coq Require Import List Bool Arith PeanoNat Lia.
From NM Require Import CfgHeap.
Import ListNotations.

(* a well-formed heap: every allocated address is below h_next *)
Definition heap_ok (h : heap) : Prop := forall a b, In (a, b) (cells h) -> a < h_next h.

Lemma hlookup_app l l' a : hlookup (l ++ l') a = match hlookup l a with Some b => Some b | None => hlookup l' a end.
Proof. induction l as [|[k b] l IH]; cbn; auto. destruct (Nat.eqb k a); auto. Qed.

Lemma hlookup_In l a b : hlookup l a = Some b -> In (a, b) l.
Proof.
  induction l as [|[k x] l IH]; cbn; [discriminate|]. destruct (Nat.eqb k a) eqn:E; intros H.
  - apply Nat.eqb_eq in E. inversion H; subst. auto.
  - auto.
Qed.

Lemma hlookup_hupdate_other l a a' b : a <> a' -> hlookup (hupdate l a b) a' = hlookup l a'.
Proof.
  intros H. induction l as [|[k x] l IH]; cbn; auto.
  destruct (Nat.eqb k a) eqn:E; cbn.
  - apply Nat.eqb_eq in E; subst k. destruct (Nat.eqb a a') eqn:E2; auto. apply Nat.eqb_eq in E2. congruence.
  - destruct (Nat.eqb k a'); auto.
Qed.

Lemma In_hupdate l a b k x : In (k, x) (hupdate l a b) -> exists y, In (k, y) l.
Proof.
  induction l as [|[k0 x0] l IH]; cbn; [tauto|].
  destruct (Nat.eqb k0 a); cbn; intros [H|H].
  - inversion H; subst. eauto.
  - eauto.
  - inversion H; subst. eauto.
  - destruct (IH H) as [y Hy]. eauto.
Qed.

(* the frame of one step: cells below the mark keep their content, and the heap stays well-formed *)
Definition frame (mark : addr) (h h' : heap) : Prop :=
  (forall a, a < mark -> hlookup (cells h') a = hlookup (cells h) a) /\ h_next h <= h_next h'.

Lemma frame_refl mark h : frame mark h h.
Proof. split; auto. Qed.
Lemma frame_trans mark h1 h2 h3 : frame mark h1 h2 -> frame mark h2 h3 -> frame mark h1 h3.
Proof. intros [A1 B1] [A2 B2]. split; [|lia]. intros a Ha. rewrite A2, A1; auto. Qed.

Lemma alloc_frame mark h b : heap_ok h -> mark <= h_next h ->
  frame mark h (fst (alloc h b)) /\ heap_ok (fst (alloc h b)) /\ mark <= snd (alloc h b) /\ snd (alloc h b) < h_next (fst (alloc h b)).
Proof.
  intros Hok Hm. unfold alloc; cbn. split; [split; cbn|split; [|split; lia]].
  - intros a Ha. rewrite hlookup_app. destruct (hlookup (cells h) a); auto. cbn.
    destruct (Nat.eqb (h_next h) a) eqn:E; auto. apply Nat.eqb_eq in E. lia.
  - lia.
  - intros a x Hin. cbn in *. apply in_app_or in Hin. destruct Hin as [Hin|[Hin|[]]].
    + specialize (Hok a x Hin). lia.
    + inversion Hin; subst. lia.
Qed.

Lemma write_frame mark h a f : heap_ok h -> mark <= a -> frame mark h (write h a f) /\ heap_ok (write h a f).
Proof.
  intros Hok Ha. unfold write. destruct (hlookup (cells h) a) as [b|] eqn:E; [|split; [apply frame_refl|auto]].
  split; [split; cbn; auto|].
  - intros a' Ha'. apply hlookup_hupdate_other. lia.
  - intros k x Hin. cbn in *. destruct (In_hupdate _ _ _ _ _ Hin) as [y Hy]. eauto.
Qed.

(* all blocks of a graph are fresh w.r.t. a mark *)
Definition fresh_graph (mark : addr) (h : heap) (g : graph) : Prop := forall a, In a g -> mark <= a /\ a < h_next h.

Lemma write_case mark h g a f : heap_ok h -> fresh_graph mark h g -> In a g ->
  frame mark h (write h a f) /\ heap_ok (write h a f) /\ fresh_graph mark (write h a f) g.
Proof.
  intros Hok Hfr Hin. destruct (Hfr a Hin) as [Ha _].
  destruct (write_frame mark h a f Hok Ha) as [F O].
  split; [exact F|]. split; [exact O|].
  intros x Hx. destruct (Hfr x Hx) as [H1 H2]. destruct F as [_ F]. split; [exact H1|lia].
Qed.

Lemma exec_frame mark h g o :
  heap_ok h -> mark <= h_next h -> fresh_graph mark h g ->
  let '(h', g') := exec (h, g) o in frame mark h h' /\ heap_ok h' /\ fresh_graph mark h' g'.
Proof.
  intros Hok Hm Hfr.
  assert (Hid : frame mark h h /\ heap_ok h /\ fresh_graph mark h g) by (split; [apply frame_refl|split; auto]).
  destruct o as [i ns|i js|i v|ns js live]; cbn.
  - destruct (nth_error g i) as [a|] eqn:E; [|exact Hid]. apply nth_error_In in E. now apply write_case.
  - destruct (nth_error g i) as [a|] eqn:E; [|exact Hid]. apply nth_error_In in E. now apply write_case.
  - destruct (nth_error g i) as [a|] eqn:E; [|exact Hid]. apply nth_error_In in E. now apply write_case.
  - pose (nb := {| b_nodes := ns; b_succs := flat_map (fun j => match nth_error g j with Some x => [x] | None => [] end) js; b_live := live; b_index := length g |}).
    destruct (alloc_frame mark h nb Hok Hm) as [F [O [L1 L2]]].
    unfold alloc, nb in F, O, L1, L2. cbn [fst snd] in F, O, L1, L2.
    split; [exact F|]. split; [exact O|].
    intros x Hx. apply in_app_or in Hx. destruct Hx as [Hx|[<-|[]]].
    + destruct (Hfr x Hx) as [H1 H2]. destruct F as [_ F]. cbn in F. split; [exact H1|cbn; lia].
    + split; [exact L1|exact L2].
Qed.

Lemma run_ops_frame mark ops : forall h g,
  heap_ok h -> mark <= h_next h -> fresh_graph mark h g ->
  frame mark h (fst (run_ops (h, g) ops)).
Proof.
  induction ops as [|o ops IH]; intros h g Hok Hm Hfr; [apply frame_refl|].
  pose proof (exec_frame mark h g o Hok Hm Hfr) as H. destruct (exec (h, g) o) as [h1 g1] eqn:Ex.
  destruct H as [F [O Fr]]. unfold run_ops in *. cbn [fold_left]. rewrite Ex.
  eapply frame_trans; [exact F|]. apply IH; auto. destruct F. lia.
Qed.

(* copyGraph only allocates and writes to what it allocated *)
Lemma copy_blocks_frame g : forall h mark, heap_ok h -> mark <= h_next h ->
  let '(h', m) := copy_blocks h g in
  frame mark h h' /\ heap_ok h' /\ (forall kv, In kv m -> mark <= snd kv /\ snd kv < h_next h').
Proof.
  induction g as [|a g IH]; intros h mark Hok Hm; cbn [copy_blocks].
  - split; [apply frame_refl|]. split; auto. intros kv [].
  - destruct (hlookup (cells h) a) as [b|]; [|apply IH; auto].
    pose (nb := {| b_nodes := b_nodes b; b_succs := []; b_live := b_live b; b_index := b_index b |}).
    destruct (alloc_frame mark h nb Hok Hm) as [F [O [L1 L2]]].
    fold nb. destruct (alloc h nb) as [h1 a'] eqn:Ea. cbn [fst snd] in *.
    assert (Hm1 : mark <= h_next h1) by (destruct F; lia).
    specialize (IH h1 mark O Hm1). destruct (copy_blocks h1 g) as [h2 m]. destruct IH as [F2 [O2 M2]].
    split; [eapply frame_trans; eauto|]. split; [exact O2|].
    intros kv [<-|H]; cbn [snd].
    + destruct F2 as [_ F2]. split; lia.
    + apply (M2 kv H).
Qed.

Lemma fold_write_frame mark (h0 : heap) (m : list (addr * addr)) (fm : list (addr * addr)) : forall hh,
  heap_ok hh -> (forall kv, In kv m -> mark <= snd kv) ->
  frame mark hh (fold_left (fun hh kv =>
     match hlookup (cells h0) (fst kv) with
     | Some b => write hh (snd kv) (fun nb => {| b_nodes := b_nodes nb; b_succs := map (amap fm) (b_succs b); b_live := b_live nb; b_index := b_index nb |})
     | None => hh end) m hh) /\
  heap_ok (fold_left (fun hh kv =>
     match hlookup (cells h0) (fst kv) with
     | Some b => write hh (snd kv) (fun nb => {| b_nodes := b_nodes nb; b_succs := map (amap fm) (b_succs b); b_live := b_live nb; b_index := b_index nb |})
     | None => hh end) m hh).
Proof.
  induction m as [|[k v] m IH]; intros hh Hok Hm; cbn; [split; [apply frame_refl|auto]|].
  destruct (hlookup (cells h0) k) as [b|].
  - match goal with |- context [write hh v ?f] => destruct (write_frame mark hh v f Hok (Hm (k, v) (or_introl eq_refl))) as [F O] end.
    match goal with |- context [write hh v ?f] => destruct (IH (write hh v f) O (fun kv H => Hm kv (or_intror H))) as [F2 O2] end.
    split; auto. eapply frame_trans; eauto.
  - apply IH; auto. intros kv H. apply (Hm kv). right; auto.
Qed.

(* C17 (model level): whatever sequence of rewriting writes is applied to the COPY, every cell that existed before
   Preprocessor.CFG was called -- in particular every block of the shared graph -- is unchanged afterwards *)
Theorem preprocess_frame h g ops : heap_ok h ->
  forall a, a < h_next h -> hlookup (cells (fst (preprocess h g ops))) a = hlookup (cells h) a.
Proof.
  intros Hok. set (mark := h_next h).
  unfold preprocess, copy_graph.
  pose proof (copy_blocks_frame g h mark Hok (le_n _)) as HC.
  destruct (copy_blocks h g) as [h1 m]. destruct HC as [F1 [O1 M1]].
  destruct (fold_write_frame mark h m m h1 O1 (fun kv H => proj1 (M1 kv H))) as [F2 O2].
  match goal with |- context [run_ops (?x, ?y) ops] => set (h2 := x) in *; set (g2 := y) in * end.
  assert (Fr : fresh_graph mark h2 g2).
  { intros x Hx. unfold g2 in Hx. apply in_map_iff in Hx. destruct Hx as [[k v] [<- Hin]]. cbn.
    destruct (M1 (k, v) Hin) as [M1a M1b]. cbn [snd] in *. destruct F2 as [_ F2]. split; auto. lia. }
  assert (Hm2 : mark <= h_next h2) by (destruct F1, F2; lia).
  pose proof (run_ops_frame mark ops h2 g2 O2 Hm2 Fr) as F3.
  intros a Ha. destruct F3 as [A3 _]. destruct F2 as [A2 _]. destruct F1 as [A1 _].
  rewrite A3, A2, A1; auto.
Qed.

(* non-vacuity: a two-block graph, one rewrite of each kind *)
Definition ex_heap : heap := {| cells := [(0, {| b_nodes := [7]; b_succs := [1]; b_live := true; b_index := 0 |});
                                         (1, {| b_nodes := [8; 9]; b_succs := []; b_live := true; b_index := 1 |})]; h_next := 2 |}.
Example ex_preprocess :
  heap_ok ex_heap /\
  let '(h', g') := preprocess ex_heap [0; 1] [OSetNodes 0 [5]; OSetSuccs 1 [0]; OAppendBlock [] [] false; OSetLive 2 true] in
  hlookup (cells h') 0 = hlookup (cells ex_heap) 0 /\ hlookup (cells h') 1 = hlookup (cells ex_heap) 1 /\ g' = [2; 3; 4].
Proof.
  split.
  - intros a b [H|[H|[]]]; inversion H; subst; cbn; lia.
  - vm_compute. auto.
Qed.
