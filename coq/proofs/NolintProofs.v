(* M12 (model/Nolint.v): what a nolint directive says.  A structured directive -- leading slashes and spaces, the word
   nolint, optionally a colon and a comma-separated linter list with arbitrary spaces around the items, optionally an
   explanation after " //" -- printed as text and handed to nolint_contains suppresses NilAway diagnostics exactly if it has
   no linter list or the list names `nilaway` or `all` (in any letter case).  And a comment whose text does not start
   with the word nolint never does. *)
From Coq Require Import List Bool Arith PeanoNat Lia.
From NM Require Import Nolint.
Import ListNotations.

Record item := { i_pre : nat; i_name : bytes; i_post : nat }.
Record directive := { d_lead : bytes; d_gap : nat; d_list : option (list item); d_expl : option bytes }.

Definition spaces (n : nat) : bytes := repeat c_space n.
Definition print_item (it : item) : bytes := spaces (i_pre it) ++ i_name it ++ spaces (i_post it).
Fixpoint join_comma (l : list bytes) : bytes :=
  match l with
  | [] => []
  | [x] => x
  | x :: r => x ++ c_comma :: join_comma r
  end.
Definition print_list (d : directive) : bytes :=
  match d_list d with None => [] | Some its => spaces (d_gap d) ++ c_colon :: join_comma (map print_item its) end.
Definition print_expl (d : directive) : bytes :=
  match d_expl d with None => [] | Some e => c_space :: c_slash :: c_slash :: e end.
Definition print (d : directive) : bytes := d_lead d ++ s_nolint ++ print_list d ++ print_expl d.

(* a linter name: no white space, no colon, comma or slash *)
Definition name_ok (n : bytes) : bool := forallb (fun c => negb (mem c (c_colon :: c_comma :: c_slash :: ws))) n.
Definition wf (d : directive) : bool :=
  forallb (fun c => mem c [c_slash; c_space]) (d_lead d) &&
  match d_list d with None => true | Some its => forallb (fun it => name_ok (i_name it)) its end.

Definition names (it : item) : bool := fold_eqb (i_name it) s_all || fold_eqb (i_name it) s_nilaway.
Definition decide (d : directive) : bool := match d_list d with None => true | Some its => existsb names its end.

(* ---------- trimming ---------- *)

Lemma trim_left_app_set set l r : forallb (fun c => mem c set) l = true -> trim_left set (l ++ r) = trim_left set r.
Proof. induction l as [|c l IH]; simpl; auto. intros H. apply andb_prop in H. destruct H as [-> H]. auto. Qed.

Lemma trim_left_all set l : forallb (fun c => mem c set) l = true -> trim_left set l = [].
Proof. induction l as [|c l IH]; simpl; auto. intros H. apply andb_prop in H. destruct H as [-> H]. auto. Qed.

Lemma trim_left_head set c l : mem c set = false -> trim_left set (c :: l) = c :: l.
Proof. simpl. now intros ->. Qed.

Lemma trim_right_nil_iff set l : trim_right set l = [] <-> forallb (fun c => mem c set) l = true.
Proof.
  induction l as [|c l IH]; simpl; [tauto|].
  destruct (trim_right set l) as [|x r] eqn:T.
  - destruct (mem c set); simpl; [rewrite <- IH; tauto|split; discriminate].
  - split; [discriminate|]. intros H. apply andb_prop in H. destruct H as [_ H]. apply IH in H. discriminate.
Qed.

Lemma trim_right_app_set set l r : forallb (fun c => mem c set) r = true -> trim_right set (l ++ r) = trim_right set l.
Proof.
  intros H. induction l as [|c l IH]; simpl.
  - now apply trim_right_nil_iff.
  - now rewrite IH.
Qed.

Lemma trim_right_last set l c : mem c set = false -> trim_right set (l ++ [c]) = l ++ [c].
Proof.
  intros H. induction l as [|x l IH]; simpl; [now rewrite H|].
  rewrite IH. destruct (l ++ [c]) eqn:E; [destruct l; discriminate|reflexivity].
Qed.

Lemma trim_right_idem set l : trim_right set (trim_right set l) = trim_right set l.
Proof.
  induction l as [|c l IH]; simpl; auto.
  destruct (trim_right set l) as [|x r] eqn:T.
  - destruct (mem c set) eqn:M; simpl; auto. now rewrite M.
  - simpl in *. rewrite IH. reflexivity.
Qed.

Lemma spaces_ws n : forallb (fun c => mem c ws) (spaces n) = true.
Proof. induction n; simpl; auto. Qed.

(* a name without white space is what trimming leaves of it *)
Lemma trim_space_item it : name_ok (i_name it) = true -> trim_space (print_item it) = i_name it.
Proof.
  intros H. unfold trim_space, print_item.
  rewrite trim_left_app_set by apply spaces_ws.
  assert (NW : forallb (fun c => negb (mem c ws)) (i_name it) = true).
  { unfold name_ok in H. rewrite forallb_forall in *. intros c I. specialize (H c I).
    apply negb_true_iff in H. apply negb_true_iff.
    unfold mem in H. cbn [existsb] in H. do 3 (apply orb_false_iff in H; destruct H as [_ H]).
    (* the three separator tests are dropped, the white-space tests remain *)
    exact H. }
  generalize dependent (i_name it). intros nm _ NW.
  destruct nm as [|c n].
  - cbn [app]. rewrite trim_left_all by apply spaces_ws. reflexivity.
  - cbn [forallb] in NW. apply andb_prop in NW. destruct NW as [Nc Nn]. apply negb_true_iff in Nc.
    cbn [app]. rewrite trim_left_head by exact Nc.
    rewrite app_comm_cons, trim_right_app_set by apply spaces_ws.
    clear - Nc Nn. revert c Nc. induction n as [|x n IH]; intros c Nc.
    + cbn [trim_right]. now rewrite Nc.
    + cbn [forallb] in Nn. apply andb_prop in Nn. destruct Nn as [Nx Nn]. apply negb_true_iff in Nx.
      specialize (IH Nn x Nx). cbn [trim_right] in *. rewrite IH. reflexivity.
Qed.

Lemma trim_right_keep set a c x : mem c set = false -> trim_right set (a ++ c :: x) = a ++ c :: trim_right set x.
Proof.
  intros H. induction a as [|y a IH]; cbn [app trim_right].
  - destruct (trim_right set x); [now rewrite H|reflexivity].
  - rewrite IH. destruct a; reflexivity.
Qed.

Lemma trim_right_noset set l : forallb (fun c => negb (mem c set)) l = true -> trim_right set l = l.
Proof.
  induction l as [|c l IH]; cbn [forallb trim_right]; auto.
  intros H. apply andb_prop in H. destruct H as [Hc Hl]. apply negb_true_iff in Hc.
  rewrite (IH Hl). destruct l; [now rewrite Hc|reflexivity].
Qed.

Lemma name_ok_no_ws n : name_ok n = true -> forallb (fun c => negb (mem c ws)) n = true.
Proof.
  unfold name_ok. rewrite !forallb_forall. intros H c I. specialize (H c I).
  apply negb_true_iff in H. apply negb_true_iff.
  unfold mem in H. cbn [existsb] in H. do 3 (apply orb_false_iff in H; destruct H as [_ H]). exact H.
Qed.

Lemma name_ok_no c0 n : In c0 [c_colon; c_comma; c_slash] -> name_ok n = true -> forallb (fun c => negb (Nat.eqb c c0)) n = true.
Proof.
  unfold name_ok. rewrite !forallb_forall. intros I0 H c I. specialize (H c I).
  apply negb_true_iff in H. apply negb_true_iff.
  unfold mem in H. cbn [existsb] in H.
  apply orb_false_iff in H; destruct H as [H1 H]. apply orb_false_iff in H; destruct H as [H2 H].
  apply orb_false_iff in H; destruct H as [H3 _].
  destruct I0 as [<-|[<-|[<-|[]]]]; assumption.
Qed.

(* the item without its trailing white space names the same linter *)
Lemma trim_right_item it : name_ok (i_name it) = true ->
  trim_right ws (print_item it) = match i_name it with [] => [] | _ => spaces (i_pre it) ++ i_name it end.
Proof.
  intros H. unfold print_item. rewrite app_assoc, trim_right_app_set by apply spaces_ws.
  pose proof (name_ok_no_ws _ H) as NW.
  destruct (i_name it) as [|c n] eqn:E.
  - rewrite app_nil_r. apply trim_right_nil_iff, spaces_ws.
  - cbn [forallb] in NW. apply andb_prop in NW. destruct NW as [Nc Nn]. apply negb_true_iff in Nc.
    rewrite trim_right_keep by exact Nc. f_equal. f_equal.
    apply trim_right_noset. exact Nn.
Qed.

Lemma names_nilaway_item it : name_ok (i_name it) = true -> names_nilaway (print_item it) = names it.
Proof. intros H. unfold names_nilaway, names. now rewrite trim_space_item. Qed.

Lemma names_nilaway_item_trimmed it : name_ok (i_name it) = true ->
  names_nilaway (trim_right ws (print_item it)) = names it.
Proof.
  intros H. rewrite trim_right_item by exact H. destruct (i_name it) as [|c n] eqn:E.
  - unfold names. rewrite E. reflexivity.
  - rewrite <- E. rewrite <- (app_nil_r (spaces (i_pre it) ++ i_name it)), <- app_assoc.
    change (spaces (i_pre it) ++ i_name it ++ []) with (print_item {| i_pre := i_pre it; i_name := i_name it; i_post := 0 |}).
    rewrite names_nilaway_item by (cbn [i_name]; rewrite E; exact H). reflexivity.
Qed.

(* ---------- splitting ---------- *)

Fixpoint map_last {A} (f : A -> A) (l : list A) : list A :=
  match l with
  | [] => []
  | [x] => [f x]
  | x :: r => x :: map_last f r
  end.

Lemma split_nonempty sep l : split_on sep l <> [].
Proof. destruct l as [|c l]; cbn [split_on]; [discriminate|]. destruct (Nat.eqb c sep); [discriminate|]. destruct (split_on sep l); discriminate. Qed.

Lemma split_no_sep sep l : forallb (fun c => negb (Nat.eqb c sep)) l = true -> split_on sep l = [l].
Proof.
  induction l as [|c l IH]; cbn [forallb split_on]; auto.
  intros H. apply andb_prop in H. destruct H as [Hc Hl]. apply negb_true_iff in Hc. rewrite Hc, (IH Hl). reflexivity.
Qed.

Lemma split_app_sep sep a b : forallb (fun c => negb (Nat.eqb c sep)) a = true ->
  split_on sep (a ++ sep :: b) = a :: split_on sep b.
Proof.
  induction a as [|c a IH]; cbn [forallb app split_on].
  - now rewrite Nat.eqb_refl.
  - intros H. apply andb_prop in H. destruct H as [Hc Ha]. apply negb_true_iff in Hc. rewrite Hc, (IH Ha). reflexivity.
Qed.

Lemma split_cons_sep sep l : split_on sep (sep :: l) = [] :: split_on sep l.
Proof. cbn [split_on]. now rewrite Nat.eqb_refl. Qed.

Lemma split_cons_other sep c l : c <> sep ->
  split_on sep (c :: l) = match split_on sep l with p :: ps => (c :: p) :: ps | [] => [[c]] end.
Proof. intros N. cbn [split_on]. destruct (Nat.eqb_spec c sep); [congruence|reflexivity]. Qed.

Lemma split_single sep l p : split_on sep l = [p] -> p = l /\ forallb (fun c => negb (Nat.eqb c sep)) l = true.
Proof.
  revert p. induction l as [|c l IH]; intros p S.
  - cbn in S. injection S as <-. auto.
  - destruct (Nat.eqb_spec c sep) as [->|N].
    + rewrite split_cons_sep in S. pose proof (split_nonempty sep l). destruct (split_on sep l); [congruence|discriminate].
    + rewrite split_cons_other in S by exact N.
      destruct (split_on sep l) as [|q qs] eqn:E; [exfalso; eapply split_nonempty; eauto|].
      injection S as <- ->. destruct (IH q eq_refl) as [-> NS]. split; auto.
      cbn [forallb]. rewrite NS. destruct (Nat.eqb_spec c sep); [congruence|reflexivity].
Qed.

Lemma split_trim_right sep l : mem sep ws = false ->
  split_on sep (trim_right ws l) = map_last (trim_right ws) (split_on sep l).
Proof.
  intros Hs. induction l as [|c l IH]; [reflexivity|].
  destruct (split_on sep l) as [|p ps] eqn:S; [exfalso; eapply split_nonempty; eauto|].
  destruct (Nat.eqb_spec c sep) as [->|N].
  - (* a separator is never trimmed *)
    rewrite split_cons_sep, S. change (map_last (trim_right ws) ([] :: p :: ps)) with ([] :: map_last (trim_right ws) (p :: ps)). rewrite <- IH.
    cbn [trim_right]. destruct (trim_right ws l) as [|x r]; [rewrite Hs|]; now rewrite split_cons_sep.
  - rewrite split_cons_other, S by exact N.
    destruct ps as [|q ps].
    + (* one piece: l has no separator *)
      destruct (split_single _ _ _ S) as [-> NS]. cbn [map_last].
      assert (NS' : forallb (fun c => negb (Nat.eqb c sep)) (trim_right ws (c :: l)) = true).
      { assert (G : forall m, forallb (fun c => negb (Nat.eqb c sep)) m = true -> forallb (fun c => negb (Nat.eqb c sep)) (trim_right ws m) = true).
        { induction m as [|y m IHm]; cbn [forallb trim_right]; auto. intros H. apply andb_prop in H. destruct H as [Hy Hm].
          specialize (IHm Hm). destruct (trim_right ws m); [destruct (mem y ws); cbn; auto; now rewrite Hy|cbn [forallb] in *; now rewrite Hy]. }
        apply G. cbn [forallb]. rewrite NS. destruct (Nat.eqb_spec c sep); [congruence|reflexivity]. }
      now apply split_no_sep.
    + change (map_last (trim_right ws) ((c :: p) :: q :: ps)) with ((c :: p) :: map_last (trim_right ws) (q :: ps)).
      change (map_last (trim_right ws) (p :: q :: ps)) with (p :: map_last (trim_right ws) (q :: ps)) in IH. cbn [trim_right].
      destruct (trim_right ws l) as [|x r] eqn:T.
      * (* impossible: l contains a separator, which is not white space *)
        exfalso. cbn [split_on] in IH.
        assert (NE : map_last (trim_right ws) (q :: ps) <> []) by (destruct ps; discriminate).
        destruct (map_last (trim_right ws) (q :: ps)); [congruence|discriminate].
      * rewrite split_cons_other, IH by exact N. reflexivity.
Qed.

Lemma spaces_no c0 n : c0 <> c_space -> forallb (fun c => negb (Nat.eqb c c0)) (spaces n) = true.
Proof.
  intros N. induction n as [|n IH]; [reflexivity|].
  change (spaces (S n)) with (c_space :: spaces n). cbn [forallb]. rewrite IH.
  destruct (Nat.eqb_spec c_space c0); [congruence|reflexivity].
Qed.

Lemma forallb_app' {A} (f : A -> bool) a b : forallb f a = true -> forallb f b = true -> forallb f (a ++ b) = true.
Proof. intros. rewrite forallb_app. now rewrite H, H0. Qed.

Lemma item_no c0 it : In c0 [c_colon; c_comma; c_slash] -> name_ok (i_name it) = true ->
  forallb (fun c => negb (Nat.eqb c c0)) (print_item it) = true.
Proof.
  intros I H. unfold print_item.
  assert (c0 <> c_space) by (destruct I as [<-|[<-|[<-|[]]]]; discriminate).
  repeat apply forallb_app'; auto using spaces_no, name_ok_no.
Qed.

Lemma join_cons x y r : join_comma (x :: y :: r) = x ++ c_comma :: join_comma (y :: r).
Proof. reflexivity. Qed.

Lemma join_no c0 its : In c0 [c_colon; c_slash] -> forallb (fun it => name_ok (i_name it)) its = true ->
  forallb (fun c => negb (Nat.eqb c c0)) (join_comma (map print_item its)) = true.
Proof.
  intros I. induction its as [|it its IH]; [reflexivity|].
  cbn [forallb]. intros H. apply andb_prop in H. destruct H as [Hi Hs].
  assert (I' : In c0 [c_colon; c_comma; c_slash]) by (destruct I as [<-|[<-|[]]]; cbn; auto).
  destruct its as [|it2 its]; [now apply item_no|].
  cbn [map] in *. rewrite join_cons.
  apply forallb_app'; [now apply item_no|]. cbn [forallb].
  assert (c_comma <> c0) by (destruct I as [<-|[<-|[]]]; discriminate).
  destruct (Nat.eqb_spec c_comma c0); [congruence|]. cbn [negb andb]. now apply IH.
Qed.

Lemma split_join its : forallb (fun it => name_ok (i_name it)) its = true -> its <> [] ->
  split_on c_comma (join_comma (map print_item its)) = map print_item its.
Proof.
  induction its as [|it its IH]; [congruence|]. cbn [forallb]. intros H _.
  apply andb_prop in H. destruct H as [Hi Hs].
  assert (NC : forallb (fun c => negb (Nat.eqb c c_comma)) (print_item it) = true) by (apply item_no; cbn; auto).
  destruct its as [|it2 its]; [now apply split_no_sep|].
  cbn [map] in *. rewrite join_cons.
  rewrite split_app_sep by exact NC. f_equal. apply IH; [exact Hs|discriminate].
Qed.

Lemma exists_names its : forallb (fun it => name_ok (i_name it)) its = true ->
  existsb names_nilaway (map_last (trim_right ws) (map print_item its)) = existsb names its.
Proof.
  induction its as [|it its IH]; [reflexivity|]. cbn [forallb map]. intros H.
  apply andb_prop in H. destruct H as [Hi Hs].
  destruct its as [|it2 its].
  - cbn [map map_last existsb]. now rewrite names_nilaway_item_trimmed.
  - change (map_last (trim_right ws) (print_item it :: map print_item (it2 :: its)))
      with (print_item it :: map_last (trim_right ws) (map print_item (it2 :: its))).
    cbn [existsb]. rewrite names_nilaway_item by exact Hi. f_equal. exact (IH Hs).
Qed.

Lemma has_prefix_app p r : has_prefix p (p ++ r) = true.
Proof. induction p; cbn; auto. now rewrite Nat.eqb_refl. Qed.

Lemma before_dslash_none l : forallb (fun c => negb (Nat.eqb c c_slash)) l = true -> before_dslash l = l.
Proof.
  induction l as [|a l IH]; auto. cbn [forallb]. intros H. apply andb_prop in H. destruct H as [Ha Hl].
  apply negb_true_iff in Ha. destruct l as [|b l]; auto.
  change (before_dslash (a :: b :: l)) with (if Nat.eqb a c_slash && Nat.eqb b c_slash then [] else a :: before_dslash (b :: l)).
  rewrite Ha. cbn [andb]. now rewrite (IH Hl).
Qed.

Lemma before_dslash_cut l e : forallb (fun c => negb (Nat.eqb c c_slash)) l = true ->
  before_dslash (l ++ c_slash :: c_slash :: e) = l.
Proof.
  induction l as [|a l IH]; [reflexivity|]. cbn [forallb]. intros H. apply andb_prop in H. destruct H as [Ha Hl].
  apply negb_true_iff in Ha. specialize (IH Hl).
  destruct l as [|b l].
  - cbn [app]. change (before_dslash (a :: c_slash :: c_slash :: e)) with (if Nat.eqb a c_slash && Nat.eqb c_slash c_slash then [] else a :: before_dslash (c_slash :: c_slash :: e)).
    rewrite Ha. cbn [andb]. f_equal.
  - cbn [app] in *. change (before_dslash (a :: b :: l ++ c_slash :: c_slash :: e)) with (if Nat.eqb a c_slash && Nat.eqb b c_slash then [] else a :: before_dslash (b :: l ++ c_slash :: c_slash :: e)).
    rewrite Ha. cbn [andb]. now rewrite IH.
Qed.

Lemma forallb_trim_right (P : byte -> bool) m : forallb P m = true -> forallb P (trim_right ws m) = true.
Proof.
  induction m as [|y m IHm]; cbn [forallb trim_right]; auto. intros H. apply andb_prop in H. destruct H as [Hy Hm].
  specialize (IHm Hm). destruct (trim_right ws m); [destruct (mem y ws); cbn; auto; now rewrite Hy|cbn [forallb] in *; now rewrite Hy].
Qed.

(* ---------- the theorem ---------- *)

Theorem nolint_print_decide d : wf d = true -> nolint_contains (print d) = decide d.
Proof.
  intros W. unfold wf in W. apply andb_prop in W. destruct W as [WL WI].
  unfold nolint_contains, print.
  rewrite trim_left_app_set by exact WL.
  change (s_nolint ++ print_list d ++ print_expl d) with (110 :: [111; 108; 105; 110; 116] ++ print_list d ++ print_expl d).
  rewrite trim_left_head by reflexivity.
  change (110 :: [111; 108; 105; 110; 116] ++ print_list d ++ print_expl d) with (s_nolint ++ print_list d ++ print_expl d).
  rewrite has_prefix_app. cbn [negb].
  change (skipn 6 (s_nolint ++ print_list d ++ print_expl d)) with (print_list d ++ print_expl d).
  unfold print_list, print_expl, decide.
  destruct (d_list d) as [its|] eqn:DL.
  - (* a linter list *)
    set (J := join_comma (map print_item its)).
    assert (NSl : forallb (fun c => negb (Nat.eqb c c_slash)) J = true) by (apply join_no; cbn; auto).
    assert (NCo : forallb (fun c => negb (Nat.eqb c c_colon)) J = true) by (apply join_no; cbn; auto).
    assert (First : exists c r, (spaces (d_gap d) ++ c_colon :: J) ++ match d_expl d with None => [] | Some e => c_space :: c_slash :: c_slash :: e end = c :: r /\ mem c [c_colon; c_space; c_tab] = true).
    { destruct (d_gap d); cbn [spaces repeat app]; eexists; eexists; split; reflexivity. }
    destruct First as (c & r & E & M).
    match goal with |- match ?X with [] => _ | _ :: _ => _ end = _ => replace X with (c :: r) by (symmetry; exact E) end.
    rewrite M. cbn [negb]. rewrite <- E. clear E M c r.
    (* everything before a possible explanation *)
    set (B := s_nolint ++ spaces (d_gap d) ++ c_colon :: J).
    assert (NB : forallb (fun c => negb (Nat.eqb c c_slash)) B = true).
    { unfold B. apply forallb_app'; [reflexivity|]. apply forallb_app'; [apply spaces_no; discriminate|].
      cbn [forallb]. now rewrite NSl. }
    assert (Cut : before_dslash (s_nolint ++ (spaces (d_gap d) ++ c_colon :: J) ++ match d_expl d with None => [] | Some e => c_space :: c_slash :: c_slash :: e end)
                  = B ++ match d_expl d with None => [] | Some _ => [c_space] end).
    { destruct (d_expl d) as [e|].
      - replace (s_nolint ++ (spaces (d_gap d) ++ c_colon :: J) ++ c_space :: c_slash :: c_slash :: e)
          with ((B ++ [c_space]) ++ c_slash :: c_slash :: e) by (unfold B; now rewrite <- !app_assoc).
        apply before_dslash_cut. apply forallb_app'; auto.
      - rewrite !app_nil_r. change (before_dslash B = B). now apply before_dslash_none. }
    rewrite Cut. clear Cut.
    assert (TS : trim_space (B ++ match d_expl d with None => [] | Some _ => [c_space] end)
                 = s_nolint ++ spaces (d_gap d) ++ c_colon :: trim_right ws J).
    { unfold trim_space.
      assert (TL : forall x, trim_left ws (B ++ x) = B ++ x) by (intros x; unfold B; reflexivity).
      rewrite TL.
      assert (TR : trim_right ws (B ++ match d_expl d with None => [] | Some _ => [c_space] end) = trim_right ws B).
      { destruct (d_expl d); [apply trim_right_app_set; reflexivity|now rewrite app_nil_r]. }
      rewrite TR. unfold B. rewrite app_assoc. rewrite trim_right_keep by reflexivity. now rewrite <- app_assoc. }
    rewrite TS. clear TS.
    assert (NC0 : forallb (fun c => negb (Nat.eqb c c_colon)) (s_nolint ++ spaces (d_gap d)) = true).
    { apply forallb_app'; [reflexivity|apply spaces_no; discriminate]. }
    rewrite app_assoc, split_app_sep by exact NC0.
    assert (NCt : forallb (fun c => negb (Nat.eqb c c_colon)) (trim_right ws J) = true).
    { now apply forallb_trim_right. }
    rewrite (split_no_sep _ _ NCt).
    change (s_nolint ++ spaces (d_gap d)) with (print_item {| i_pre := 0; i_name := s_nolint; i_post := d_gap d |}).
    rewrite trim_space_item by reflexivity. cbn [i_name].
    replace (bytes_eqb s_nolint s_nolint) with true by reflexivity. cbn [negb].
    rewrite split_trim_right by reflexivity.
    destruct its as [|it its'] eqn:EI.
    + reflexivity.
    + unfold J. rewrite split_join by (auto; discriminate). now apply exists_names.
  - (* the bare directive *)
    destruct (d_expl d) as [e|].
    + cbn [app]. cbn [mem existsb negb Nat.eqb c_space c_colon orb].
      replace (s_nolint ++ c_space :: c_slash :: c_slash :: e) with ((s_nolint ++ [c_space]) ++ c_slash :: c_slash :: e) by now rewrite <- app_assoc.
      rewrite before_dslash_cut by reflexivity. reflexivity.
    + reflexivity.
Qed.

(* a comment that does not start with the word nolint suppresses nothing *)
Theorem not_a_directive text :
  has_prefix s_nolint (trim_left [c_slash; c_space] text) = false -> nolint_contains text = false.
Proof. intros H. unfold nolint_contains. now rewrite H. Qed.

Theorem word_boundary text c r :
  skipn 6 (trim_left [c_slash; c_space] text) = c :: r -> mem c [c_colon; c_space; c_tab] = false ->
  nolint_contains text = false.
Proof.
  intros S M. unfold nolint_contains. destruct (has_prefix s_nolint _); auto. cbn [negb]. now rewrite S, M.
Qed.

Example nolint_examples :
  let d1 := {| d_lead := [c_slash; c_slash]; d_gap := 0; d_list := Some [{| i_pre := 0; i_name := [101; 114; 114]; i_post := 0 |}; {| i_pre := 1; i_name := [78; 105; 108; 65; 119; 97; 121]; i_post := 2 |}]; d_expl := Some [32; 119; 104; 121] |} in
  wf d1 = true /\ decide d1 = true /\ nolint_contains (print d1) = true /\
  nolint_contains ([c_slash; c_slash] ++ s_nolint ++ [108; 105; 110; 116]) = false.
Proof. vm_compute. repeat split. Qed.
